(* C13/Proofs4.v — faithfulness of the overlay: every written key is reflected, every unwritten leaf
   keeps its default, hence writing one setting never changes a sibling. *)
From Verif Require Import Common.Base C13.Model C13.Spec.
From Coq Require Import String.

Fixpoint ov_fields (fs : list (string * tv)) (m : option cv) : list (string * tv) :=
  match fs with
  | [] => []
  | (k, dv) :: r => (k, overlay dv (cv_lookup k m)) :: ov_fields r m
  end.

Lemma overlay_rec fs m : overlay (VRec fs) m = VRec (ov_fields fs m).
Proof. cbn [overlay]. f_equal. induction fs as [|[k dv] r IH]; cbn; [reflexivity|]. now rewrite IH. Qed.

Lemma lookup_ov_fields k fs m :
  lookup k (ov_fields fs m) = option_map (fun dv => overlay dv (cv_lookup k m)) (lookup k fs).
Proof.
  induction fs as [|[k' dv] r IH]; cbn; [reflexivity|].
  destruct (String.eqb_spec k k') as [->|Hne]; cbn; [reflexivity|exact IH].
Qed.

Section TvInd.
  Context (P : tv -> Prop).
  Hypothesis HSc : forall s, P (VSc s).
  Hypothesis HRec : forall fs, Forall (fun e => P (snd e)) fs -> P (VRec fs).
  Fixpoint tv_ind' (v : tv) : P v :=
    match v with
    | VSc s => HSc s
    | VRec fs => HRec fs ((fix go (l : list (string * tv)) : Forall (fun e => P (snd e)) l :=
                             match l with [] => Forall_nil _ | x :: r => Forall_cons x (tv_ind' (snd x)) (go r) end) fs)
    end.
End TvInd.

Lemma lookup_in {A} k (l : list (string * A)) a : lookup k l = Some a -> In (k, a) l.
Proof.
  induction l as [|[k' a'] l IH]; cbn; [discriminate|].
  destruct (String.eqb_spec k k') as [->|Hne]; [intros H; inversion H; now left|intros H; right; auto].
Qed.

(* the general statement: at a leaf path of the defaults, the decoded value is the written scalar
   if one was written there, the default otherwise *)
Lemma overlay_get d : forall p m s0,
  tv_get p d = Some (VSc s0) ->
  tv_get p (overlay d m) =
  Some (VSc (match cv_get p m with Some (CScalar s) => s | _ => s0 end)).
Proof.
  induction d as [s|fs IH] using tv_ind'; intros p m s0 Hg.
  - destruct p as [|k r]; cbn in Hg; [|discriminate]. inversion Hg; subst. cbn.
    destruct m as [[| s' | |]|]; reflexivity.
  - destruct p as [|k r]; cbn in Hg; [discriminate|].
    rewrite overlay_rec. cbn [tv_get]. rewrite lookup_ov_fields.
    destruct (lookup k fs) as [dv|] eqn:El; cbn in Hg |- *; [|discriminate].
    rewrite Forall_forall in IH. apply (IH (k, dv) (lookup_in _ _ _ El)). exact Hg.
Qed.

Lemma decode_written_l d m p s0 s :
  leaf_at d p s0 -> written m p s -> leaf_at (overlay d m) p s.
Proof. unfold leaf_at, written. intros Hl Hw. rewrite (overlay_get d p m s0 Hl), Hw. reflexivity. Qed.

Lemma decode_unwritten_l d m p s0 :
  leaf_at d p s0 -> unwritten m p -> leaf_at (overlay d m) p s0.
Proof.
  unfold leaf_at, unwritten. intros Hl [Hu|Hu]; rewrite (overlay_get d p m s0 Hl), Hu; reflexivity.
Qed.

(* writing one setting never changes a sibling: two configurations that agree at q decode to the
   same value at q, whatever else they write *)
Lemma decode_sibling_l d m m' q s0 :
  leaf_at d q s0 -> cv_get q m = cv_get q m' -> tv_get q (overlay d m) = tv_get q (overlay d m').
Proof. intros Hl He. rewrite (overlay_get d q m s0 Hl), (overlay_get d q m' s0 Hl), He. reflexivity. Qed.

(* the set of leaves is unchanged: the overlay neither adds nor removes settings *)
Lemma overlay_leaf_paths d m p s : leaf_at (overlay d m) p s -> exists s0, leaf_at d p s0.
Proof.
  revert p m s. induction d as [s1|fs IH] using tv_ind'; intros p m s Hl.
  - destruct p as [|k r]; [exists s1; reflexivity|]. unfold leaf_at in Hl. cbn in Hl.
    destruct m as [[| s' | |]|]; cbn in Hl; discriminate.
  - unfold leaf_at in *. rewrite overlay_rec in Hl. destruct p as [|k r]; cbn in Hl; [discriminate|].
    rewrite lookup_ov_fields in Hl. cbn [tv_get].
    destruct (lookup k fs) as [dv|] eqn:El; cbn in Hl |- *; [|discriminate].
    rewrite Forall_forall in IH. exact (IH (k, dv) (lookup_in _ _ _ El) r _ _ Hl).
Qed.

(* ---- the custom rules never touch a written setting --------------------------------------- *)
Lemma cv_get_none p : cv_get p None = None.
Proof. induction p as [|k r IH]; [reflexivity|]. cbn. exact IH. Qed.

Lemma cv_get_app a b m : cv_get (a ++ b) m = cv_get b (cv_get a m).
Proof. revert m. induction a as [|k r IH]; intros m; [reflexivity|]. cbn. apply IH. Qed.

(* whoever wrote something at a ++ k :: r has set key k at a *)
Lemma written_prefix_set a k r m x : cv_get (a ++ k :: r) m = Some x -> is_set a k m = true.
Proof.
  rewrite cv_get_app. cbn [cv_get]. unfold is_set.
  destruct (cv_lookup k (cv_get a m)); [reflexivity|]. rewrite cv_get_none. discriminate.
Qed.

(* [f] only changes what is stored under key [k] *)
Definition klocal (f : list (string * tv) -> list (string * tv)) (k : string) : Prop :=
  forall fs k', k' <> k -> lookup k' (f fs) = lookup k' fs.

Lemma klocal_filter k : klocal (filter (fun e => negb (String.eqb (fst e) k))) k.
Proof.
  intros fs k' Hne. induction fs as [|[k0 x] r IH]; [reflexivity|]. cbn.
  destruct (String.eqb_spec k0 k) as [->|Hk0]; cbn.
  - destruct (String.eqb_spec k' k); [contradiction|exact IH].
  - destruct (String.eqb_spec k' k0); [reflexivity|exact IH].
Qed.

Lemma klocal_replace from to :
  klocal (fun fs => match lookup from fs with
                    | Some x => map (fun e => if String.eqb (fst e) to then (to, x) else e) fs
                    | None => fs
                    end) to.
Proof.
  intros fs k' Hne. destruct (lookup from fs) as [x|]; [|reflexivity].
  induction fs as [|[k0 y] r IH]; [reflexivity|]. cbn.
  destruct (String.eqb_spec k0 to) as [->|Hk0]; cbn.
  - destruct (String.eqb_spec k' to); [contradiction|exact IH].
  - destruct (String.eqb_spec k' k0); [reflexivity|exact IH].
Qed.

Lemma lookup_map_update k' k0 (g : tv -> tv) fs :
  lookup k' (map (fun e : string * tv => if String.eqb (fst e) k0 then (fst e, g (snd e)) else e) fs) =
  option_map (fun x => if String.eqb k' k0 then g x else x) (lookup k' fs).
Proof.
  destruct (String.eqb k' k0) eqn:E.
  - apply String.eqb_eq in E. subst k'.
    induction fs as [|[k1 y] r IH]; [reflexivity|]. cbn [map fst snd].
    destruct (String.eqb_spec k1 k0) as [->|Hk1]; cbn [lookup fst snd].
    + rewrite String.eqb_refl. reflexivity.
    + destruct (String.eqb_spec k0 k1) as [Heq|_]; [symmetry in Heq; contradiction|exact IH].
  - induction fs as [|[k1 y] r IH]; [reflexivity|]. cbn [map fst snd].
    destruct (String.eqb_spec k1 k0) as [->|Hk1]; cbn [lookup fst snd].
    + rewrite E. exact IH.
    + destruct (String.eqb k' k1); [reflexivity|exact IH].
Qed.

(* a k-local update at [a] leaves every leaf that is not below a ++ [k] alone *)
Lemma tv_update_get f k : klocal f k -> forall a p v s,
  tv_get p v = Some (VSc s) -> (forall r, p <> a ++ k :: r) -> tv_get p (tv_update a f v) = Some (VSc s).
Proof.
  intros Hf. induction a as [|k0 a' IH]; intros p v s Hg Hp.
  - destruct v as [s'|fs]; [exact Hg|]. cbn [tv_update].
    destruct p as [|k' r]; [discriminate|]. cbn [tv_get] in *.
    rewrite Hf; [exact Hg|]. intros ->. exact (Hp r eq_refl).
  - destruct v as [s'|fs]; [exact Hg|]. cbn [tv_update].
    destruct p as [|k' r]; [discriminate|]. cbn [tv_get] in *.
    rewrite lookup_map_update. destruct (lookup k' fs) as [x|]; [|discriminate]. cbn [option_map opt_bind] in *.
    destruct (String.eqb_spec k' k0) as [->|Hne]; [|exact Hg].
    apply IH; [exact Hg|]. intros r' ->. exact (Hp r' eq_refl).
Qed.

Lemma apply_rule_written m v r p s x :
  cv_get p m = Some x -> tv_get p v = Some (VSc s) -> tv_get p (apply_rule m v r) = Some (VSc s).
Proof.
  intros Hw Hg. destruct r as [a k|a from to]; cbn [apply_rule].
  - destruct (is_set a k m) eqn:Es; [exact Hg|].
    apply (tv_update_get _ k (klocal_filter k)); [exact Hg|].
    intros r' ->. rewrite (written_prefix_set _ _ _ _ _ Hw) in Es. discriminate.
  - destruct (is_set a from m && negb (is_set a to m)) eqn:Es; [|exact Hg].
    apply (tv_update_get _ to (klocal_replace from to)); [exact Hg|].
    intros r' ->. rewrite (written_prefix_set _ _ _ _ _ Hw) in Es.
    rewrite andb_false_r in Es. discriminate.
Qed.

Lemma apply_rules_written m rs : forall v p s x,
  cv_get p m = Some x -> tv_get p v = Some (VSc s) ->
  tv_get p (fold_left (apply_rule m) rs v) = Some (VSc s).
Proof.
  induction rs as [|r rs IH]; intros v p s x Hw Hg; [exact Hg|]. cbn [fold_left].
  eapply IH; [exact Hw|]. eapply apply_rule_written; eauto.
Qed.

(* FULL sibling independence / faithfulness of the complete decode (generic overlay AND the custom
   rules of every component): a setting the user wrote has exactly the written value after the
   load, whatever else was written next to it *)
Lemma decode_model_written_l name d m p s0 s :
  leaf_at d p s0 -> written (Some m) p s -> leaf_at (decode_model name d m) p s.
Proof.
  intros Hl Hw. unfold decode_model, leaf_at. eapply apply_rules_written; [exact Hw|].
  exact (decode_written_l d (Some m) p s0 s Hl Hw).
Qed.

(* hence two configurations that write the same scalar at q agree at q after the complete decode *)
Lemma decode_model_sibling_l name d m m' q s0 s :
  leaf_at d q s0 -> written (Some m) q s -> written (Some m') q s ->
  tv_get q (decode_model name d m) = tv_get q (decode_model name d m').
Proof.
  intros Hl H1 H2. rewrite (decode_model_written_l name d m q s0 s Hl H1).
  now rewrite (decode_model_written_l name d m' q s0 s Hl H2).
Qed.
