(* C13/Spec.v — declarative side of the property (relations and predicates the theorems are
   stated against).  No executable model code here, no proofs. *)
From Verif Require Import Common.Base C13.Model.
From Coq Require Import String.

(* [reach t p w]: the value tree [t] has, at key path [p], a node that xconfmap.Validate is
   obliged to validate and whose Validate verdict is [w].  Reachability goes through exported
   struct fields, pointers and interfaces (no path segment), slice/array elements (index),
   map keys and map values (stringified key); NOT through unexported fields. *)
Inductive reach {E : Type} : vtree E -> path -> option E -> Prop :=
| R_struct v fs : reach (VStruct v fs) [] v
| R_seq v es : reach (VSeq v es) [] v
| R_map v kvs : reach (VMap v kvs) [] v
| R_leaf v : reach (VLeaf v) [] v
| R_ptr t p w : reach t p w -> reach (VPtr t) p w
| R_field v fs name sub p w :
    In (true, name, sub) fs -> reach sub p w -> reach (VStruct v fs) (name :: p) w
| R_elem v es i sub p w :
    nth_error es i = Some sub -> reach sub p w -> reach (VSeq v es) (itoa i :: p) w
| R_key v kvs k kt vt p w :
    In (k, kt, vt) kvs -> reach kt p w -> reach (VMap v kvs) (k :: p) w
| R_val v kvs k kt vt p w :
    In (k, kt, vt) kvs -> reach vt p w -> reach (VMap v kvs) (k :: p) w.

(* no reachable validator fails *)
Definition clean {E} (t : vtree E) : Prop := forall p e, ~ reach t p (Some e).

(* ---- references, ambiguity, pipeline shape ------------------------------------------- *)
Definition defined (k : string) (s : section) : Prop := In k (keys s).
Definition defined_nonnil (k : string) (s : section) : Prop := exists t, In (k, Some t) s.

Definition wf_nonempty (g : gates) (c : topcfg) : Prop :=
  ~ (c.(c_recv) = [] /\ c.(c_exp) = [] /\ c.(c_proc) = [] /\ c.(c_conn) = [] /\ c.(c_ext) = []) /\
  (g.(g_nopipe) = false -> c.(c_recv) <> [] /\ c.(c_exp) <> []).

Definition wf_refs (c : topcfg) : Prop :=
  (* no identifier shared by a connector and an exporter or receiver *)
  (forall cid, defined cid c.(c_conn) -> ~ defined cid c.(c_exp) /\ ~ defined cid c.(c_recv)) /\
  (* every service extension is configured *)
  (forall r, In r c.(c_svc_ext) -> defined_nonnil r c.(c_ext)) /\
  (* every pipeline reference resolves *)
  (forall p, In p c.(c_pipes) ->
     (forall r, In r p.(pp_recv) -> defined r c.(c_recv) \/ defined r c.(c_conn)) /\
     (forall r, In r p.(pp_proc) -> defined_nonnil r c.(c_proc)) /\
     (forall r, In r p.(pp_exp) -> defined r c.(c_exp) \/ defined r c.(c_conn))).

Definition signal_ok (g : gates) (p : pipe) : Prop :=
  p.(pp_sig) = "traces"%string \/ p.(pp_sig) = "metrics"%string \/ p.(pp_sig) = "logs"%string \/
  (p.(pp_sig) = "profiles"%string /\ g.(g_profiles) = true).

Definition wf_pipes (g : gates) (c : topcfg) : Prop :=
  (g.(g_nopipe) = false -> c.(c_pipes) <> []) /\ forall p, In p c.(c_pipes) -> signal_ok g p.

Definition wf_shape (p : pipe) : Prop :=
  p.(pp_recv) <> [] /\ p.(pp_exp) <> [] /\ NoDup p.(pp_proc).

Definition wf_tel (c : topcfg) : Prop :=
  (c.(c_tel_level) <> (-1)%Z -> c.(c_tel_readers) <> 0) /\
  (c.(c_tel_views) = true -> c.(c_tel_level) = 2%Z).

Definition sections (c : topcfg) : list section :=
  [c.(c_recv); c.(c_exp); c.(c_proc); c.(c_conn); c.(c_ext)].

Definition wf_components (c : topcfg) : Prop :=
  forall s k t, In s (sections c) -> In (k, Some t) s -> clean t.

(* the whole well-formedness the property demands of a loaded configuration *)
Definition wf (g : gates) (c : topcfg) : Prop :=
  wf_nonempty g c /\ wf_refs c /\ wf_pipes g c /\ (forall p, In p c.(c_pipes) -> wf_shape p) /\
  wf_tel c /\ wf_components c.

(* what it means for an error value to name an entry that really is offending *)
Definition offending (g : gates) (c : topcfg) (e : verr) : Prop :=
  match e with
  | EEmpty => c.(c_recv) = [] /\ c.(c_exp) = [] /\ c.(c_proc) = [] /\ c.(c_conn) = [] /\ c.(c_ext) = []
  | ENoReceivers => c.(c_recv) = [] /\ g.(g_nopipe) = false
  | ENoExporters => c.(c_exp) = [] /\ g.(g_nopipe) = false
  | EAmbigExp cid => defined cid c.(c_conn) /\ defined cid c.(c_exp)
  | EAmbigRecv cid => defined cid c.(c_conn) /\ defined cid c.(c_recv)
  | EExtRef r => In r c.(c_svc_ext) /\ ~ defined_nonnil r c.(c_ext)
  | ERecvRef pid r => exists p, In p c.(c_pipes) /\ p.(pp_id) = pid /\ In r p.(pp_recv) /\
                                ~ defined r c.(c_recv) /\ ~ defined r c.(c_conn)
  | EProcRef pid r => exists p, In p c.(c_pipes) /\ p.(pp_id) = pid /\ In r p.(pp_proc) /\
                                ~ defined_nonnil r c.(c_proc)
  | EExpRef pid r => exists p, In p c.(c_pipes) /\ p.(pp_id) = pid /\ In r p.(pp_exp) /\
                               ~ defined r c.(c_exp) /\ ~ defined r c.(c_conn)
  | ENoPipelines => c.(c_pipes) = [] /\ g.(g_nopipe) = false
  | EProfilesGate pid => exists p, In p c.(c_pipes) /\ p.(pp_id) = pid /\ ~ signal_ok g p
  | EUnknownSignal pid s => exists p, In p c.(c_pipes) /\ p.(pp_id) = pid /\ p.(pp_sig) = s /\ ~ signal_ok g p
  | _ => False
  end.

(* a duplicated processor reference: occurs at two different positions *)
Definition duplicated (r : string) (l : list string) : Prop :=
  exists i j, i < j /\ nth_error l i = Some r /\ nth_error l j = Some r.

(* ---- strict decoding ---------------------------------------------------------------------- *)
(* a struct level accepts key k: some field — its own or one of a squashed member's — is named k *)
Definition accepts (t : tdesc) (k : string) : Prop := exists t', In (k, t') (flat_of t).

(* [unk t v p k]: the configuration value [v], decoded into type [t], has at key path [p] a
   struct level that is written with a key [k] which no field of that level accepts (and the level
   has no `,remain` field).  Depth is unbounded: through fields (also of squashed members),
   pointers, slice elements and map entries. *)
Inductive unk : tdesc -> cv -> path -> string -> Prop :=
| U_here t rem fs kvs k x :
    strip t = TStruct rem fs -> In (k, x) kvs ->
    ~ accepts (TStruct rem fs) k -> remain_of (TStruct rem fs) = false ->
    unk t (CMap kvs) [] k
| U_field t rem fs kvs k x t' p k' :
    strip t = TStruct rem fs -> In (k, x) kvs ->
    lookup k (flat_of (TStruct rem fs)) = Some t' -> unk t' x p k' ->
    unk t (CMap kvs) (k :: p) k'
| U_elem t t' l i x p k :
    strip t = TSlice t' -> nth_error l i = Some x -> unk t' x p k ->
    unk t (CList l) (itoa i :: p) k
| U_entry t t' kvs key x p k :
    strip t = TMap t' -> In (key, x) kvs -> unk t' x p k ->
    unk t (CMap kvs) (key :: p) k.

(* ---- faithfulness ------------------------------------------------------------------------- *)
(* the user wrote the scalar [s] at key path [p] *)
Definition written (m : option cv) (p : path) (s : string) : Prop := cv_get p m = Some (CScalar s).
(* nothing (or an explicit null) was written at [p] *)
Definition unwritten (m : option cv) (p : path) : Prop := cv_get p m = None \/ cv_get p m = Some CNull.
(* [p] addresses a plain leaf of the typed configuration *)
Definition leaf_at (d : tv) (p : path) (s : string) : Prop := tv_get p d = Some (VSc s).

(* ---- kinds -------------------------------------------------------------------------------- *)
(* the decoded value is the value the user wrote (numbers as numbers, whatever the numeric kind;
   a string for a string list is the documented comma-split) *)
Definition same_value (w : wv) (r : dres) : Prop :=
  match w, r with
  | WBool b, DBool b' => b = b'
  | WInt z, DNum z' f => z = z' /\ f = false
  | WFloat z f, DNum z' f' => z = z' /\ f = f'
  | WStr s, DStr s' => s = s'
  | WStr s, DList l => l = split_comma s
  | WStr _, DOther => True      (* duration text, parsed by time.ParseDuration (outside the model) *)
  | WList, DOther | WMap, DOther => True
  | _, _ => False
  end.

(* the written value belongs to another family of kinds than the field *)
Definition family_mismatch (k : lkind) (w : wv) : bool :=
  match k, w with
  | _, WNull => false
  | KBool, WBool _ => false
  | KString, WStr _ => false
  | (KInt | KUint | KFloat | KDuration), (WInt _ | WFloat _ _) => false
  | KDuration, WStr _ => false
  | KStrSlice, (WStr _ | WList) => false
  | KStruct, WMap => false
  | _, _ => true
  end.

(* ---- round trip --------------------------------------------------------------------------- *)
(* [compat d v]: the typed configuration [v] has the shape of the defaults [d] (same keys in the
   same order, keys unique at every level) and carries no omitempty-zero ambiguity: wherever a
   field of [v] is left out of the effective configuration (omitempty and zero) the default of
   that field already is that value. *)
Inductive compat : otv -> otv -> Prop :=
| C_sc o z s o' z' s' : compat (OSc o z s) (OSc o' z' s')
| C_rec o fd o' fv :
    NoDup (map fst fv) ->
    Forall2 (fun d v => fst d = fst v /\ compat (snd d) (snd v) /\
                        (o_omitted (snd v) = true -> o_strip (snd d) = o_strip (snd v))) fd fv ->
    compat (ORec o fd) (ORec o' fv).

(* keys unique at every struct level *)
Inductive o_wf : otv -> Prop :=
| W_sc o z s : o_wf (OSc o z s)
| W_rec o fs : NoDup (map fst fs) -> Forall (fun e => o_wf (snd e)) fs -> o_wf (ORec o fs)
| W_nil o : o_wf (ONil o).

(* the setting at key path p of the typed configuration *)
Fixpoint o_get (p : path) (v : otv) : option otv :=
  match p with
  | [] => Some v
  | k :: r => match v with ORec _ fs => opt_bind (lookup k fs) (o_get r) | _ => None end
  end.

(* ... provided no field on the way (p itself included) is left out as omitempty-and-zero *)
Fixpoint o_get_vis (p : path) (v : otv) : option otv :=
  match p with
  | [] => Some v
  | k :: r =>
      match v with
      | ORec _ fs => opt_bind (lookup k fs) (fun x => if o_omitted x then None else o_get_vis r x)
      | _ => None
      end
  end.

(* ---- the encoder, all shapes ---------------------------------------------------------------- *)
Fixpoint xs_lookup (k : string) (fs : list (string * bool * xv)) : option (bool * xv) :=
  match fs with
  | [] => None
  | (n, o, x) :: r => if String.eqb k n then Some (o, x) else xs_lookup k r
  end.

Fixpoint xm_lookup (k : string) (kvs : list (xkey * xv)) : option xv :=
  match kvs with
  | [] => None
  | (k', x) :: r => if String.eqb k (key_str k') then Some x else xm_lookup k r
  end.

(* the value at key path p, provided no struct field on the way is skipped (omitempty-and-zero, "-") *)
Fixpoint x_unptr (v : xv) : xv := match v with XPtr v' => x_unptr v' | _ => v end.

Fixpoint x_get_vis (p : path) (v : xv) : option xv :=
  match p with
  | [] => Some v
  | k :: r =>
      match x_unptr v with
      | XStruct fs => opt_bind (xs_lookup k fs) (fun ox => if x_skipped k (fst ox) (snd ox) then None else x_get_vis r (snd ox))
      | XMap _ kvs => opt_bind (xm_lookup k kvs) (x_get_vis r)
      | _ => None
      end
  end.

(* names unique at every struct level, key texts unique in every map *)
Inductive x_wf : xv -> Prop :=
| XW_nil : x_wf XNil
| XW_ptr v : x_wf v -> x_wf (XPtr v)
| XW_leaf z s : x_wf (XLeaf z s)
| XW_opq z s : x_wf (XOpaque z s)
| XW_list n l : Forall x_wf l -> x_wf (XList n l)
| XW_arr l : x_wf (XArray l)
| XW_map n kvs : NoDup (map (fun e => key_str (fst e)) kvs) -> Forall (fun e => x_wf (snd e)) kvs -> x_wf (XMap n kvs)
| XW_struct fs : NoDup (map (fun e => fst (fst e)) fs) -> Forall (fun e => x_wf (snd e)) fs -> x_wf (XStruct fs).
