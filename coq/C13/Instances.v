(* C13/Instances.v — the generic strictness theorem instantiated on the descriptors that translator
   T3 dumps from the current tree (Generated/C13CfgSchema.v), and the side conditions checked on
   them by computation.  These obligations are re-checked on every run against what the compiler
   says about the configuration types now. *)
From Verif Require Import Common.Base C13.Model C13.Spec C13.Proofs3 Generated.C13CfgSchema.
From Coq Require Import String.
Open Scope string_scope.

(* the custom Unmarshal methods whose rule was read and found to decode strictly first
   (conf.Unmarshal(cfg) without WithIgnoreUnused); a new custom unmarshaler below a built-in
   component breaks [custom_nodes_listed] until it has been read and added here *)
Definition known_custom : list string :=
  ["migration.LogsConfigV030"; "migration.MetricsConfigV030"; "migration.TracesConfigV030";
   "otlpexporter.Config"; "otlpreceiver.Config"; "queuebatch.Config"; "telemetry.Config"].

(* the built-in components the property speaks about *)
Definition expected_entries : list string :=
  ["connectors/forward"; "exporters/debug"; "exporters/nop"; "exporters/otlp"; "exporters/otlphttp";
   "extensions/memory_limiter"; "extensions/zpages"; "processors/batch"; "processors/memory_limiter";
   "receivers/nop"; "receivers/otlp"; "service"; "top"].

Lemma custom_nodes_listed_l : forallb (fun c => str_mem c known_custom) custom_types = true.
Proof. vm_compute. reflexivity. Qed.

Lemma schema_entries_l : list_eqb String.eqb (map fst schema) expected_entries = true.
Proof. vm_compute. reflexivity. Qed.

Lemma schema_squash_disjoint_l : forallb (fun e => squash_keys_disjoint (snd e)) schema = true.
Proof. vm_compute. reflexivity. Qed.

(* no built-in configuration struct has a `,remain` catch-all at any level *)
Fixpoint no_remain (t : tdesc) : bool :=
  match t with
  | TLeaf => true
  | TPtr t' | TSlice t' | TMap t' => no_remain t'
  | TStruct rem fs =>
      negb rem && (fix go (fs : list (string * bool * tdesc)) : bool :=
                     match fs with [] => true | (_, _, t') :: r => no_remain t' && go r end) fs
  end.

Lemma schema_no_remain_l : forallb (fun e => no_remain (snd e)) schema = true.
Proof. vm_compute. reflexivity. Qed.

Lemma decode_strict_builtin_l name T v p k :
  In (name, T) schema -> unk T v p k -> decode_strict_ok T v = false /\ In (p, k) (unused T v).
Proof. intros _. apply decode_strict_l. Qed.

(* concrete instance, by computation on the dumped otlp receiver descriptor: an unknown key four
   levels down is reported with its path *)
Lemma otlp_receiver_deep_key_l :
  option_map (fun T => unused T (CMap [("protocols", CMap [("grpc", CMap [("tls", CMap [("ca_file", CScalar "x"); ("zzz", CScalar "1")])])])]))
             (lookup "receivers/otlp" schema)
  = Some [(["protocols"; "grpc"; "tls"], "zzz")].
Proof. vm_compute. reflexivity. Qed.

(* no built-in configuration type has an array-kind field outside the opaque telemetry subtree: the
   one encoder shape whose elements bypass the encode hooks does not occur *)
Lemma schema_no_arrays_l : array_types = [].
Proof. vm_compute. reflexivity. Qed.

(* the struct levels whose `,remain` field is not a map (otelconf's AdditionalProperties below
   service::telemetry): guarded by confmap since fix 2d582bf11, they reject unknown keys like any level
   without remain.  The levels are dumped by T3; there must be some (else the regression stream is empty) *)
Lemma remain_levels_strict_l name T v p k :
  In (name, T) remain_levels -> unk T v p k -> decode_strict_ok T v = false /\ In (p, k) (unused T v).
Proof. intros _. apply decode_strict_l. Qed.

Lemma remain_levels_guarded_l :
  forallb (fun e => no_remain (snd e)) remain_levels = true /\ (5 <=? List.length remain_levels)%nat = true.
Proof. vm_compute. split; reflexivity. Qed.

