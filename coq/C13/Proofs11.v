(* C13/Proofs11.v — reloads: the effective configuration after every (re)load is the encoding of the
   configuration loaded last, whatever was loaded before; a key removed from the configuration is
   gone from the effective configuration. *)
From Verif Require Import Common.Base C13.Model C13.Spec C13.Proofs4.
From Coq Require Import String.

Lemma cv_merge_empty c : cv_merge (CMap []) c = c.
Proof.
  destruct c as [| s | l | kn]; try reflexivity. cbn [cv_merge filter app]. f_equal.
  induction kn as [|[k x] r IH]; [reflexivity|]. cbn [lookup]. f_equal. exact IH.
Qed.

Lemma run_loads_id_l encs : run_loads encs = encs.
Proof. unfold run_loads, load_effective. induction encs as [|e r IH]; cbn; [reflexivity|]. now rewrite cv_merge_empty, IH. Qed.

(* whatever the history, the n-th effective configuration is the n-th encoding *)
Lemma reload_current_l before enc after :
  nth_error (run_loads (before ++ enc :: after)) (List.length before) = Some enc.
Proof. rewrite run_loads_id_l. induction before; cbn; auto. Qed.

(* a key that is not in the configuration loaded now is not in the effective configuration, even
   if an earlier configuration had it *)
Lemma removed_key_absent_l before enc after p :
  cv_get p (Some enc) = None ->
  forall eff, nth_error (run_loads (before ++ enc :: after)) (List.length before) = Some eff -> cv_get p (Some eff) = None.
Proof. intros H eff He. rewrite reload_current_l in He. inversion He; subst. exact H. Qed.

(* the merge itself keeps old keys: merging into a Conf that is NOT fresh would keep removed keys *)
Lemma merge_keeps_old_keys_l : exists old new p, cv_get p (Some new) = None /\ cv_get p (Some (cv_merge old new)) <> None.
Proof.
  exists (CMap [("exporters"%string, CMap [("nop/extra"%string, CNull)])]), (CMap [("exporters"%string, CMap [("nop"%string, CNull)])]),
         ["exporters"%string; "nop/extra"%string].
  split; vm_compute; [reflexivity|discriminate].
Qed.

(* no effective configuration of a configuration that does not validate is ever handed on, and
   nothing after a refused reload *)
Lemma run_loads_v_valid_l h : forall e, In e (run_loads_v h) -> In (true, e) h.
Proof.
  induction h as [|[[|] x] r IH]; intros e Hin; cbn in Hin; [destruct Hin| |destruct Hin].
  unfold load_effective in Hin. rewrite cv_merge_empty in Hin. destruct Hin as [<-|Hin]; [now left|right; auto].
Qed.

Lemma run_loads_v_prefix_l a x b : run_loads_v (a ++ (false, x) :: b) = run_loads_v a.
Proof.
  induction a as [|[[|] y] r IH]; cbn; [reflexivity| |reflexivity]. now rewrite IH.
Qed.

Lemma unknown_type_named_l known ids id :
  In id ids -> ~ In (type_of_id id) known -> In id (unknown_type_ids known ids).
Proof.
  intros Hin Hn. unfold unknown_type_ids. apply filter_In. split; [assumption|].
  apply negb_true_iff. destruct (str_mem (type_of_id id) known) eqn:E; [|reflexivity].
  exfalso. apply Hn. unfold str_mem in E. apply existsb_exists in E. destruct E as (x&Hx&He).
  apply String.eqb_eq in He. now subst.
Qed.

Lemma known_types_accepted_l known ids :
  unknown_type_ids known ids = [] <-> forall id, In id ids -> In (type_of_id id) known.
Proof.
  unfold unknown_type_ids. split.
  - intros H id Hin. destruct (str_mem (type_of_id id) known) eqn:E.
    + unfold str_mem in E. apply existsb_exists in E. destruct E as (x&Hx&He). apply String.eqb_eq in He. now subst.
    + assert (Hf : In id (filter (fun id => negb (str_mem (type_of_id id) known)) ids)) by (apply filter_In; split; [assumption|now rewrite E]).
      rewrite H in Hf. destruct Hf.
  - intros H. destruct (filter _ ids) as [|x r] eqn:E; [reflexivity|].
    assert (Hf : In x (filter (fun id => negb (str_mem (type_of_id id) known)) ids)) by (rewrite E; now left).
    apply filter_In in Hf. destruct Hf as [Hin Hb]. apply negb_true_iff in Hb.
    specialize (H x Hin). exfalso. unfold str_mem in Hb.
    assert (existsb (String.eqb (type_of_id x)) known = true) by (apply existsb_exists; exists (type_of_id x); split; [assumption|apply String.eqb_refl]).
    congruence.
Qed.
