(* C13/Proofs5.v — the effective configuration reflects the plain settings and never contains a
   secret: every scalar of the encoded configuration is the redaction marker or a non-secret value. *)
From Verif Require Import Common.Base C13.Model C13.Spec.
From Coq Require Import String.

Fixpoint enc_fields (fs : list (string * ev)) : list (string * cv) :=
  match fs with [] => [] | (k, x) :: r => (k, encode x) :: enc_fields r end.

Lemma encode_rec fs : encode (ERec fs) = CMap (enc_fields fs).
Proof. reflexivity. Qed.

Fixpoint scal_kvs (kvs : list (string * cv)) : list string :=
  match kvs with [] => [] | (_, x) :: r => cv_scalars x ++ scal_kvs r end.
Fixpoint scal_list (l : list cv) : list string :=
  match l with [] => [] | x :: r => cv_scalars x ++ scal_list r end.
Fixpoint plains_fields (fs : list (string * ev)) : list string :=
  match fs with [] => [] | (_, x) :: r => ev_plains x ++ plains_fields r end.

Lemma cv_scalars_map kvs : cv_scalars (CMap kvs) = scal_kvs kvs.
Proof. reflexivity. Qed.
Lemma cv_scalars_list l : cv_scalars (CList l) = scal_list l.
Proof. reflexivity. Qed.
Lemma ev_plains_rec fs : ev_plains (ERec fs) = plains_fields fs.
Proof. reflexivity. Qed.

Section EvInd.
  Context (P : ev -> Prop).
  Hypothesis H1 : forall s, P (EPlain s).
  Hypothesis H2 : forall s, P (EOpaque s).
  Hypothesis H3 : forall o kvs, P (EStrMap o kvs).
  Hypothesis H4 : forall o l, P (EStrList o l).
  Hypothesis H5 : forall fs, Forall (fun e => P (snd e)) fs -> P (ERec fs).
  Fixpoint ev_ind' (v : ev) : P v :=
    match v with
    | EPlain s => H1 s | EOpaque s => H2 s | EStrMap o kvs => H3 o kvs | EStrList o l => H4 o l
    | ERec fs => H5 fs ((fix go (l : list (string * ev)) : Forall (fun e => P (snd e)) l :=
                           match l with [] => Forall_nil _ | x :: r => Forall_cons x (ev_ind' (snd x)) (go r) end) fs)
    end.
End EvInd.

(* no secret in the effective configuration: whatever the shape a secret sits in (scalar, map value,
   list element, at any depth), every scalar of the encoding is the marker or a non-secret value *)
Lemma encode_no_secret_l v : forall s, In s (cv_scalars (encode v)) -> s = redacted \/ In s (ev_plains v).
Proof.
  induction v as [s0|s0|o kvs|o l|fs IH] using ev_ind'; intros s Hin.
  - cbn in Hin. destruct Hin as [<-|[]]. right. now left.
  - cbn in Hin. destruct Hin as [<-|[]]. now left.
  - cbn [encode] in Hin. rewrite cv_scalars_map in Hin. cbn [ev_plains].
    induction kvs as [|[k x] r IHk]; cbn in Hin; [destruct Hin|].
    destruct Hin as [<-|Hin].
    + destruct o; cbn; [now left|right; now left].
    + destruct (IHk Hin) as [->|Hr]; [now left|]. right. destruct o; [exact Hr|now right].
  - cbn [encode] in Hin. rewrite cv_scalars_list in Hin. cbn [ev_plains].
    induction l as [|x r IHl]; cbn in Hin; [destruct Hin|].
    destruct Hin as [<-|Hin].
    + destruct o; cbn; [now left|right; now left].
    + destruct (IHl Hin) as [->|Hr]; [now left|]. right. destruct o; [exact Hr|now right].
  - rewrite encode_rec, cv_scalars_map in Hin. rewrite ev_plains_rec.
    induction fs as [|[k x] r IHf]; cbn in Hin; [destruct Hin|].
    inversion IH as [|? ? Hx Hr]; subst. apply in_app_iff in Hin. destruct Hin as [Hin|Hin].
    + destruct (Hx s Hin) as [->|Hp]; [now left|]. right. cbn. apply in_app_iff. now left.
    + destruct (IHf Hr Hin) as [->|Hp]; [now left|]. right. cbn. apply in_app_iff. now right.
Qed.

Lemma lookup_enc_fields k fs : lookup k (enc_fields fs) = option_map encode (lookup k fs).
Proof.
  induction fs as [|[k' x] r IH]; cbn; [reflexivity|].
  destruct (String.eqb k k'); [reflexivity|exact IH].
Qed.

(* every setting is reflected at its key path: the encoding commutes with path lookup *)
Lemma encode_get_l v : forall p x, ev_get p v = Some x -> cv_get p (Some (encode v)) = Some (encode x).
Proof.
  induction v as [s0|s0|o kvs|o l|fs IH] using ev_ind'; intros p x Hg;
    try (destruct p as [|k r]; cbn in Hg; [inversion Hg; subst; reflexivity|discriminate]).
  destruct p as [|k r]; cbn in Hg; [inversion Hg; subst; reflexivity|].
  rewrite encode_rec. cbn [cv_get cv_lookup]. rewrite lookup_enc_fields.
  destruct (lookup k fs) as [y|] eqn:El; cbn in Hg |- *; [|discriminate].
  rewrite Forall_forall in IH.
  assert (Hin : In (k, y) fs).
  { clear -El. induction fs as [|[k' a'] l IHl]; cbn in El; [discriminate|].
    destruct (String.eqb_spec k k') as [->|Hne]; [inversion El; now left|right; auto]. }
  exact (IH (k, y) Hin r x Hg).
Qed.

Lemma encode_reflects_plain_l v p s : ev_get p v = Some (EPlain s) -> cv_get p (Some (encode v)) = Some (CScalar s).
Proof. intros H. now rewrite (encode_get_l v p _ H). Qed.

Lemma encode_redacts_opaque_l v p s : ev_get p v = Some (EOpaque s) -> cv_get p (Some (encode v)) = Some (CScalar redacted).
Proof. intros H. now rewrite (encode_get_l v p _ H). Qed.

Lemma encode_redacts_map_l v p kvs k s :
  ev_get p v = Some (EStrMap true kvs) -> lookup k kvs = Some s ->
  cv_get (p ++ [k]) (Some (encode v)) = Some (CScalar redacted).
Proof.
  intros H Hl. assert (Hc : forall q m, cv_get (q ++ [k]) m = cv_lookup k (cv_get q m)).
  { induction q as [|a q IHq]; intros m; [reflexivity|]. cbn. apply IHq. }
  rewrite Hc, (encode_get_l v p _ H). cbn [encode cv_lookup].
  clear -Hl. induction kvs as [|[k' s'] r IH]; cbn in *; [discriminate|].
  destruct (String.eqb k k'); [reflexivity|auto].
Qed.
