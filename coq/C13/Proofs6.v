(* C13/Proofs6.v — kinds: a value of another family of kinds is always rejected; an accepted value
   is the written value, except for the float-into-integer truncation (refuted with a witness). *)
From Verif Require Import Common.Base C13.Model C13.Spec.
From Coq Require Import String.

Lemma mismatch_rejected_l k w : family_mismatch k w = true -> decode_leaf k w = DErr.
Proof. destruct k, w; cbn; try discriminate; try reflexivity. Qed.

Lemma accepted_same_family_l k w r :
  decode_leaf k w = r -> r <> DErr -> family_mismatch k w = false.
Proof.
  intros H Hr. destruct (family_mismatch k w) eqn:E; [|reflexivity].
  rewrite (mismatch_rejected_l k w E) in H. congruence.
Qed.

(* an accepted value is the written value — for every kind and every written value (since fix
   91bc960c3 a float with a fraction is rejected for integer kinds instead of being truncated) *)
Lemma no_silent_coercion_l k w r :
  decode_leaf k w = r -> r <> DErr -> r <> DKeep -> same_value w r.
Proof.
  intros H Hr Hk. subst r.
  destruct k, w; cbn in *; try congruence; try (exfalso; apply Hr; reflexivity); try auto;
    try (destruct frac; cbn in *; try (exfalso; apply Hr; reflexivity));
    try (destruct (z <? 0)%Z; cbn in *; [exfalso; apply Hr; reflexivity|auto]);
    try (destruct (whole <? 0)%Z; cbn in *; [exfalso; apply Hr; reflexivity|auto]); auto.
Qed.

Lemma fraction_rejected_l z : decode_leaf KInt (WFloat z true) = DErr /\ decode_leaf KUint (WFloat z true) = DErr /\
                              decode_leaf KDuration (WFloat z true) = DErr.
Proof. repeat split. Qed.

Lemma null_keeps_l k : decode_leaf k WNull = DKeep.
Proof. destruct k; reflexivity. Qed.
