(* C13/Proofs6.v — kinds: a value of another family of kinds is always rejected; an accepted value
   is the written value, except for the float-into-integer truncation (refuted with a witness). *)
From Verif Require Import Common.Base C13.Model C13.Spec.
From Coq Require Import String.

Lemma mismatch_rejected_l k w : family_mismatch k w = true -> decode_leaf k w = DErr.
Proof. destruct k, w; cbn; try discriminate; try reflexivity. Qed.

Lemma accepted_same_family_l k w r :
  decode_leaf k w = r -> r <> DErr -> family_mismatch k w = false.
Proof.
  intros H Hr. destruct (family_mismatch k w) eqn:E; [|reflexivity].
  rewrite (mismatch_rejected_l k w E) in H. congruence.
Qed.

(* the only silent change of value: a float with a fraction written for an integer-kind field *)
Definition truncating (k : lkind) (w : wv) : bool :=
  match k, w with
  | (KInt | KUint | KDuration), WFloat _ true => true
  | _, _ => false
  end.

Lemma no_silent_coercion_partial_l k w r :
  truncating k w = false -> decode_leaf k w = r -> r <> DErr -> r <> DKeep -> same_value w r.
Proof.
  intros Ht H Hr Hk. subst r.
  destruct k, w; cbn in *; try congruence; try (exfalso; apply Hr; reflexivity); try auto;
    try (destruct frac; try discriminate);
    try (destruct (z <? 0)%Z; cbn in *; [exfalso; apply Hr; reflexivity|auto]);
    try (destruct (whole <? 0)%Z; cbn in *; [exfalso; apply Hr; reflexivity|auto]); auto.
Qed.

Lemma no_silent_coercion_refuted_l :
  exists k w r, decode_leaf k w = r /\ r <> DErr /\ r <> DKeep /\ ~ same_value w r.
Proof.
  exists KInt, (WFloat 1 true), (DNum 1 false). cbn. repeat split; try discriminate.
  intros [_ H]. discriminate.
Qed.

Lemma null_keeps_l k : decode_leaf k WNull = DKeep.
Proof. destruct k; reflexivity. Qed.
