(* C13/Proofs7.v — round trip: decoding the effective configuration of a typed configuration into
   the factory defaults gives the typed configuration back (no omitempty-zero ambiguity assumed;
   refuted without that assumption). *)
From Verif Require Import Common.Base C13.Model C13.Spec C13.Proofs4.
From Coq Require Import String.

Fixpoint strip_fields (fs : list (string * otv)) : list (string * tv) :=
  match fs with
  | [] => []
  | (k, x) :: r => match x with ONil _ => strip_fields r | _ => (k, o_strip x) :: strip_fields r end
  end.
Fixpoint enc_o_fields (fs : list (string * otv)) : list (string * cv) :=
  match fs with [] => [] | (k, x) :: r => if o_omitted x then enc_o_fields r else (k, encode_o x) :: enc_o_fields r end.

Lemma o_strip_rec o fs : o_strip (ORec o fs) = VRec (strip_fields fs).
Proof. reflexivity. Qed.
Lemma encode_o_rec o fs : encode_o (ORec o fs) = CMap (enc_o_fields fs).
Proof. reflexivity. Qed.

Lemma overlay_none d : overlay d None = d.
Proof.
  induction d as [s|fs IH] using tv_ind'; [reflexivity|]. rewrite overlay_rec. f_equal.
  induction fs as [|[k x] r IHr]; [reflexivity|]. cbn [ov_fields cv_lookup].
  inversion IH as [|? ? Hx Hr]; subst. cbn in Hx. rewrite Hx, (IHr Hr). reflexivity.
Qed.

Lemma lookup_enc_o_notin k fs : ~ In k (map fst fs) -> lookup k (enc_o_fields fs) = None.
Proof.
  induction fs as [|[k' x] r IH]; intros Hn; [reflexivity|]. cbn in *.
  assert (k <> k') by (intros ->; apply Hn; now left).
  assert (Hr : lookup k (enc_o_fields r) = None) by (apply IH; intros Hi; apply Hn; now right).
  destruct (o_omitted x); [exact Hr|]. cbn. destruct (String.eqb_spec k k'); [contradiction|exact Hr].
Qed.

Lemma lookup_enc_o k x fs : NoDup (map fst fs) -> In (k, x) fs ->
  lookup k (enc_o_fields fs) = if o_omitted x then None else Some (encode_o x).
Proof.
  induction fs as [|[k' y] r IH]; intros Hnd Hin; [destruct Hin|]. cbn in Hnd. inversion Hnd as [|? ? Hni Hnd']; subst.
  destruct Hin as [Heq|Hin].
  - inversion Heq; subst. cbn [enc_o_fields]. destruct (o_omitted x).
    + now apply lookup_enc_o_notin.
    + cbn. now rewrite String.eqb_refl.
  - assert (k <> k') by (intros ->; apply Hni; apply (in_map fst) in Hin; exact Hin).
    cbn [enc_o_fields]. destruct (o_omitted y); [now apply IH|].
    cbn. destruct (String.eqb_spec k k'); [contradiction|now apply IH].
Qed.

Section OtvInd.
  Context (P : otv -> Prop).
  Hypothesis HSc : forall o z s, P (OSc o z s).
  Hypothesis HRec : forall o fs, Forall (fun e => P (snd e)) fs -> P (ORec o fs).
  Hypothesis HNil : forall o, P (ONil o).
  Fixpoint otv_ind' (v : otv) : P v :=
    match v with
    | OSc o z s => HSc o z s
    | ONil o => HNil o
    | ORec o fs => HRec o fs ((fix go (l : list (string * otv)) : Forall (fun e => P (snd e)) l :=
                                 match l with [] => Forall_nil _ | x :: r => Forall_cons x (otv_ind' (snd x)) (go r) end) fs)
    end.
End OtvInd.

Lemma encode_decode_l d : forall v, compat d v -> overlay (o_strip d) (Some (encode_o v)) = o_strip v.
Proof.
  induction d as [o z s|o fd IH|o] using otv_ind'; intros v Hc; inversion Hc as [| ? ? o' fv Hnd HF]; subst.
  - reflexivity.
  - rewrite !o_strip_rec, encode_o_rec, overlay_rec. f_equal.
    set (m := Some (CMap (enc_o_fields fv))).
    assert (Hgen : forall fd' fv',
               Forall (fun e => forall v, compat (snd e) v -> overlay (o_strip (snd e)) (Some (encode_o v)) = o_strip v) fd' ->
               Forall2 (fun d v => fst d = fst v /\ compat (snd d) (snd v) /\
                                   (o_omitted (snd v) = true -> o_strip (snd d) = o_strip (snd v))) fd' fv' ->
               incl fv' fv -> ov_fields (strip_fields fd') m = strip_fields fv').
    { intros fd' fv' HI HF'. induction HF' as [|[k dx] [k' vx] fd'' fv'' (Hk&Hcx&Hom) HF'' IHF]; intros Hincl; [reflexivity|].
      cbn in Hk. destruct Hk.
      inversion HI as [|? ? Hx HI']; subst. cbn in Hx, Hcx, Hom.
      assert (Hd : strip_fields ((k, dx) :: fd'') = (k, o_strip dx) :: strip_fields fd'')
        by (destruct dx; [reflexivity|reflexivity|inversion Hcx]).
      assert (Hv : strip_fields ((k, vx) :: fv'') = (k, o_strip vx) :: strip_fields fv'')
        by (destruct vx; [reflexivity|reflexivity|inversion Hcx]).
      rewrite Hd, Hv. cbn [ov_fields].
      rewrite IHF; [|exact HI'|intros a Ha; apply Hincl; now right].
      f_equal. f_equal. unfold m. cbn [cv_lookup].
      rewrite (lookup_enc_o k vx fv Hnd (Hincl _ (or_introl eq_refl))).
      destruct (o_omitted vx) eqn:Eo.
      - rewrite overlay_none. now apply Hom.
      - now apply Hx. }
    apply Hgen; [exact IH|exact HF|apply incl_refl].
Qed.

(* without the assumption the round trip fails: an omitempty bool whose default is true, set to
   false, is left out of the effective configuration and comes back as true *)
Lemma encode_decode_refuted_l : exists d v,
  (forall p, tv_get p (o_strip d) = None <-> tv_get p (o_strip v) = None) /\
  overlay (o_strip d) (Some (encode_o v)) <> o_strip v.
Proof.
  exists (ORec false [("enabled"%string, OSc true false "true"%string)]),
         (ORec false [("enabled"%string, OSc true true "false"%string)]).
  split; [|vm_compute; discriminate].
  intros p. destruct p as [|k [|k2 r]]; cbn.
  - split; discriminate.
  - destruct (String.eqb k "enabled"); cbn; split; congruence.
  - destruct (String.eqb k "enabled"); cbn; split; congruence.
Qed.

(* a section that is nil in the typed configuration (and not omitempty) is written `key: null`;
   decoding null keeps the default, so the section comes back with its defaults *)
Lemma encode_decode_nil_refuted_l : exists d v,
  encode_o v = CMap [("grpc"%string, CNull)] /\
  tv_get ["grpc"%string] (o_strip v) = None /\
  tv_get ["grpc"%string] (overlay (o_strip d) (Some (encode_o v))) <> None.
Proof.
  exists (ORec false [("grpc"%string, ORec false [("endpoint"%string, OSc false false "localhost:4317"%string)])]),
         (ORec false [("grpc"%string, ONil false)]).
  repeat split; vm_compute; discriminate.
Qed.
