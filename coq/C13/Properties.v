(* C13/Properties.v — the property's clauses as theorems (statements only; proofs are in Proofs*.v). *)
From Verif Require Import Common.Base C13.Model C13.Spec C13.Proofs1 C13.Proofs2 C13.Proofs3 C13.Proofs4 C13.Proofs5 C13.Proofs6 C13.Proofs7 C13.Proofs8 C13.Proofs9 C13.Proofs10 C13.Proofs11 C13.ProofsC C13.ProofsL C13.Checkers C13.Harness C13.Instances C13.Translated C13.ValidateRules.
From Verif Require Import Generated.C13ValidateGrid.
From Verif Require Import Generated.C13Telemetry Generated.C13Levels.
From Verif Require Import Generated.C13CfgSchema.
From Coq Require Import String.

(* ---- "Every validation rule of every nested configuration value is evaluated, so an invalid
        nested setting is reported even when its parents are valid" ------------------------- *)

(* for EVERY value tree: a failing validator at a node reachable through exported fields,
   pointers, interfaces, slice/array elements, map keys and map values is reported, prefixed by
   exactly the path of that node — whatever the verdicts of its ancestors *)
Theorem walk_complete : forall (E : Type) (t : vtree E) (p : path) (e : E),
  reach t p (Some e) -> In (p, e) (walk t).
Proof. exact @walk_complete_l. Qed.
Print Assumptions walk_complete.

(* conversely every reported error is the verdict of such a node, at exactly that path *)
Theorem walk_sound : forall (E : Type) (t : vtree E) (p : path) (e : E),
  In (p, e) (walk t) -> reach t p (Some e).
Proof. exact @walk_sound_l. Qed.
Print Assumptions walk_sound.

(* xconfmap.Validate returns nil iff no reachable validator fails *)
Theorem validate_nil_iff_clean : forall (E : Type) (t : vtree E), validate_ok t = true <-> clean t.
Proof. exact @validate_ok_iff_clean. Qed.
Print Assumptions validate_nil_iff_clean.

(* ---- references, ambiguity, pipeline shape ------------------------------------------------ *)

(* otelcol.Config.Validate has no error to return iff the file is non-empty, has receivers and
   exporters (unless the AllowNoPipelines gate is on), no identifier is shared by a connector and
   a receiver or exporter, and every service / pipeline reference resolves *)
Theorem cfg_validate_exact : forall g c, cfg_candidates g c = [] <-> wf_nonempty g c /\ wf_refs c.
Proof. exact cfg_candidates_nil_iff. Qed.
Print Assumptions cfg_validate_exact.

(* whichever error it returns (two of its loops range over Go maps) names an entry that really
   is offending *)
Theorem cfg_validate_names_offender : forall g c e, In e (cfg_candidates g c) -> offending g c e.
Proof. exact cfg_candidates_offending. Qed.
Print Assumptions cfg_validate_names_offender.

Theorem pipelines_validate_exact : forall g c, pipes_candidates g c = [] <-> wf_pipes g c.
Proof. exact pipes_candidates_nil_iff. Qed.
Print Assumptions pipelines_validate_exact.

Theorem pipelines_validate_names_offender : forall g c e, In e (pipes_candidates g c) -> offending g c e.
Proof. exact pipes_candidates_offending. Qed.
Print Assumptions pipelines_validate_names_offender.

(* PipelineConfig.Validate: no error iff >= 1 receiver, >= 1 exporter, no processor twice *)
Theorem pipeline_shape_exact : forall p, pipe_shape_err p = None <-> wf_shape p.
Proof. exact pipe_shape_none_iff. Qed.
Print Assumptions pipeline_shape_exact.

Theorem pipeline_shape_names_offender : forall p e,
  pipe_shape_err p = Some e ->
  match e with
  | EPipeNoRecv => pp_recv p = []
  | EPipeNoExp => pp_exp p = []
  | EDupProc r => duplicated r (pp_proc p)
  | _ => False
  end.
Proof. exact pipe_shape_names. Qed.
Print Assumptions pipeline_shape_names_offender.

Theorem duplicate_processor_rejected : forall p r, duplicated r (pp_proc p) -> pipe_shape_err p <> None.
Proof. exact dup_proc_rejected. Qed.
Print Assumptions duplicate_processor_rejected.

Theorem ambiguous_id_rejected : forall g c cid,
  defined cid (c_conn c) -> (defined cid (c_exp c) \/ defined cid (c_recv c)) -> cfg_candidates g c <> [].
Proof. exact ambiguous_rejected. Qed.
Print Assumptions ambiguous_id_rejected.

Theorem dangling_reference_rejected : forall g c p r,
  In p (c_pipes c) ->
  (In r (pp_recv p) /\ ~ defined r (c_recv c) /\ ~ defined r (c_conn c)) \/
  (In r (pp_proc p) /\ ~ defined_nonnil r (c_proc c)) \/
  (In r (pp_exp p) /\ ~ defined r (c_exp c) /\ ~ defined r (c_conn c)) ->
  cfg_candidates g c <> [].
Proof. exact dangling_rejected. Qed.
Print Assumptions dangling_reference_rejected.

Theorem dangling_extension_rejected : forall g c r,
  In r (c_svc_ext c) -> ~ defined_nonnil r (c_ext c) -> cfg_candidates g c <> [].
Proof. exact dangling_ext_rejected. Qed.
Print Assumptions dangling_extension_rejected.

(* the whole of xconfmap.Validate on the loaded otelcol.Config, for every possible iteration
   order of the Go maps: no error iff the configuration is well-formed in every respect
   (references, ambiguity, pipeline shapes, signals, telemetry, every component's validators) *)
Theorem load_validation_exact : forall g c errs, outcome g c errs -> (errs = [] <-> wf g c).
Proof. exact outcome_nil_iff_wf. Qed.
Print Assumptions load_validation_exact.

(* ---- "A key that no field accepts at any depth of any built-in component or of the service
        section ... is rejected with an error naming the offending entry" ------------------- *)

(* for EVERY type descriptor and EVERY configuration value: a written key that no field of its
   struct level accepts (after squash flattening; the level having no `,remain` field), at any
   depth through fields, pointers, slice elements and map entries, makes the decode fail and is
   reported with exactly the path of its level *)
Theorem decode_strict : forall t v p k,
  unk t v p k -> decode_strict_ok t v = false /\ In (p, k) (unused t v).
Proof. exact decode_strict_l. Qed.
Print Assumptions decode_strict.

(* conversely nothing else is reported: every reported (path, key) is such an unknown key *)
Theorem decode_strict_sound : forall t v p k, In (p, k) (unused t v) -> unk t v p k.
Proof. intros t v. exact (unused_sound_l v t). Qed.
Print Assumptions decode_strict_sound.

Theorem decode_accepts_iff_no_unknown : forall t v,
  decode_strict_ok t v = true <-> forall p k, ~ unk t v p k.
Proof. exact decode_strict_ok_iff. Qed.
Print Assumptions decode_accepts_iff_no_unknown.

(* instances on the descriptors dumped from the current tree (translator T3) *)
Theorem decode_strict_builtin : forall name T v p k,
  In (name, T) schema -> unk T v p k -> decode_strict_ok T v = false /\ In (p, k) (unused T v).
Proof. exact decode_strict_builtin_l. Qed.
Print Assumptions decode_strict_builtin.

Theorem schema_entries : list_eqb String.eqb (map fst schema) expected_entries = true.
Proof. exact schema_entries_l. Qed.
Print Assumptions schema_entries.

Theorem custom_nodes_listed : forallb (fun c => str_mem c known_custom) custom_types = true.
Proof. exact custom_nodes_listed_l. Qed.
Print Assumptions custom_nodes_listed.

Theorem schema_squash_disjoint : forallb (fun e => squash_keys_disjoint (snd e)) schema = true.
Proof. exact schema_squash_disjoint_l. Qed.
Print Assumptions schema_squash_disjoint.

Theorem schema_no_remain : forallb (fun e => no_remain (snd e)) schema = true.
Proof. exact schema_no_remain_l. Qed.
Print Assumptions schema_no_remain.

(* ---- "Loading a configuration gives every component its factory defaults overlaid by exactly
        the keys the user wrote ... writing one setting never changes the value of a sibling" -- *)

(* for EVERY default configuration tree and EVERY written configuration: a scalar written at a
   leaf path of the defaults is the value of that leaf after the load *)
Theorem decode_faithful_written : forall d m p s0 s,
  leaf_at d p s0 -> written m p s -> leaf_at (overlay d m) p s.
Proof. exact decode_written_l. Qed.
Print Assumptions decode_faithful_written.

(* a leaf at which nothing (or null) was written keeps its factory default *)
Theorem decode_faithful_unwritten : forall d m p s0,
  leaf_at d p s0 -> unwritten m p -> leaf_at (overlay d m) p s0.
Proof. exact decode_unwritten_l. Qed.
Print Assumptions decode_faithful_unwritten.

(* the load neither adds nor removes settings *)
Theorem decode_faithful_same_leaves : forall d m p s, leaf_at (overlay d m) p s -> exists s0, leaf_at d p s0.
Proof. exact overlay_leaf_paths. Qed.
Print Assumptions decode_faithful_same_leaves.

(* agreement form for the generic overlay: two configurations that have the same thing (a scalar,
   null or nothing) at q give q the same value, whatever else they write *)
Theorem decode_overlay_agrees_at : forall d m m' q s0,
  leaf_at d q s0 -> cv_get q m = cv_get q m' -> tv_get q (overlay d m) = tv_get q (overlay d m').
Proof. exact decode_sibling_l. Qed.
Print Assumptions decode_overlay_agrees_at.

(* FULL sibling independence, for the complete decode of every component — the generic overlay AND
   the component-specific Unmarshal rules (unwritten OTLP-receiver protocol becomes nil; deprecated
   sending_queue::blocking alias, as repaired by a5b2af88a): a setting the user wrote has exactly
   the written value after the load, whatever siblings were written as well *)
Theorem decode_sibling_independent : forall name d m p s0 s,
  leaf_at d p s0 -> written (Some m) p s -> leaf_at (decode_model name d m) p s.
Proof. exact decode_model_written_l. Qed.
Print Assumptions decode_sibling_independent.

Theorem decode_sibling_independent_agree : forall name d m m' q s0 s,
  leaf_at d q s0 -> written (Some m) q s -> written (Some m') q s ->
  tv_get q (decode_model name d m) = tv_get q (decode_model name d m').
Proof. exact decode_model_sibling_l. Qed.
Print Assumptions decode_sibling_independent_agree.

(* ---- "each written key is reflected ... in the effective configuration handed to extensions
        (secrets redacted)" ------------------------------------------------------------------ *)

(* for EVERY typed configuration: the effective configuration commutes with key-path lookup, so
   every plain setting appears at its path with its value ... *)
Theorem effective_config_reflects : forall v p s,
  ev_get p v = Some (EPlain s) -> cv_get p (Some (encode v)) = Some (CScalar s).
Proof. exact encode_reflects_plain_l. Qed.
Print Assumptions effective_config_reflects.

(* ... an opaque scalar appears as the marker, and so does every value of an opaque map *)
Theorem effective_config_redacts_scalar : forall v p s,
  ev_get p v = Some (EOpaque s) -> cv_get p (Some (encode v)) = Some (CScalar redacted).
Proof. exact encode_redacts_opaque_l. Qed.
Print Assumptions effective_config_redacts_scalar.

Theorem effective_config_redacts_map_values : forall v p kvs k s,
  ev_get p v = Some (EStrMap true kvs) -> lookup k kvs = Some s ->
  cv_get (p ++ [k])%list (Some (encode v)) = Some (CScalar redacted).
Proof. exact encode_redacts_map_l. Qed.
Print Assumptions effective_config_redacts_map_values.

(* whatever shape a secret sits in (scalar, map value, list element, any depth): every scalar that
   occurs anywhere in the effective configuration is the marker or a non-secret value *)
Theorem effective_config_no_secret : forall v s,
  In s (cv_scalars (encode v)) -> s = redacted \/ In s (ev_plains v).
Proof. exact encode_no_secret_l. Qed.
Print Assumptions effective_config_no_secret.

(* ---- kinds: "mistakes are rejected, not ignored" for values of the wrong kind ---------------- *)

(* for every field kind and every written value of another family of kinds (string for a number,
   number for a bool, map or list for a scalar, scalar for a struct or a string list, ...) the
   decode fails (the error names the key: checked by the harness oracle) *)
Theorem kind_mismatch_rejected : forall k w, family_mismatch k w = true -> decode_leaf k w = DErr.
Proof. exact mismatch_rejected_l. Qed.
Print Assumptions kind_mismatch_rejected.

(* an accepted value is never silently coerced into a different value: for every kind and every
   written value (full since fix 91bc960c3; the float-truncation witness is now rejected:
   fraction_for_integer_rejected) *)
Theorem no_silent_coercion : forall k w r,
  decode_leaf k w = r -> r <> DErr -> r <> DKeep -> same_value w r.
Proof. exact no_silent_coercion_l. Qed.
Print Assumptions no_silent_coercion.

Theorem fraction_for_integer_rejected : forall z,
  decode_leaf KInt (WFloat z true) = DErr /\ decode_leaf KUint (WFloat z true) = DErr /\
  decode_leaf KDuration (WFloat z true) = DErr.
Proof. exact fraction_rejected_l. Qed.
Print Assumptions fraction_for_integer_rejected.

Theorem null_leaves_default : forall k, decode_leaf k WNull = DKeep.
Proof. exact null_keeps_l. Qed.
Print Assumptions null_leaves_default.

(* ---- the effective configuration with omitempty, and the round trip ------------------------- *)

(* full strength, for EVERY typed configuration with unique keys and EVERY key path: the effective
   configuration holds at p exactly the encoding of the setting at p, unless a field on the way is
   left out as omitempty-and-zero — one equation, hence both "every visible key is present with
   its value" and "nothing else appears" *)
Theorem effective_config_exact : forall v, o_wf v -> forall p,
  cv_get p (Some (encode_o v)) = option_map encode_o (o_get_vis p v).
Proof. exact effective_exact_l. Qed.
Print Assumptions effective_config_exact.

Theorem effective_config_nothing_else : forall v p c, o_wf v ->
  cv_get p (Some (encode_o v)) = Some c -> exists x, o_get_vis p v = Some x /\ c = encode_o x.
Proof. exact effective_sound_l. Qed.
Print Assumptions effective_config_nothing_else.

(* "every written key is present" without the visibility condition is FALSE of the code: a zero
   written for an omitempty field is absent (known finding C13-OMITEMPTY-HIDES-ZERO) *)
Theorem effective_config_reflects_refuted : exists v p x,
  o_wf v /\ o_get p v = Some x /\ cv_get p (Some (encode_o v)) = None.
Proof. exact effective_omits_zero_l. Qed.
Print Assumptions effective_config_reflects_refuted.

(* round trip: decoding the effective configuration INTO the factory defaults gives the typed
   configuration back, when the shapes agree and there is no omitempty-zero ambiguity (wherever a
   field is left out, its default already is that value) ... *)
Theorem encode_decode : forall d v, compat d v -> overlay (o_strip d) (Some (encode_o v)) = o_strip v.
Proof. exact encode_decode_l. Qed.
Print Assumptions encode_decode.

(* ... and fails without that assumption (same shape, omitempty bool with default true set to false) *)
Theorem encode_decode_refuted : exists d v,
  (forall p, tv_get p (o_strip d) = None <-> tv_get p (o_strip v) = None) /\
  overlay (o_strip d) (Some (encode_o v)) <> o_strip v.
Proof. exact encode_decode_refuted_l. Qed.
Print Assumptions encode_decode_refuted.

(* ---- instances of a section; handing the effective configuration to the extensions ---------- *)

(* "every component" — also every NAMED instance type/name: the typed configuration of instance i
   is the complete decode of the body written under i, and depends on no sibling entry *)
Theorem section_instance_own_body : forall name d sec i,
  lookup i (decode_section name d sec) = option_map (decode_model name d) (lookup i sec).
Proof. exact section_instance_l. Qed.
Print Assumptions section_instance_own_body.

Theorem section_instances_independent : forall name d sec sec' i,
  lookup i sec = lookup i sec' -> lookup i (decode_section name d sec) = lookup i (decode_section name d sec').
Proof. exact section_independent_l. Qed.
Print Assumptions section_instances_independent.

Theorem section_written_reflected : forall name d sec i m p s0 s,
  lookup i sec = Some m -> leaf_at d p s0 -> written (Some m) p s ->
  exists v, lookup i (decode_section name d sec) = Some v /\ leaf_at v p s.
Proof. exact section_written_l. Qed.
Print Assumptions section_written_reflected.

(* every ConfigWatcher, whatever its position and whatever the watchers before it merged into
   their copies, is handed exactly the effective configuration; the collector's conf is intact *)
Theorem watchers_isolated : forall exts conf,
  Forall (fun r => fst r = conf) (fst (notify conf exts)) /\ snd (notify conf exts) = conf.
Proof. exact notify_isolated_l. Qed.
Print Assumptions watchers_isolated.

(* a nil section whose field is omitempty — the OTLP receiver's protocols since fix 12e040cda — is absent
   from the effective configuration (it used to be written `null`, which means "enabled with defaults") *)
Theorem nil_section_absent : forall o fs k,
  NoDup (map fst fs) -> In (k, ONil true) fs -> cv_get [k] (Some (encode_o (ORec o fs))) = None.
Proof. exact nil_section_absent_l. Qed.
Print Assumptions nil_section_absent.

(* and the effective configuration of a receiver with an unwritten protocol decodes back to the typed
   configuration: the protocol stays nil (the former failing input, now a theorem) *)
Theorem nil_section_round_trip :
  let d := ORec false [("protocols"%string, ORec false [("grpc"%string, ORec false [("endpoint"%string, OSc false false "localhost:4317"%string)]);
                                                  ("http"%string, ORec false [("endpoint"%string, OSc false false "localhost:4318"%string)])])] in
  let v := ORec false [("protocols"%string, ORec false [("grpc"%string, ORec false [("endpoint"%string, OSc false false "a:1"%string)]);
                                                  ("http"%string, ONil true)])] in
  decode_model "receivers/otlp" (o_strip d) (encode_o v) = o_strip v.
Proof. exact nil_section_round_trip_l. Qed.
Print Assumptions nil_section_round_trip.

(* ---- ONE theorem about the encoder, all shapes (nil pointers / interfaces, slices, arrays, maps
        with string or TextMarshaler keys, plain and opaque TextMarshalers, omitempty, "-") ------- *)
Theorem encoder_exact_and_redacting : forall v, x_wf v ->
  (forall p, cv_get p (Some (encode_x v)) = option_map encode_x (x_get_vis p v)) /\
  (forall s, In s (cv_scalars (encode_x v)) -> s = redacted \/ In s (x_plains v)).
Proof. exact encoder_exact_and_redacting_l. Qed.
Print Assumptions encoder_exact_and_redacting.

(* Marshal fails exactly when a key that does not encode to a string is met outside skipped fields *)
Theorem marshal_fails_iff_bad_key : forall v, marshal_x v = None <-> x_bad v = true.
Proof. exact marshal_fails_iff_l. Qed.
Print Assumptions marshal_fails_iff_bad_key.

Theorem schema_no_arrays : array_types = [].
Proof. exact schema_no_arrays_l. Qed.
Print Assumptions schema_no_arrays.

(* ---- translator T1 obligations: the hand-written definition equals what the Go source says now -- *)
Theorem tel_err_is_translated : forall c,
  telemetry_validate (c_tel_level c) (Z.of_nat (c_tel_readers c)) (negb (c_tel_views c)) =
  match tel_err c with
  | None => None
  | Some ETelNoReaders => tel_lbl_readers
  | Some ETelViews => tel_lbl_views
  | Some _ => None
  end.
Proof. exact tel_err_is_translated_l. Qed.
Print Assumptions tel_err_is_translated.

Theorem tel_labels_distinct : tel_lbl_readers <> None /\ tel_lbl_views <> None /\ tel_lbl_readers <> tel_lbl_views.
Proof. exact tel_labels_distinct_l. Qed.
Print Assumptions tel_labels_distinct.

Theorem telemetry_levels : lvl_LevelNone = (-1)%Z /\ lvl_LevelBasic = 0%Z /\ lvl_LevelNormal = 1%Z /\ lvl_LevelDetailed = 2%Z.
Proof. exact levels_l. Qed.
Print Assumptions telemetry_levels.

(* ---- reloads: the effective configuration is that of the configuration loaded LAST ----------- *)

(* for every history of loads (start-up and any number of reloads): what is handed on after the
   n-th load is exactly the encoding of the n-th configuration, whatever was loaded before *)
Theorem reload_effective_is_current : forall before enc after,
  nth_error (run_loads (before ++ enc :: after)) (List.length before) = Some enc.
Proof. exact reload_current_l. Qed.
Print Assumptions reload_effective_is_current.

(* hence a key / entry / component removed from the configuration is gone from the effective
   configuration after the reload, even though an earlier configuration had it *)
Theorem reload_removed_key_absent : forall before enc after p,
  cv_get p (Some enc) = None ->
  forall eff, nth_error (run_loads (before ++ enc :: after)) (List.length before) = Some eff -> cv_get p (Some eff) = None.
Proof. exact removed_key_absent_l. Qed.
Print Assumptions reload_removed_key_absent.

(* this rests on the Conf being fresh: the merge itself keeps the keys of what it merges into *)
Theorem merge_into_used_conf_keeps_old_keys :
  exists old new p, cv_get p (Some new) = None /\ cv_get p (Some (cv_merge old new)) <> None.
Proof. exact merge_keeps_old_keys_l. Qed.
Print Assumptions merge_into_used_conf_keeps_old_keys.

(* a configuration that does not validate is never made effective — at start-up or on ANY reload,
   whatever was loaded before; and nothing is loaded after a refused reload *)
Theorem invalid_configuration_never_effective : forall h e, In e (run_loads_v h) -> In (true, e) h.
Proof. exact run_loads_v_valid_l. Qed.
Print Assumptions invalid_configuration_never_effective.

Theorem refused_reload_ends_the_run : forall a x b, run_loads_v (a ++ (false, x) :: b) = run_loads_v a.
Proof. exact run_loads_v_prefix_l. Qed.
Print Assumptions refused_reload_ends_the_run.

(* a component whose type has no factory (a misspelt type) is rejected and named; all known => accepted *)
Theorem unknown_component_type_rejected : forall known ids id,
  In id ids -> ~ In (type_of_id id) known -> In id (unknown_type_ids known ids).
Proof. exact unknown_type_named_l. Qed.
Print Assumptions unknown_component_type_rejected.

Theorem known_component_types_accepted : forall known ids,
  unknown_type_ids known ids = [] <-> forall id, In id ids -> In (type_of_id id) known.
Proof. exact known_types_accepted_l. Qed.
Print Assumptions known_component_types_accepted.

(* ---- the clause checkers used by the failing-input search decide the clauses (ProofsC.v) ------- *)
Theorem checker_walk_complete : forall t obs,
  walk_complete_b t obs = true <-> forall p e, reach t p (Some e) -> In (p, e) obs.
Proof. exact walk_complete_b_iff. Qed.
Print Assumptions checker_walk_complete.

Theorem checker_walk_sound : forall t obs,
  walk_sound_b t obs = true <-> forall p e, In (p, e) obs -> reach t p (Some e).
Proof. exact walk_sound_b_iff. Qed.
Print Assumptions checker_walk_sound.

Theorem checker_wf : forall g c, wf_b g c = true <-> wf g c.
Proof. exact wf_b_iff. Qed.
Print Assumptions checker_wf.

Theorem checker_shape : forall p, shape_ok_b p = true <-> wf_shape p.
Proof. exact shape_ok_b_iff. Qed.
Print Assumptions checker_shape.

Theorem checker_unknown_named : forall t v obs,
  unknown_named_b t v obs = true <-> forall p k, unk t v p k -> In (p, k) obs.
Proof. exact unknown_named_b_iff. Qed.
Print Assumptions checker_unknown_named.

Theorem checker_no_secret : forall plains obs,
  no_secret_b plains obs = true <-> forall s, In s (cv_scalars obs) -> s = redacted \/ In s plains.
Proof. exact no_secret_b_iff. Qed.
Print Assumptions checker_no_secret.

Theorem checker_written_reflected_sound : forall d m obs,
  written_reflected_b d m obs = true ->
  forall p s0 s, leaf_at d p s0 -> written (Some m) p s -> leaf_at obs p s.
Proof. exact written_reflected_b_sound. Qed.
Print Assumptions checker_written_reflected_sound.

Theorem checker_same_value : forall w r, same_value_b w r = true <-> same_value w r.
Proof. exact same_value_b_iff. Qed.
Print Assumptions checker_same_value.

(* the unique-keys hypothesis of the exactness theorems holds at a descriptor level whenever the
   computed obligation schema_squash_disjoint holds for it *)
Theorem disjoint_level_has_unique_keys : forall rem fs,
  squash_keys_disjoint (TStruct rem fs) = true -> NoDup (map fst (flat_of (TStruct rem fs))).
Proof. exact disjoint_level_unique_keys. Qed.
Print Assumptions disjoint_level_has_unique_keys.

(* ---- strictness below service::telemetry at the `,remain` levels (full since fix 2d582bf11: before it
        an unknown key there made the loader panic) ------------------------------------------------ *)
Theorem telemetry_remain_levels_strict : forall name T v p k,
  In (name, T) remain_levels -> unk T v p k -> decode_strict_ok T v = false /\ In (p, k) (unused T v).
Proof. exact remain_levels_strict_l. Qed.
Print Assumptions telemetry_remain_levels_strict.

Theorem telemetry_remain_levels_guarded :
  forallb (fun e => no_remain (snd e)) remain_levels = true /\ (5 <=? List.length remain_levels)%nat = true.
Proof. exact remain_levels_guarded_l. Qed.
Print Assumptions telemetry_remain_levels_guarded.

Theorem telemetry_remain_level_rejects_unknown_key :
  forallb (fun e => match unused (snd e) (CMap [("zzz_unknown"%string, CScalar "1"%string)]) with [([], k)] => String.eqb k "zzz_unknown" | _ => false end) remain_levels = true.
Proof. vm_compute. reflexivity. Qed.
Print Assumptions telemetry_remain_level_rejects_unknown_key.

(* ---- LINK: the model's own run always passes the clause checkers --------------------------------- *)

(* for EVERY case input (under exactly the well-formedness guards of the theorems: unique keys, a schema
   entry that exists), the case record built from the model's own output satisfies every clause checker:
   the checkers never demand more than the model delivers, so a checker verdict "violated" on an observed
   case is a statement about the implementation, and "no violation on N cases" is no longer only empirical *)
Theorem model_passes_checker : forall c, case_wf c -> prop_ok (observe_model c) = true.
Proof. exact model_passes_checker_l. Qed.
Print Assumptions model_passes_checker.

(* the written-keys checker decides its clause in both directions (unique keys) *)
Theorem checker_written_reflected : forall d m obs, tv_wf d ->
  (written_reflected_b d m obs = true <->
   forall p s0 s, leaf_at d p s0 -> written (Some m) p s -> leaf_at obs p s).
Proof. exact written_reflected_b_iff. Qed.
Print Assumptions checker_written_reflected.

(* the map-order-insensitive equality used by the notify / reload / encoder-exactness clauses: accepted in
   both directions => the same value up to the order of map entries; and it accepts every value itself *)
Theorem checker_cv_equal_sound : forall a b, cv_wf a -> cv_wf b -> cv_both a b = true -> cv_equiv a b.
Proof. exact cv_both_sound. Qed.
Print Assumptions checker_cv_equal_sound.

Theorem checker_cv_equal_refl : forall c, cv_wf c -> cv_both c c = true.
Proof. exact cv_both_refl. Qed.
Print Assumptions checker_cv_equal_refl.

(* the encoding of a value with unique names has unique keys (the guard of the equality above holds
   for everything the encoder model produces) *)
Theorem encoder_output_has_unique_keys : forall v, x_wf v -> cv_wf (encode_x v).
Proof. exact encode_x_wf. Qed.
Print Assumptions encoder_output_has_unique_keys.

(* ---- the built-in validation RULES (content of the nested Validate methods): each hand-written rule
        gives the verdict of the real method at every point of its grid (T3b dump of the current tree) ---- *)
Theorem validate_grid_backoff : agrees backoff_rule grid_backoff = true. Proof. exact validate_grid_backoff_l. Qed.
Print Assumptions validate_grid_backoff.
Theorem validate_grid_timeout : agrees timeout_rule grid_timeout = true. Proof. exact validate_grid_timeout_l. Qed.
Print Assumptions validate_grid_timeout.
Theorem validate_grid_queue : agrees queue_rule grid_queue = true. Proof. exact validate_grid_queue_l. Qed.
Print Assumptions validate_grid_queue.
Theorem validate_grid_batchcfg : agrees batchcfg_rule grid_batchcfg = true. Proof. exact validate_grid_batchcfg_l. Qed.
Print Assumptions validate_grid_batchcfg.
Theorem validate_grid_batcher : agrees batcher_rule grid_batcher = true. Proof. exact validate_grid_batcher_l. Qed.
Print Assumptions validate_grid_batcher.
Theorem validate_grid_grpcserver : agrees grpcserver_rule grid_grpcserver = true. Proof. exact validate_grid_grpcserver_l. Qed.
Print Assumptions validate_grid_grpcserver.
Theorem validate_grid_batchproc : agrees batchproc_rule grid_batchproc = true. Proof. exact validate_grid_batchproc_l. Qed.
Print Assumptions validate_grid_batchproc.
Theorem validate_grid_tls : agrees tls_rule grid_tls = true. Proof. exact validate_grid_tls_l. Qed.
Print Assumptions validate_grid_tls.
Theorem validate_grids_nontrivial :
  forallb (fun g : list (list Z * Z) => existsb (fun r => Z.eqb (snd r) 1) g && existsb (fun r => Z.eqb (snd r) 0) g)
          [grid_backoff; grid_timeout; grid_queue; grid_batchcfg; grid_batcher; grid_grpcserver; grid_batchproc; grid_tls] = true.
Proof. exact validate_grids_nontrivial_l. Qed.
Print Assumptions validate_grids_nontrivial.
