(* C13/Properties.v — the property's clauses as theorems (statements only; proofs are in Proofs*.v). *)
From Verif Require Import Common.Base C13.Model C13.Spec C13.Proofs1 C13.Proofs2.
From Coq Require Import String.

(* ---- "Every validation rule of every nested configuration value is evaluated, so an invalid
        nested setting is reported even when its parents are valid" ------------------------- *)

(* for EVERY value tree: a failing validator at a node reachable through exported fields,
   pointers, interfaces, slice/array elements, map keys and map values is reported, prefixed by
   exactly the path of that node — whatever the verdicts of its ancestors *)
Theorem walk_complete : forall (E : Type) (t : vtree E) (p : path) (e : E),
  reach t p (Some e) -> In (p, e) (walk t).
Proof. exact @walk_complete_l. Qed.
Print Assumptions walk_complete.

(* conversely every reported error is the verdict of such a node, at exactly that path *)
Theorem walk_sound : forall (E : Type) (t : vtree E) (p : path) (e : E),
  In (p, e) (walk t) -> reach t p (Some e).
Proof. exact @walk_sound_l. Qed.
Print Assumptions walk_sound.

(* xconfmap.Validate returns nil iff no reachable validator fails *)
Theorem validate_nil_iff_clean : forall (E : Type) (t : vtree E), validate_ok t = true <-> clean t.
Proof. exact @validate_ok_iff_clean. Qed.
Print Assumptions validate_nil_iff_clean.

(* ---- references, ambiguity, pipeline shape ------------------------------------------------ *)

(* otelcol.Config.Validate has no error to return iff the file is non-empty, has receivers and
   exporters (unless the AllowNoPipelines gate is on), no identifier is shared by a connector and
   a receiver or exporter, and every service / pipeline reference resolves *)
Theorem cfg_validate_exact : forall g c, cfg_candidates g c = [] <-> wf_nonempty g c /\ wf_refs c.
Proof. exact cfg_candidates_nil_iff. Qed.
Print Assumptions cfg_validate_exact.

(* whichever error it returns (two of its loops range over Go maps) names an entry that really
   is offending *)
Theorem cfg_validate_names_offender : forall g c e, In e (cfg_candidates g c) -> offending g c e.
Proof. exact cfg_candidates_offending. Qed.
Print Assumptions cfg_validate_names_offender.

Theorem pipelines_validate_exact : forall g c, pipes_candidates g c = [] <-> wf_pipes g c.
Proof. exact pipes_candidates_nil_iff. Qed.
Print Assumptions pipelines_validate_exact.

Theorem pipelines_validate_names_offender : forall g c e, In e (pipes_candidates g c) -> offending g c e.
Proof. exact pipes_candidates_offending. Qed.
Print Assumptions pipelines_validate_names_offender.

(* PipelineConfig.Validate: no error iff >= 1 receiver, >= 1 exporter, no processor twice *)
Theorem pipeline_shape_exact : forall p, pipe_shape_err p = None <-> wf_shape p.
Proof. exact pipe_shape_none_iff. Qed.
Print Assumptions pipeline_shape_exact.

Theorem pipeline_shape_names_offender : forall p e,
  pipe_shape_err p = Some e ->
  match e with
  | EPipeNoRecv => pp_recv p = []
  | EPipeNoExp => pp_exp p = []
  | EDupProc r => duplicated r (pp_proc p)
  | _ => False
  end.
Proof. exact pipe_shape_names. Qed.
Print Assumptions pipeline_shape_names_offender.

Theorem duplicate_processor_rejected : forall p r, duplicated r (pp_proc p) -> pipe_shape_err p <> None.
Proof. exact dup_proc_rejected. Qed.
Print Assumptions duplicate_processor_rejected.

Theorem ambiguous_id_rejected : forall g c cid,
  defined cid (c_conn c) -> (defined cid (c_exp c) \/ defined cid (c_recv c)) -> cfg_candidates g c <> [].
Proof. exact ambiguous_rejected. Qed.
Print Assumptions ambiguous_id_rejected.

Theorem dangling_reference_rejected : forall g c p r,
  In p (c_pipes c) ->
  (In r (pp_recv p) /\ ~ defined r (c_recv c) /\ ~ defined r (c_conn c)) \/
  (In r (pp_proc p) /\ ~ defined_nonnil r (c_proc c)) \/
  (In r (pp_exp p) /\ ~ defined r (c_exp c) /\ ~ defined r (c_conn c)) ->
  cfg_candidates g c <> [].
Proof. exact dangling_rejected. Qed.
Print Assumptions dangling_reference_rejected.

Theorem dangling_extension_rejected : forall g c r,
  In r (c_svc_ext c) -> ~ defined_nonnil r (c_ext c) -> cfg_candidates g c <> [].
Proof. exact dangling_ext_rejected. Qed.
Print Assumptions dangling_extension_rejected.

(* the whole of xconfmap.Validate on the loaded otelcol.Config, for every possible iteration
   order of the Go maps: no error iff the configuration is well-formed in every respect
   (references, ambiguity, pipeline shapes, signals, telemetry, every component's validators) *)
Theorem load_validation_exact : forall g c errs, outcome g c errs -> (errs = [] <-> wf g c).
Proof. exact outcome_nil_iff_wf. Qed.
Print Assumptions load_validation_exact.
