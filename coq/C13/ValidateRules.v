(* C13/ValidateRules.v — the validation RULES of the built-in configuration types over their numeric /
   boolean / enumerated settings, stated by hand after the Go code, and the named obligations that each
   gives exactly the verdict of the real Validate method at every point of the grid dumped by translator
   T3b (Generated/C13ValidateGrid.v, regenerated from the current tree on every run).  A change of a rule
   changes the dump and breaks the obligation of that rule.
   Verdict: 1 = accepted, 0 = Validate returns an error.  Durations in seconds, floats in 1/1000. *)
From Verif Require Import Common.Base Generated.C13ValidateGrid.
Local Open Scope Z_scope.

Definition agrees (spec : list Z -> Z) (grid : list (list Z * Z)) : bool :=
  forallb (fun r => Z.eqb (spec (fst r)) (snd r)) grid.

Definition b2z (b : bool) : Z := if b then 1 else 0.

(* config/configretry/backoff.go BackOffConfig.Validate
   [enabled; initial_interval; randomization_factor; multiplier; max_interval; max_elapsed_time] *)
Definition backoff_rule (p : list Z) : Z :=
  match p with
  | [en; ini; rf; mul; maxi; maxe] =>
      if en =? 0 then 1
      else b2z (negb (ini <? 0) && negb ((rf <? 0) || (1000 <? rf)) && negb (mul <? 0) && negb (maxi <? 0) && negb (maxe <? 0) &&
                (negb (0 <? maxe) || (negb (maxe <? ini) && negb (maxe <? maxi))))
  | _ => -1
  end.

(* exporterhelper/internal/timeout_sender.go TimeoutConfig.Validate  [timeout] *)
Definition timeout_rule (p : list Z) : Z := match p with [t] => b2z (negb (t <? 0)) | _ => -1 end.

(* exporterhelper/internal/queuebatch/config.go Config.Validate
   [enabled; num_consumers; queue_size; storage set; wait_for_result; sizer (0 requests, 1 items, 2 bytes); batch set] *)
Definition queue_rule (p : list Z) : Z :=
  match p with
  | [en; nc; qs; st; wait; sizer; batch] =>
      if en =? 0 then 1
      else b2z (negb (nc <=? 0) && negb (qs <=? 0) && negb ((st =? 1) && (wait =? 1)) &&
                negb ((st =? 1) && negb (sizer =? 0)) && negb ((batch =? 1) && (sizer =? 0)))
  | _ => -1
  end.

(* queuebatch.BatchConfig.Validate  [flush_timeout; min_size; max_size] *)
Definition batchcfg_rule (p : list Z) : Z :=
  match p with
  | [fl; mn; mx] => b2z (negb (fl <=? 0) && negb (mn <? 0) && negb (mx <? 0) && negb ((0 <? mx) && (mx <? mn)))
  | _ => -1
  end.

(* exporterhelper/internal/queue_sender.go BatcherConfig.Validate  [enabled; flush_timeout; min_size; max_size] *)
Definition batcher_rule (p : list Z) : Z :=
  match p with
  | [en; fl; mn; mx] =>
      if en =? 0 then 1
      else b2z (negb (fl <=? 0) && negb (mn <? 0) && negb (mx <? 0) && negb (negb (mx =? 0) && (mx <? mn)))
  | _ => -1
  end.

(* config/configgrpc ServerConfig.Validate  [max_recv_msg_size_mib; read_buffer_size; write_buffer_size]
   the first test is int arithmetic with wrap-around: mib*1024*1024 < 0 *)
Definition wrap64 (z : Z) : Z := let m := z mod 18446744073709551616 in if m <? 9223372036854775808 then m else m - 18446744073709551616.
Definition grpcserver_rule (p : list Z) : Z :=
  match p with
  | [mib; rb; wb] => b2z (negb (wrap64 (mib * 1048576) <? 0) && negb (rb <? 0) && negb (wb <? 0))
  | _ => -1
  end.

(* processor/batchprocessor/config.go Config.Validate
   [send_batch_size; send_batch_max_size; timeout; metadata_keys (0 none, 1 [a], 2 [a, A])] *)
Definition batchproc_rule (p : list Z) : Z :=
  match p with
  | [sz; mx; t; keys] => b2z (negb ((0 <? mx) && (mx <? sz)) && negb (keys =? 2) && negb (t <? 0))
  | _ => -1
  end.

(* config/configtls Config.Validate  [min_version; max_version; ca_file set; ca_pem set]
   versions: 0 = not written, 10..13 = "1.0".."1.3", 99 = not a version; defaults: min 1.2, max 0 (latest) *)
Definition tls_rule (p : list Z) : Z :=
  match p with
  | [mn; mx; caf; cap] =>
      let minv := if mn =? 0 then 12 else mn in
      b2z (negb ((caf =? 1) && (cap =? 1)) && negb (mn =? 99) && negb (mx =? 99) && negb ((mx <? minv) && negb (mx =? 0)))
  | _ => -1
  end.

Lemma validate_grid_backoff_l : agrees backoff_rule grid_backoff = true. Proof. vm_compute. reflexivity. Qed.
Lemma validate_grid_timeout_l : agrees timeout_rule grid_timeout = true. Proof. vm_compute. reflexivity. Qed.
Lemma validate_grid_queue_l : agrees queue_rule grid_queue = true. Proof. vm_compute. reflexivity. Qed.
Lemma validate_grid_batchcfg_l : agrees batchcfg_rule grid_batchcfg = true. Proof. vm_compute. reflexivity. Qed.
Lemma validate_grid_batcher_l : agrees batcher_rule grid_batcher = true. Proof. vm_compute. reflexivity. Qed.
Lemma validate_grid_grpcserver_l : agrees grpcserver_rule grid_grpcserver = true. Proof. vm_compute. reflexivity. Qed.
Lemma validate_grid_batchproc_l : agrees batchproc_rule grid_batchproc = true. Proof. vm_compute. reflexivity. Qed.
Lemma validate_grid_tls_l : agrees tls_rule grid_tls = true. Proof. vm_compute. reflexivity. Qed.

(* the grids are not empty and contain both verdicts (the obligations are not vacuous) *)
Lemma validate_grids_nontrivial_l :
  forallb (fun g : list (list Z * Z) => existsb (fun r => snd r =? 1) g && existsb (fun r => snd r =? 0) g)
          [grid_backoff; grid_timeout; grid_queue; grid_batchcfg; grid_batcher; grid_grpcserver; grid_batchproc; grid_tls] = true.
Proof. vm_compute. reflexivity. Qed.

(* the rule that seeded change C13-m8 weakened, as a statement about the hand-written rule: a lone
   max_version below the default minimum is rejected *)
Lemma tls_lone_low_max_rejected : tls_rule [0; 11; 0; 0] = 0 /\ tls_rule [0; 10; 0; 0] = 0 /\ tls_rule [0; 12; 0; 0] = 1.
Proof. repeat split. Qed.
