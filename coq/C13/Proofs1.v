(* C13/Proofs1.v — the validation walk (xconfmap.Validate) is complete and sound for every
   value tree: every reachable failing validator is reported with exactly its path, and every
   reported error stems from such a node. *)
From Verif Require Import Common.Base C13.Model C13.Spec.
From Coq Require Import String.

Section VtreeInd.
  Context {E : Type} (P : vtree E -> Prop).
  Hypothesis HInv : P VInvalid.
  Hypothesis HPtr : forall t, P t -> P (VPtr t).
  Hypothesis HStruct : forall v fs, Forall (fun f => P (snd f)) fs -> P (VStruct v fs).
  Hypothesis HSeq : forall v es, Forall P es -> P (VSeq v es).
  Hypothesis HMap : forall v kvs, Forall (fun kv => P (snd (fst kv)) /\ P (snd kv)) kvs -> P (VMap v kvs).
  Hypothesis HLeaf : forall v, P (VLeaf v).

  Fixpoint vtree_ind' (t : vtree E) : P t :=
    match t with
    | VInvalid => HInv
    | VPtr t' => HPtr t' (vtree_ind' t')
    | VStruct v fs =>
        HStruct v fs ((fix go (l : list (bool * string * vtree E)) : Forall (fun f => P (snd f)) l :=
                         match l with
                         | [] => Forall_nil _
                         | f :: r => Forall_cons f (vtree_ind' (snd f)) (go r)
                         end) fs)
    | VSeq v es =>
        HSeq v es ((fix go (l : list (vtree E)) : Forall P l :=
                      match l with
                      | [] => Forall_nil _
                      | e :: r => Forall_cons e (vtree_ind' e) (go r)
                      end) es)
    | VMap v kvs =>
        HMap v kvs ((fix go (l : list (string * vtree E * vtree E))
                       : Forall (fun kv => P (snd (fst kv)) /\ P (snd kv)) l :=
                       match l with
                       | [] => Forall_nil _
                       | kv :: r => Forall_cons kv (conj (vtree_ind' (snd (fst kv))) (vtree_ind' (snd kv))) (go r)
                       end) kvs)
    | VLeaf v => HLeaf v
    end.
End VtreeInd.

(* the three inner loops of [walk], named *)
Fixpoint walk_fields {E} (fs : list (bool * string * vtree E)) : list (path * E) :=
  match fs with
  | [] => []
  | (ex, name, sub) :: r => (if ex then pre name (walk sub) else []) ++ walk_fields r
  end.

Fixpoint walk_elems {E} (i : nat) (es : list (vtree E)) : list (path * E) :=
  match es with
  | [] => []
  | e :: r => pre (itoa i) (walk e) ++ walk_elems (S i) r
  end.

Fixpoint walk_entries {E} (kvs : list (string * vtree E * vtree E)) : list (path * E) :=
  match kvs with
  | [] => []
  | (k, kt, vt) :: r => (pre k (walk kt) ++ pre k (walk vt)) ++ walk_entries r
  end.

Lemma walk_struct {E} v (fs : list (bool * string * vtree E)) :
  walk (VStruct v fs) = here v ++ walk_fields fs.
Proof.
  cbn [walk]. f_equal. induction fs as [|[[ex n] s] r IH]; cbn; [reflexivity|]. now rewrite IH.
Qed.

Lemma walk_seq {E} v (es : list (vtree E)) :
  walk (VSeq v es) = here v ++ walk_elems 0 es.
Proof.
  cbn [walk]. f_equal. generalize 0. induction es as [|e r IH]; intros i; cbn; [reflexivity|].
  now rewrite IH.
Qed.

Lemma walk_map {E} v (kvs : list (string * vtree E * vtree E)) :
  walk (VMap v kvs) = here v ++ walk_entries kvs.
Proof.
  cbn [walk]. f_equal. induction kvs as [|[[k kt] vt] r IH]; cbn; [reflexivity|]. now rewrite IH.
Qed.

Lemma in_pre {E} seg (l : list (path * E)) p e :
  In (p, e) (pre seg l) <-> exists q, p = seg :: q /\ In (q, e) l.
Proof.
  unfold pre. rewrite in_map_iff. split.
  - intros [[q e'] [Heq Hin]]. cbn in Heq. inversion Heq; subst. eauto.
  - intros [q [-> Hin]]. exists (q, e). auto.
Qed.

Lemma in_here {E} (v : option E) p e : In (p, e) (here v) <-> p = [] /\ v = Some e.
Proof.
  destruct v as [x|]; cbn.
  - split.
    + intros [H|[]]. inversion H; subst. auto.
    + intros [-> H]. inversion H; subst. auto.
  - split; [intros []|intros [_ H]; discriminate].
Qed.

Lemma in_walk_fields {E} (fs : list (bool * string * vtree E)) p e :
  In (p, e) (walk_fields fs) <->
  exists name sub q, In (true, name, sub) fs /\ p = name :: q /\ In (q, e) (walk sub).
Proof.
  induction fs as [|[[ex n] s] r IH]; cbn.
  - split; [intros []|intros (?&?&?&[]&_)].
  - rewrite in_app_iff, IH. split.
    + intros [H|(n'&s'&q&Hin&Hp&Hq)].
      * destruct ex; [|destruct H]. apply in_pre in H. destruct H as [q [-> Hq]].
        exists n, s, q. auto.
      * exists n', s', q. auto.
    + intros (n'&s'&q&[Heq|Hin]&Hp&Hq).
      * inversion Heq; subst. left. apply in_pre. eauto.
      * right. exists n', s', q. auto.
Qed.

Lemma in_walk_elems {E} (es : list (vtree E)) i p e :
  In (p, e) (walk_elems i es) <->
  exists j sub q, nth_error es j = Some sub /\ p = itoa (i + j) :: q /\ In (q, e) (walk sub).
Proof.
  revert i. induction es as [|x r IH]; intros i; cbn.
  - split; [intros []|intros (j&?&?&H&_); destruct j; discriminate].
  - rewrite in_app_iff, IH. split.
    + intros [H|(j&s&q&Hn&Hp&Hq)].
      * apply in_pre in H. destruct H as [q [-> Hq]]. exists 0, x, q. rewrite Nat.add_0_r. auto.
      * exists (S j), s, q. cbn. rewrite Nat.add_succ_r. auto.
    + intros (j&s&q&Hn&Hp&Hq). destruct j as [|j]; cbn in Hn.
      * inversion Hn; subst. left. apply in_pre. rewrite Nat.add_0_r. eauto.
      * right. exists j, s, q. rewrite Nat.add_succ_r in Hp. auto.
Qed.

Lemma in_walk_entries {E} (kvs : list (string * vtree E * vtree E)) p e :
  In (p, e) (walk_entries kvs) <->
  exists k kt vt q, In (k, kt, vt) kvs /\ p = k :: q /\ (In (q, e) (walk kt) \/ In (q, e) (walk vt)).
Proof.
  induction kvs as [|[[k kt] vt] r IH]; cbn.
  - split; [intros []|intros (?&?&?&?&[]&_)].
  - rewrite !in_app_iff, IH. split.
    + intros [[H|H]|(k'&kt'&vt'&q&Hin&Hp&Hq)].
      * apply in_pre in H. destruct H as [q [-> Hq]]. exists k, kt, vt, q. auto.
      * apply in_pre in H. destruct H as [q [-> Hq]]. exists k, kt, vt, q. auto.
      * exists k', kt', vt', q. auto.
    + intros (k'&kt'&vt'&q&[Heq|Hin]&Hp&Hq).
      * inversion Heq; subst. left. destruct Hq; [left|right]; apply in_pre; eauto.
      * right. exists k', kt', vt', q. auto.
Qed.

(* completeness: a reachable failing validator is reported with exactly its path *)
Lemma walk_complete_l {E} (t : vtree E) p e : reach t p (Some e) -> In (p, e) (walk t).
Proof.
  remember (Some e) as w eqn:Hw. intros H. induction H; subst.
  - rewrite walk_struct, in_app_iff. left. apply in_here. auto.
  - rewrite walk_seq, in_app_iff. left. apply in_here. auto.
  - rewrite walk_map, in_app_iff. left. apply in_here. auto.
  - cbn. left. reflexivity.
  - cbn [walk]. auto.
  - rewrite walk_struct, in_app_iff. right. apply in_walk_fields. exists name, sub, p. auto.
  - rewrite walk_seq, in_app_iff. right. apply in_walk_elems. exists i, sub, p. auto.
  - rewrite walk_map, in_app_iff. right. apply in_walk_entries. exists k, kt, vt, p. auto.
  - rewrite walk_map, in_app_iff. right. apply in_walk_entries. exists k, kt, vt, p. auto.
Qed.

(* soundness: every reported error is the verdict of a reachable node at exactly that path *)
Lemma walk_sound_l {E} (t : vtree E) : forall p e, In (p, e) (walk t) -> reach t p (Some e).
Proof.
  induction t as [|t IH|v fs IH|v es IH|v kvs IH|v] using vtree_ind'; intros p e Hin.
  - destruct Hin.
  - cbn [walk] in Hin. constructor. auto.
  - rewrite walk_struct, in_app_iff in Hin. destruct Hin as [Hin|Hin].
    + apply in_here in Hin. destruct Hin as [-> ->]. constructor.
    + apply in_walk_fields in Hin. destruct Hin as (n&s&q&Hf&->&Hq).
      rewrite Forall_forall in IH. specialize (IH _ Hf). cbn in IH.
      eapply R_field; eauto.
  - rewrite walk_seq, in_app_iff in Hin. destruct Hin as [Hin|Hin].
    + apply in_here in Hin. destruct Hin as [-> ->]. constructor.
    + apply in_walk_elems in Hin. destruct Hin as (j&s&q&Hn&->&Hq). cbn.
      rewrite Forall_forall in IH. specialize (IH _ (nth_error_In _ _ Hn)).
      eapply R_elem; eauto.
  - rewrite walk_map, in_app_iff in Hin. destruct Hin as [Hin|Hin].
    + apply in_here in Hin. destruct Hin as [-> ->]. constructor.
    + apply in_walk_entries in Hin. destruct Hin as (k&kt&vt&q&Hk&->&Hq).
      rewrite Forall_forall in IH. specialize (IH _ Hk). cbn in IH. destruct IH as [IHk IHv].
      destruct Hq as [Hq|Hq]; [eapply R_key|eapply R_val]; eauto.
  - cbn in Hin. apply in_here in Hin. destruct Hin as [-> ->]. constructor.
Qed.

Lemma walk_exact_l {E} (t : vtree E) p e : In (p, e) (walk t) <-> reach t p (Some e).
Proof. split; [apply walk_sound_l|apply walk_complete_l]. Qed.

(* xconfmap.Validate returns nil iff no reachable validator fails *)
Lemma validate_ok_iff_clean {E} (t : vtree E) : validate_ok t = true <-> clean t.
Proof.
  unfold validate_ok, clean. split.
  - intros H p e Hr. apply walk_complete_l in Hr. destruct (walk t); [destruct Hr|discriminate].
  - intros H. destruct (walk t) as [|[p e] l] eqn:Hw; [reflexivity|].
    exfalso. apply (H p e). apply walk_sound_l. rewrite Hw. left. reflexivity.
Qed.

(* an invalid nested setting is reported even when all its ancestors are valid: the verdicts of
   the other nodes play no role in [reach], hence none in [walk] (immediate from walk_exact_l,
   stated for the record on the path to a failing node). *)
Lemma nested_invalid_reported {E} (t : vtree E) p e :
  reach t p (Some e) -> exists pe, In pe (walk t) /\ fst pe = p /\ snd pe = e.
Proof. intros H. exists (p, e). split; [now apply walk_complete_l|auto]. Qed.

(* reported paths are the paths: number of errors at a path = number of ... (multiplicity):
   each reported entry corresponds to a node; no error is reported twice for a tree whose
   sibling names are distinct — multiplicity is covered by the correspondence run (ordered
   comparison), not needed for the property. *)

(* the rendering "a::b::c: msg" — the path is a prefix of the message *)
Lemma render_root (m : string) : render ([], m) = m.
Proof. reflexivity. Qed.

Lemma render_nonroot s p (m : string) :
  render (s :: p, m) = String.append (join_path (s :: p)) (String.append ": " m).
Proof. reflexivity. Qed.
