(* C13/Checkers.v — decidable checkers of the property's clauses over the OBSERVED behaviour of the
   implementation (executable, proof-free; soundness w.r.t. the Prop-level clauses is in ProofsC.v).
   Unlike Harness.check_case they do not compare with the model's output step by step: they decide
   whether the observation satisfies the clause.  [None] = every clause that applies holds,
   [Some name] = the named clause is violated by this observation. *)
From Verif Require Import Common.Base C13.Model.
From Coq Require Import String.
Open Scope string_scope.

Definition ps_eqb (a b : path * string) : bool := list_eqb String.eqb (fst a) (fst b) && String.eqb (snd a) (snd b).
Definition ps_mem (x : path * string) (l : list (path * string)) : bool := existsb (ps_eqb x) l.

(* ---- every nested validation rule is evaluated -------------------------------------------- *)
Definition walk_complete_b (t : vtree string) (obs : list (path * string)) : bool :=
  forallb (fun pe => ps_mem pe obs) (walk t).
Definition walk_sound_b (t : vtree string) (obs : list (path * string)) : bool :=
  forallb (fun pe => ps_mem pe (walk t)) obs.

(* ---- a mistake in references / shapes is rejected ------------------------------------------- *)
Definition wf_b (g : gates) (c : topcfg) : bool := is_nil (full_validate g c).
Definition shape_ok_b (p : pipe) : bool := match pipe_shape_err p with None => true | Some _ => false end.

(* ---- an unknown key at any depth is rejected and named --------------------------------------- *)
Definition unknown_named_b (t : tdesc) (v : cv) (obs : list (path * string)) : bool :=
  forallb (fun pk => ps_mem pk obs) (unused t v).
Definition unknown_keys_named_b (t : tdesc) (v : cv) (obs : list (path * string)) : bool :=
  forallb (fun pk => str_mem (snd pk) (map snd obs)) (unused t v).

(* ---- each written key is reflected in the typed configuration --------------------------------- *)
Fixpoint tv_leaves (v : tv) : list (path * string) :=
  match v with
  | VSc s => [([], s)]
  | VRec fs => (fix go (fs : list (string * tv)) : list (path * string) :=
                  match fs with [] => [] | (k, x) :: r => (pre k (tv_leaves x) ++ go r)%list end) fs
  end.

Definition written_reflected_b (d : tv) (m : cv) (obs : tv) : bool :=
  forallb (fun ps => match cv_get (fst ps) (Some m) with
                     | Some (CScalar s) => match tv_get (fst ps) obs with
                                           | Some (VSc s') => String.eqb s s'
                                           | _ => false
                                           end
                     | _ => true
                     end) (tv_leaves d).

(* ---- secrets redacted in the effective configuration ------------------------------------------ *)
Definition no_secret_b (plains : list string) (obs : cv) : bool :=
  forallb (fun s => String.eqb s redacted || str_mem s plains) (cv_scalars obs).

(* ---- kinds -------------------------------------------------------------------------------------- *)
Definition same_value_b (w : wv) (r : dres) : bool :=
  match w, r with
  | WBool b, DBool b' => Bool.eqb b b'
  | WInt z, DNum z' f => Z.eqb z z' && negb f
  | WFloat z f, DNum z' f' => Z.eqb z z' && Bool.eqb f f'
  | WStr s, DStr s' => String.eqb s s'
  | WStr s, DList l => list_eqb String.eqb l (split_comma s)
  | WStr _, DOther | WList, DOther | WMap, DOther => true
  | _, _ => false
  end.
Definition is_err (r : dres) : bool := match r with DErr => true | _ => false end.
Definition is_keep (r : dres) : bool := match r with DKeep => true | _ => false end.
Definition fam_mismatch_b (k : lkind) (w : wv) : bool :=
  match k, w with
  | _, WNull => false
  | KBool, WBool _ => false
  | KString, WStr _ => false
  | (KInt | KUint | KFloat | KDuration), (WInt _ | WFloat _ _) => false
  | KDuration, WStr _ => false
  | KStrSlice, (WStr _ | WList) => false
  | KStruct, WMap => false
  | _, _ => true
  end.
