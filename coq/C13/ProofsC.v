(* C13/ProofsC.v — the clause checkers of Checkers.v decide the Prop-level clauses. *)
From Verif Require Import Common.Base C13.Model C13.Spec C13.Checkers C13.Proofs1 C13.Proofs2 C13.Proofs3 C13.Proofs4 C13.Proofs5 C13.Proofs6.
From Coq Require Import String.

Lemma ps_eqb_eq a b : ps_eqb a b = true <-> a = b.
Proof.
  unfold ps_eqb. destruct a as [p s], b as [q t]. cbn. rewrite andb_true_iff, String.eqb_eq.
  rewrite (list_eqb_spec String.eqb String.eqb_eq). split; [intros [-> ->]; reflexivity|intros H; inversion H; auto].
Qed.

Lemma ps_mem_in x l : ps_mem x l = true <-> In x l.
Proof.
  unfold ps_mem. rewrite existsb_exists. split.
  - intros (y&Hy&He). apply ps_eqb_eq in He. now subst.
  - intros H. exists x. split; [assumption|now apply ps_eqb_eq].
Qed.

(* every failing validator reachable in the value is in the observed report *)
Lemma walk_complete_b_iff t obs :
  walk_complete_b t obs = true <-> forall p e, reach t p (Some e) -> In (p, e) obs.
Proof.
  unfold walk_complete_b. rewrite forallb_forall. split.
  - intros H p e Hr. apply ps_mem_in, H. now apply walk_complete_l.
  - intros H [p e] Hin. apply ps_mem_in, H. now apply walk_sound_l.
Qed.

(* every observed error is the verdict of a reachable node at that path *)
Lemma walk_sound_b_iff t obs :
  walk_sound_b t obs = true <-> forall p e, In (p, e) obs -> reach t p (Some e).
Proof.
  unfold walk_sound_b. rewrite forallb_forall. split.
  - intros H p e Hin. apply walk_sound_l, ps_mem_in, (H (p, e) Hin).
  - intros H [p e] Hin. apply ps_mem_in, walk_complete_l, H, Hin.
Qed.

(* the decidable well-formedness is the Prop-level one *)
Lemma wf_b_iff g c : wf_b g c = true <-> wf g c.
Proof.
  unfold wf_b. rewrite is_nil_true. exact (outcome_nil_iff_wf g c _ (full_validate_outcome g c)).
Qed.

Lemma shape_ok_b_iff p : shape_ok_b p = true <-> wf_shape p.
Proof.
  unfold shape_ok_b. rewrite <- pipe_shape_none_iff. destruct (pipe_shape_err p); split; congruence.
Qed.

(* every unknown key, at any depth, is named in the observed error with the path of its level *)
Lemma unknown_named_b_iff t v obs :
  unknown_named_b t v obs = true <-> forall p k, unk t v p k -> In (p, k) obs.
Proof.
  unfold unknown_named_b. rewrite forallb_forall. split.
  - intros H p k Hu. apply ps_mem_in, H. now apply unused_complete_l.
  - intros H [p k] Hin. apply ps_mem_in, H. now apply unused_sound_l.
Qed.

(* the observed effective configuration holds no secret *)
Lemma no_secret_b_iff plains obs :
  no_secret_b plains obs = true <-> forall s, In s (cv_scalars obs) -> s = redacted \/ In s plains.
Proof.
  unfold no_secret_b. rewrite forallb_forall. split.
  - intros H s Hin. specialize (H s Hin). apply orb_true_iff in H. destruct H as [H|H].
    + left. now apply String.eqb_eq.
    + right. now apply str_mem_in.
  - intros H s Hin. apply orb_true_iff. destruct (H s Hin) as [->|Hp].
    + left. apply String.eqb_refl.
    + right. now apply str_mem_in.
Qed.

(* written keys are reflected: acceptance by the checker implies the clause *)
Lemma in_tv_leaves d : forall p s, tv_get p d = Some (VSc s) -> In (p, s) (tv_leaves d).
Proof.
  induction d as [s0|fs IH] using tv_ind'; intros p s Hg.
  - destruct p; cbn in Hg; [inversion Hg; now left|discriminate].
  - destruct p as [|k r]; cbn in Hg; [discriminate|].
    destruct (lookup k fs) as [x|] eqn:El; cbn in Hg; [|discriminate].
    pose proof (lookup_in _ _ _ El) as Hin. rewrite Forall_forall in IH. specialize (IH (k, x) Hin r s Hg). cbn in IH.
    cbn [tv_leaves]. clear El Hg. induction fs as [|[k' y] fs' IHf]; [destruct Hin|].
    apply in_app_iff. destruct Hin as [Heq|Hin'].
    + inversion Heq; subst. left. apply in_pre. eauto.
    + right. now apply IHf.
Qed.

Lemma written_reflected_b_sound d m obs :
  written_reflected_b d m obs = true ->
  forall p s0 s, leaf_at d p s0 -> written (Some m) p s -> leaf_at obs p s.
Proof.
  unfold written_reflected_b, leaf_at, written. rewrite forallb_forall. intros H p s0 s Hl Hw.
  specialize (H (p, s0) (in_tv_leaves d p s0 Hl)). cbn in H. rewrite Hw in H.
  destruct (tv_get p obs) as [[s'|]|]; try discriminate. apply String.eqb_eq in H. now subst.
Qed.

(* kinds *)
Lemma fam_mismatch_b_eq k w : fam_mismatch_b k w = family_mismatch k w.
Proof. reflexivity. Qed.

Lemma same_value_b_iff w r : same_value_b w r = true <-> same_value w r.
Proof.
  destruct w, r; cbn; try (split; [discriminate|contradiction]); try (split; auto; fail).
  - rewrite Bool.eqb_true_iff. tauto.
  - rewrite andb_true_iff, Z.eqb_eq, negb_true_iff. tauto.
  - rewrite andb_true_iff, Z.eqb_eq, Bool.eqb_true_iff. tauto.
  - apply String.eqb_eq.
  - rewrite (list_eqb_spec String.eqb String.eqb_eq). tauto.
Qed.

(* hidden hypothesis audit: the key-uniqueness side condition of the exactness theorems follows, for a
   descriptor level, from the computed obligation squash_keys_disjoint *)
Lemma nodup_str_NoDup l : nodup_str l = true -> NoDup l.
Proof.
  induction l as [|x r IH]; cbn; [constructor|]. intros H. apply andb_true_iff in H. destruct H as [Hx Hr].
  constructor; [|auto]. intros Hin. apply str_mem_in in Hin. rewrite Hin in Hx. discriminate.
Qed.

Lemma disjoint_level_unique_keys rem fs :
  squash_keys_disjoint (TStruct rem fs) = true -> NoDup (map fst (flat_of (TStruct rem fs))).
Proof. cbn [squash_keys_disjoint]. intros H. apply andb_true_iff in H. destruct H as [H _]. now apply nodup_str_NoDup. Qed.
