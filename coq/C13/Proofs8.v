(* C13/Proofs8.v — the effective configuration, full strength with omitempty: at every key path it
   holds exactly the encoding of the setting at that path, unless a field on the way is left out
   as omitempty-and-zero; nothing else appears. *)
From Verif Require Import Common.Base C13.Model C13.Spec C13.Proofs4 C13.Proofs7.
From Coq Require Import String.

Lemma lookup_not_in {A} k (l : list (string * A)) : lookup k l = None -> ~ In k (map fst l).
Proof.
  induction l as [|[k' a] r IH]; cbn; [intros _ []|].
  destruct (String.eqb_spec k k'); [discriminate|]. intros H [Heq|Hin]; [congruence|exact (IH H Hin)].
Qed.

Lemma effective_exact_l v : o_wf v -> forall p,
  cv_get p (Some (encode_o v)) = option_map encode_o (o_get_vis p v).
Proof.
  induction v as [o z s|o fs IH|o] using otv_ind'; intros Hw p.
  3:{ destruct p as [|k r]; [reflexivity|]. cbn. apply cv_get_none. }
  - destruct p as [|k r]; [reflexivity|]. cbn. apply cv_get_none.
  - destruct p as [|k r]; [reflexivity|].
    inversion Hw as [|? ? Hnd Hall|]; subst.
    rewrite encode_o_rec. cbn [cv_get cv_lookup o_get_vis].
    destruct (lookup k fs) as [x|] eqn:El; cbn [opt_bind].
    + pose proof (lookup_in _ _ _ El) as Hin.
      rewrite (lookup_enc_o k x fs Hnd Hin). destruct (o_omitted x).
      * rewrite cv_get_none. reflexivity.
      * rewrite Forall_forall in IH, Hall. exact (IH (k, x) Hin (Hall (k, x) Hin) r).
    + rewrite (lookup_enc_o_notin k fs (lookup_not_in k fs El)). rewrite cv_get_none. reflexivity.
Qed.

(* present => it is the encoding of the setting at that path (nothing else appears) *)
Lemma effective_sound_l v p c : o_wf v ->
  cv_get p (Some (encode_o v)) = Some c -> exists x, o_get_vis p v = Some x /\ c = encode_o x.
Proof.
  intros Hw H. rewrite (effective_exact_l v Hw p) in H.
  destruct (o_get_vis p v) as [x|]; [|discriminate]. inversion H. eauto.
Qed.

(* a visible setting is present with its encoding *)
Lemma effective_complete_l v p x : o_wf v ->
  o_get_vis p v = Some x -> cv_get p (Some (encode_o v)) = Some (encode_o x).
Proof. intros Hw H. now rewrite (effective_exact_l v Hw p), H. Qed.

(* the unconditional statement "every set key is present" is false: omitempty hides a written zero *)
Lemma effective_omits_zero_l : exists v p x,
  o_wf v /\ o_get p v = Some x /\ cv_get p (Some (encode_o v)) = None.
Proof.
  exists (ORec false [("write_buffer_size"%string, OSc true true "0"%string)]), ["write_buffer_size"%string], (OSc true true "0"%string).
  split; [|split; reflexivity].
  constructor; [repeat constructor; intros []|repeat constructor].
Qed.

(* a nil section whose field is omitempty (the OTLP receiver's protocols since fix 12e040cda) is not
   written into the effective configuration at all *)
Lemma nil_section_absent_l o fs k :
  NoDup (map fst fs) -> In (k, ONil true) fs -> cv_get [k] (Some (encode_o (ORec o fs))) = None.
Proof.
  intros Hnd Hin. rewrite encode_o_rec. cbn [cv_get cv_lookup].
  now rewrite (lookup_enc_o k (ONil true) fs Hnd Hin).
Qed.

(* ... and an unset key makes the receiver's own rule keep the section nil: the typed configuration
   comes back from its effective configuration (the former witness of the nil-section defect) *)
Lemma nil_section_round_trip_l :
  let d := ORec false [("protocols"%string, ORec false [("grpc"%string, ORec false [("endpoint"%string, OSc false false "localhost:4317"%string)]);
                                                  ("http"%string, ORec false [("endpoint"%string, OSc false false "localhost:4318"%string)])])] in
  let v := ORec false [("protocols"%string, ORec false [("grpc"%string, ORec false [("endpoint"%string, OSc false false "a:1"%string)]);
                                                  ("http"%string, ONil true)])] in
  decode_model "receivers/otlp" (o_strip d) (encode_o v) = o_strip v.
Proof. vm_compute. reflexivity. Qed.
