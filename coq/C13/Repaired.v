(* C13/Repaired.v — the REPAIRED behaviour for the one finding that stays open (C13-OMITEMPTY-HIDES-ZERO; the three other repairs are in /repo and in Model.v), next to the faithful model
   (Model.v stays the code as it is).  For each finding: a `_repaired` definition following the Go patch
   in work/C13/fix/<id>.diff, and the theorem that the `_refuted` statement becomes for it. *)
From Verif Require Import Common.Base C13.Model C13.Spec C13.Checkers C13.Proofs3 C13.Proofs4 C13.Proofs6 C13.Proofs7 C13.Proofs8.
From Coq Require Import String.

(* ---- C13-OMITEMPTY-HIDES-ZERO: the affected fields lose `omitempty` ------------------------------ *)
(* no field of the value carries omitempty *)
Inductive no_omit : otv -> Prop :=
| NO_sc z s : no_omit (OSc false z s)
| NO_rec fs : Forall (fun e => no_omit (snd e)) fs -> no_omit (ORec false fs)
| NO_nil : no_omit (ONil false).

Lemma no_omit_not_omitted v : no_omit v -> o_omitted v = false.
Proof. intros H. destruct H; reflexivity. Qed.

Lemma o_get_vis_no_omit v : no_omit v -> forall p, o_get_vis p v = o_get p v.
Proof.
  induction v as [o z s|o fs IH|o] using otv_ind'; intros Hn p; destruct p as [|k r]; try reflexivity.
  inversion Hn as [|? Hall|]; subst. cbn [o_get_vis o_get].
  destruct (lookup k fs) as [x|] eqn:El; [|reflexivity]. cbn [opt_bind].
  pose proof (lookup_in _ _ _ El) as Hin. rewrite Forall_forall in IH, Hall.
  rewrite (no_omit_not_omitted x (Hall (k, x) Hin)). exact (IH (k, x) Hin (Hall (k, x) Hin) r).
Qed.

(* the statement refuted by effective_config_reflects_refuted: EVERY set key is present *)
Theorem effective_config_reflects_repaired : forall v p x,
  o_wf v -> no_omit v -> o_get p v = Some x -> cv_get p (Some (encode_o v)) = Some (encode_o x).
Proof.
  intros v p x Hw Hn Hg. rewrite (effective_exact_l v Hw p), (o_get_vis_no_omit v Hn p), Hg. reflexivity.
Qed.

