(* C19/Proofs3.v — exporter helper: the invariant over whole histories, the state after shutdown. *)
From Verif Require Import Common.Base C19.Model C19.Proofs1 C19.Proofs2.
Local Open Scope Z_scope.

Definition eop_nonneg (op : eop) : Prop :=
  match op with
  | OOffer n => 0 <= n
  | OBurst ns => Forall (fun n => 0 <= n) ns
  | OFlush => True
  | OBurstShut ns => Forall (fun n => 0 <= n) ns
  end.

Section Exporter.
  Variable o : eopts.
  Hypothesis Hsig : o_sig o <> Profiles.
  Hypothesis Hbatch : forall mn mx, batch_cfg o = Some (mn, mx) -> 0 <= mx.

  Notation Inv := (Inv o).
  Notation K := (K o).

  Lemma read_one_Inv st : Inv st -> Inv (read_one o st).
  Proof.
    intros H. unfold read_one. destruct (s_queue st) as [|[id n] t] eqn:Eq; [exact H|].
    destruct H as (A & B & C). rewrite Eq in C. inversion C as [|? ? C1 C2]; subst. cbn in C1.
    apply (consume_Inv o Hsig Hbatch); [exact C1|].
    unfold Proofs2.K, infl_nf in *. cbn. rewrite Eq in A. unfold qsum in *. cbn in A.
    repeat split; auto. lia.
  Qed.

  Lemma pump_Inv f st : Inv st -> Inv (pump o f st).
  Proof.
    revert st. induction f as [|f IH]; intros st H; cbn [pump]; [exact H|].
    pose proof (work_Inv o Hsig st H) as H1.
    destruct (s_hung (work o st)); [exact H1|].
    destruct (s_queue (work o st)) eqn:E; [exact H1|].
    apply IH, read_one_Inv, H1.
  Qed.

  Lemma pump_closed_Inv f st : Inv st -> Inv (pump_closed o f st).
  Proof.
    revert st. induction f as [|f IH]; intros st H; cbn [pump_closed]; [exact H|].
    destruct (s_hung st); [exact H|]. destruct (s_flushq st); [|exact H].
    destruct (s_queue st) eqn:E; [exact H|]. apply IH, read_one_Inv, H.
  Qed.

  Lemma run_quiet_Inv st : Inv st -> Inv (run_quiet o st).
  Proof. apply pump_Inv. Qed.

  Lemma el_size_items n c : qc o = Some c -> q_items_sizer c = true -> el_size o n = n.
  Proof. intros H1 H2. unfold el_size. now rewrite H1, H2. Qed.

  Lemma el_size_requests n c : qc o = Some c -> q_items_sizer c = false -> el_size o n = 1.
  Proof. intros H1 H2. unfold el_size. now rewrite H1, H2. Qed.

  Lemma accept_Inv st n : 0 <= n -> K st (fsum (s_flushq st) + n) -> Inv (accept o st n).
  Proof.
    intros Hn (A & B & C). unfold Proofs2.Inv, Proofs2.K, infl_nf, accept in *. cbn.
    rewrite qsum_app. unfold qsum at 2. cbn. repeat split; auto; [lia|].
    apply Forall_app. split; [exact C|]. repeat constructor. exact Hn.
  Qed.

  Lemma reject_Inv st n : K st (fsum (s_flushq st) + n) -> Inv (reject o st n).
  Proof.
    intros (A & B & C). unfold Proofs2.Inv, Proofs2.K, infl_nf, reject in *. cbn.
    rewrite cnt_app, cnt_enq by exact Hsig. repeat split; auto. lia.
  Qed.

  Lemma offer_Inv st n : 0 <= n -> Inv st -> Inv (offer o st n).
  Proof.
    intros Hn H. unfold offer.
    assert (HK : K (add_offered st n) (fsum (s_flushq (add_offered st n)) + n)).
    { destruct H as (A & B & C). unfold Proofs2.K, infl_nf in *. cbn. repeat split; auto. lia. }
    assert (Hnote : forall s k, Inv s -> Inv (note_send o s k)) by (intros s k Hs; unfold note_send; destruct (is_wfr o); exact Hs).
    assert (Hroom : forall c, Inv (no_room o c (add_offered st n) n)) by (intros c; unfold no_room; apply Hnote, reject_Inv; exact HK).
    destruct (qc o) as [c|] eqn:Eq.
    - destruct (q_storage c).
      + destruct (q_block c && over (q_cap c) (el_size o n)); [apply Hnote, reject_Inv; auto|].
        destruct (over (q_cap c) _); [apply Hroom|].
        destruct (n =? o_badmarshal o); [apply Hnote, reject_Inv; auto|apply Hnote, accept_Inv; auto].
      + destruct (el_size o n =? 0) eqn:E0.
        * apply Hnote. apply Z.eqb_eq in E0. destruct (q_items_sizer c) eqn:Es.
          -- rewrite (el_size_items n c Eq Es) in E0. subst n. rewrite Z.add_0_r in HK. exact HK.
          -- rewrite (el_size_requests n c Eq Es) in E0. discriminate.
        * destruct (over (q_cap c) (el_size o n)); [apply Hnote, reject_Inv; auto|].
          destruct (over (q_cap c) _); [apply Hroom|apply Hnote, accept_Inv]; auto.
    - apply (work_Inv o Hsig). unfold Proofs2.Inv, push_flushes. cbn [s_flushq set_flushq].
      rewrite fsum_app. unfold fsum at 2. cbn [map fst sumZ]. rewrite Z.add_0_r. exact HK.
  Qed.

  Lemma gauge_Inv st : Inv st -> Inv (gauge st).
  Proof. exact (fun H => H). Qed.

  Lemma flush_cur_Inv st : Inv st -> Inv (flush_cur st).
  Proof.
    intros H. unfold flush_cur. destruct (s_cur st) as [b|] eqn:Ec; [|exact H].
    destruct H as (A & B & C). unfold Proofs2.Inv, Proofs2.K, infl_nf, push_flushes in *. cbn.
    rewrite fsum_app. unfold fsum at 2. cbn. rewrite Ec in A. cbn in A. repeat split; auto; lia.
  Qed.

  Lemma fold_offer_Inv ns st :
    Forall (fun n => 0 <= n) ns -> Inv st ->
    Inv (fold_left (fun s n => let s' := offer o s n in pump_closed o (S (length (s_queue s'))) s') ns st).
  Proof.
    revert st. induction ns as [|n ns IH]; intros st F H; cbn [fold_left]; [exact H|].
    inversion F; subst. apply IH; [assumption|]. apply pump_closed_Inv, offer_Inv; assumption.
  Qed.

  Lemma step_Inv st op : eop_nonneg op -> Inv st -> Inv (step o st op).
  Proof.
    intros Hop H. destruct op as [n|ns| |ns]; cbn [step]; cbv zeta; [| | |apply gauge_Inv, fold_offer_Inv; assumption].
    - apply gauge_Inv. destruct (is_wfr o).
      + apply run_quiet_Inv, flush_cur_Inv, run_quiet_Inv, offer_Inv; assumption.
      + apply run_quiet_Inv, offer_Inv; assumption.
    - apply gauge_Inv. match goal with |- context [run_quiet o (gauge ?X)] => assert (H2 : Inv (run_quiet o (gauge X))) by (apply run_quiet_Inv, gauge_Inv; apply fold_offer_Inv; assumption) end.
      destruct (is_wfr o); [apply run_quiet_Inv, flush_cur_Inv, H2|exact H2].
    - apply gauge_Inv, run_quiet_Inv, flush_cur_Inv, H.
  Qed.

  Lemma steps_Inv ops st : Forall eop_nonneg ops -> Inv st -> Inv (fold_left (step o) ops st).
  Proof.
    revert st. induction ops as [|op ops IH]; intros st F H; cbn [fold_left]; [exact H|].
    inversion F; subst. apply IH; [assumption|]. apply step_Inv; assumption.
  Qed.

  Lemma init_Inv outs : Inv (init_est outs).
  Proof. unfold Proofs2.Inv, Proofs2.K, infl_nf, qsum, fsum, cnt. cbn [init_est s_offered s_led s_queue s_cur s_hung s_flushq osum map sumZ lget]. repeat split; try lia; constructor. Qed.

  Lemma release_hung_Inv st : Inv st -> Inv (release_hung o st).
  Proof.
    intros H. unfold release_hung. destruct (s_hung st) as [[items ds]|] eqn:Eh; [|exact H].
    unfold Proofs2.Inv.
    match goal with |- Proofs2.K o (fire_all o RShutdown ds ?s) _ => set (s0 := s) end.
    destruct (fire_all_frame o Hsig RShutdown ds s0) as (_ & _ & Q & _). rewrite Q.
    eapply frame_K; [apply (fire_all_frame o Hsig)|].
    destruct H as (A & B & C). unfold Proofs2.K, infl_nf in *. subst s0. cbn.
    rewrite cnt_app, cnt_end_op by exact Hsig. rewrite Eh in A. cbn in A. repeat split; auto. lia.
  Qed.

  Lemma shutdown_Inv st : Inv st -> Inv (shutdown o st).
  Proof.
    intros H. unfold shutdown. apply (work_Inv o Hsig), flush_cur_Inv.
    assert (H1 : Inv (work o (release_hung o (set_down st)))) by (apply (work_Inv o Hsig), release_hung_Inv; exact H).
    destruct (is_storage o); [exact H1|apply run_quiet_Inv, H1].
  Qed.

  Lemma run_exporter_Inv outs ops : Forall eop_nonneg ops -> Inv (run_exporter o outs ops).
  Proof. intros F. apply shutdown_Inv, steps_Inv; [exact F|apply init_Inv]. Qed.

  (* ---------------- the state after shutdown: nothing is left in the volatile pipeline -------- *)

  (* "shut": the retry sender is down and nothing hangs *)
  Definition Shut (st : est) : Prop := s_down st = true /\ s_hung st = None.

  Lemma export_Shut st f : Shut st -> Shut (export o st f) /\ s_queue (export o st f) = s_queue st /\ s_cur (export o st f) = s_cur st.
  Proof.
    intros [D Hh]. destruct (export_frame2 o Hsig st f) as (A & B & C & D' & E & F).
    repeat split; auto; congruence.
  Qed.

  Lemma work_list_Shut fq st :
    Shut st ->
    let st' := work_list o fq st in
    Shut st' /\ s_flushq st' = [] /\ s_queue st' = s_queue st /\ s_cur st' = s_cur st.
  Proof.
    revert st. induction fq as [|f t IH]; intros st HS; cbn [work_list].
    - destruct HS. repeat split; auto.
    - destruct HS as [D Hh]. rewrite Hh.
      destruct (export_Shut st f (conj D Hh)) as (S1 & Q1 & C1).
      destruct (IH (export o st f) S1) as (S2 & F2 & Q2 & C2). cbn zeta in *.
      repeat split; try apply S2; auto; congruence.
  Qed.

  (* consume leaves the queue, the hang slot and the shutdown flag alone *)
  Definition frame3 (st st' : est) : Prop :=
    s_queue st' = s_queue st /\ s_hung st' = s_hung st /\ s_down st' = s_down st.

  Lemma frame_frame3 a b : frame o a b -> frame3 a b.
  Proof. unfold frame, frame3. intros (A1&A2&A3&A4&A5&A6&A7). auto. Qed.

  Lemma with_ref_frame3 st d l : frame3 st (with_ref st d l).
  Proof. unfold with_ref, frame3. destruct (1 <? Z.of_nat (length l)); cbn; auto. Qed.

  Lemma consume_frame3 st d : frame3 st (consume o st d).
  Proof.
    unfold consume. destruct (batch_cfg o) as [[mn mx]|]; [|unfold frame3; cbn; auto].
    destruct (s_cur st) as [[ci cd]|].
    - destruct (merge_split mx ci (Some (d_items d))) as [|first rest]; [apply frame_frame3, (fire_frame o Hsig)|].
      set (wl := if negb (1 <? Z.of_nat (length (first :: rest))) || negb (first =? ci) then first :: rest else rest).
      pose proof (with_ref_frame3 st d wl) as (A & B & C).
      destruct ((1 <? Z.of_nat (length (first :: rest))) || (mn <=? first)); destruct rest;
        try destruct (last _ 0 <? mn); unfold frame3; cbn; auto.
    - destruct (merge_split mx (d_items d) None) as [|a l]; [apply frame_frame3, (fire_frame o Hsig)|].
      pose proof (with_ref_frame3 st d (a :: l)) as (A & B & C).
      destruct (last (a :: l) 0 <? mn); unfold frame3; cbn; auto.
  Qed.

  Lemma pump_Shut f st :
    Shut st -> (length (s_queue st) < f)%nat ->
    let st' := pump o f st in Shut st' /\ s_flushq st' = [] /\ s_queue st' = [].
  Proof.
    revert st. induction f as [|f IH]; intros st HS Hf; [lia|]. cbn [pump].
    destruct (work_list_Shut (s_flushq st) st HS) as ([D Hh] & F & Q & C). cbn zeta in *.
    fold (work o st) in *. rewrite Hh.
    destruct (s_queue (work o st)) as [|p t] eqn:Eq.
    - repeat split; auto.
    - assert (HS1 : Shut (read_one o (work o st)) /\ s_queue (read_one o (work o st)) = t).
      { unfold read_one. rewrite Eq. destruct p as [id n].
        match goal with |- context [consume o ?s ?d] => destruct (consume_frame3 s d) as (A1 & A2 & A3) end.
        cbn in A1, A2, A3. unfold Shut. rewrite A1, A2, A3. auto. }
      destruct HS1 as [HS1 Q1]. apply IH; [exact HS1|]. rewrite Q1. rewrite <- Q in Hf. cbn in Hf. lia.
  Qed.

  Lemma shutdown_end st :
    let st' := shutdown o st in
    s_flushq st' = [] /\ s_hung st' = None /\ s_cur st' = None /\
    (is_storage o = false -> s_queue st' = []).
  Proof.
    unfold shutdown.
    set (st0 := release_hung o (set_down st)).
    assert (S0 : Shut st0).
    { unfold st0, release_hung. destruct (s_hung (set_down st)) as [[items ds]|] eqn:Eh.
      - match goal with |- Shut (fire_all o RShutdown ds ?s) => set (s0 := s) end.
        destruct (fire_all_frame o Hsig RShutdown ds s0) as (_ & _ & _ & Q4 & Q5 & _).
        unfold Shut. rewrite Q4, Q5. subst s0. cbn. auto.
      - unfold Shut. cbn. cbn in Eh. auto. }
    destruct (work_list_Shut (s_flushq st0) st0 S0) as (S1 & F1 & Q1 & C1). cbn zeta in *. fold (work o st0) in *.
    set (st2 := if is_storage o then work o st0 else run_quiet o (work o st0)).
    assert (S2 : Shut st2 /\ s_flushq st2 = [] /\ (is_storage o = false -> s_queue st2 = [])).
    { unfold st2. destruct (is_storage o).
      - repeat split; try apply S1; auto. discriminate.
      - destruct (pump_Shut (S (length (s_queue (work o st0)))) (work o st0) S1 ltac:(lia)) as (A & B & C).
        cbn zeta in *. repeat split; try apply A; auto. }
    destruct S2 as (S2 & F2 & Q2).
    assert (S3 : Shut (flush_cur st2) /\ s_cur (flush_cur st2) = None /\ s_queue (flush_cur st2) = s_queue st2).
    { unfold flush_cur. destruct (s_cur st2) eqn:E; cbn; repeat split; try apply S2; auto. }
    destruct S3 as (S3 & C3 & Q3).
    destruct (work_list_Shut (s_flushq (flush_cur st2)) (flush_cur st2) S3) as (S4 & F4 & Q4 & C4). cbn zeta in *.
    fold (work o (flush_cur st2)) in *.
    repeat split; try apply S4; auto; try congruence. intros Hs. rewrite Q4, Q3. auto.
  Qed.
End Exporter.
