(* C19/Proofs11.v — every Send that a queue refuses is counted enqueue_failed, whatever the reason:
   queue full, element too large, or (block_on_overflow) the producer gave up while waiting for room. *)
From Verif Require Import Common.Base C19.Model C19.Proofs1 C19.Proofs2.
Local Open Scope Z_scope.

Lemma enq_reject o st n :
  o_sig o <> Profiles ->
  lget (ExpEnqFailed (o_sig o)) (s_led (reject o st n)) = lget (ExpEnqFailed (o_sig o)) (s_led st) + n.
Proof. intros H. unfold reject, sg. cbn. rewrite lget_app. destruct (o_sig o); try congruence; cbn; lia. Qed.

Lemma refused_send_counted_l o st n c :
  o_sig o <> Profiles -> qc o = Some c -> is_wfr o = false ->
  let st' := offer o st n in
  let enq s := lget (ExpEnqFailed (o_sig o)) (s_led s) in
  (s_sends st' = s_sends st ++ [0] /\ enq st' = enq st) \/
  (exists k, s_sends st' = s_sends st ++ [k] /\ 1 <= k <= 4 /\
             enq st' = enq st + n /\ s_queue st' = s_queue st /\ s_qsize st' = s_qsize st /\
             (k = 3 -> q_block c = true) /\ (k = 1 -> q_block c = false)).
Proof.
  intros Hsig Hq Hw. cbn zeta. unfold offer. rewrite Hq.
  assert (Hrej : forall k, 1 <= k <= 4 -> (k = 3 -> q_block c = true) -> (k = 1 -> q_block c = false) ->
            exists k', s_sends (note_send o (reject o (add_offered st n) n) k) = s_sends st ++ [k'] /\ 1 <= k' <= 4 /\
              lget (ExpEnqFailed (o_sig o)) (s_led (note_send o (reject o (add_offered st n) n) k)) = lget (ExpEnqFailed (o_sig o)) (s_led st) + n /\
              s_queue (note_send o (reject o (add_offered st n) n) k) = s_queue st /\
              s_qsize (note_send o (reject o (add_offered st n) n) k) = s_qsize st /\
              (k' = 3 -> q_block c = true) /\ (k' = 1 -> q_block c = false)).
  { intros k Hk H3 H1. exists k. unfold note_send. rewrite Hw. cbn [s_sends s_led s_queue s_qsize].
    pose proof (enq_reject o (add_offered st n) n Hsig) as E. repeat split; auto; try lia. }
  assert (Hroom : exists k', s_sends (no_room o c (add_offered st n) n) = s_sends st ++ [k'] /\ 1 <= k' <= 4 /\
              lget (ExpEnqFailed (o_sig o)) (s_led (no_room o c (add_offered st n) n)) = lget (ExpEnqFailed (o_sig o)) (s_led st) + n /\
              s_queue (no_room o c (add_offered st n) n) = s_queue st /\ s_qsize (no_room o c (add_offered st n) n) = s_qsize st /\
              (k' = 3 -> q_block c = true) /\ (k' = 1 -> q_block c = false)).
  { unfold no_room. destruct (q_block c) eqn:Eb; apply Hrej; try lia; intros; congruence. }
  assert (Hacc : forall s, s_led s = s_led st -> s_sends s = s_sends st ->
            s_sends (note_send o s 0) = s_sends st ++ [0] /\
            lget (ExpEnqFailed (o_sig o)) (s_led (note_send o s 0)) = lget (ExpEnqFailed (o_sig o)) (s_led st)).
  { intros s E1 E2. unfold note_send. rewrite Hw. cbn. now rewrite E1, E2. }
  destruct (q_storage c).
  - destruct (q_block c && over (q_cap c) (el_size o n)); [right; apply Hrej; try lia; intros; lia|].
    destruct (over (q_cap c) _); [right; exact Hroom|].
    destruct (n =? o_badmarshal o); [right; apply Hrej; try lia; intros; lia|left; apply Hacc; reflexivity].
  - destruct (el_size o n =? 0); [left; apply Hacc; reflexivity|].
    destruct (over (q_cap c) (el_size o n)); [right; apply Hrej; try lia; intros; lia|].
    destruct (over (q_cap c) _); [right; exact Hroom|left; apply Hacc; reflexivity].
Qed.
