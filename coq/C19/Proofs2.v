(* C19/Proofs2.v — exporter helper: the items-accounting invariant of the pipeline model. *)
From Verif Require Import Common.Base C19.Model C19.Proofs1.
Local Open Scope Z_scope.

Definition cnt (s : signal) (l : ledger) : Z :=
  lget (ExpSent s) l + lget (ExpFailed s) l + lget (ExpEnqFailed s) l.

Lemma cnt_app s a b : cnt s (a ++ b) = cnt s a + cnt s b.
Proof. unfold cnt. rewrite !lget_app. lia. Qed.

Lemma cnt_end_op rc s n r : s <> Profiles -> cnt s (obs_end_op rc s n r) = n.
Proof. intros H. destruct rc, s, r; try congruence; unfold cnt; simpl; lia. Qed.

Lemma cnt_enq s n : s <> Profiles -> cnt s (obs_enqueue_failed s n) = n.
Proof. intros H. destruct s; try congruence; unfold cnt; simpl; lia. Qed.

Definition fsum (l : list flushrec) : Z := sumZ (map fst l).
Definition qsum (l : list (nat * Z)) : Z := sumZ (map snd l).
Definition osum (o : option flushrec) : Z := match o with Some f => fst f | None => 0 end.

Global Arguments qsum : simpl never.
Global Arguments fsum : simpl never.
Global Arguments cnt : simpl never.

Lemma fsum_app a b : fsum (a ++ b) = fsum a + fsum b.
Proof. unfold fsum. now rewrite map_app, sumZ_app. Qed.

Lemma qsum_app a b : qsum (a ++ b) = qsum a + qsum b.
Proof. unfold qsum. now rewrite map_app, sumZ_app. Qed.

(* items accepted by the pipeline and not yet attributed to a counter *)
Definition infl (st : est) : Z :=
  qsum (s_queue st) + osum (s_cur st) + fsum (s_flushq st) + osum (s_hung st).

(* ---- FakeRequest.MergeSplit conserves items ---------------------------------------------- *)
Lemma fr_split_sum fuel mx r :
  0 < mx -> 0 <= r -> (Z.to_nat r < fuel)%nat ->
  sumZ (fr_split fuel mx r) = r /\ Forall (fun x => 0 <= x) (fr_split fuel mx r).
Proof.
  revert r. induction fuel as [|f IH]; intros r Hmx Hr Hf; [lia|].
  cbn [fr_split]. destruct (r =? 0) eqn:E0.
  - apply Z.eqb_eq in E0. subst. split; [reflexivity|constructor].
  - apply Z.eqb_neq in E0. destruct (r <=? mx) eqn:E1.
    + split; [simpl; lia|repeat constructor; lia].
    + apply Z.leb_gt in E1. destruct (IH (r - mx)) as [HS F]; try lia.
      split; [simpl; lia|constructor; [lia|exact F]].
Qed.

Lemma merge_split_sum mx r r2 :
  0 <= mx -> 0 <= r -> (forall x, r2 = Some x -> 0 <= x) ->
  sumZ (merge_split mx r r2) = r + match r2 with Some x => x | None => 0 end /\
  Forall (fun x => 0 <= x) (merge_split mx r r2).
Proof.
  intros Hmx Hr H2. unfold merge_split.
  set (r' := match r2 with Some x => r + x | None => r end).
  assert (Hr' : 0 <= r') by (subst r'; destruct r2 as [x|]; [specialize (H2 x eq_refl)|]; lia).
  assert (Er' : r' = r + match r2 with Some x => x | None => 0 end) by (subst r'; destruct r2; lia).
  destruct (mx =? 0) eqn:E.
  - split; [simpl; lia|repeat constructor; lia].
  - apply Z.eqb_neq in E. destruct (fr_split_sum (S (Z.to_nat r')) mx r') as [HS F]; try lia.
    split; [lia|exact F].
Qed.

Lemma sumZ_last_removelast l : l <> [] -> sumZ (removelast l) + last l 0 = sumZ l.
Proof.
  induction l as [|a l IH]; [congruence|]. intros _. destruct l as [|b l]; [simpl; lia|].
  change (removelast (a :: b :: l)) with (a :: removelast (b :: l)).
  change (last (a :: b :: l) 0) with (last (b :: l) 0).
  cbn [sumZ]. specialize (IH ltac:(discriminate)). cbn [sumZ] in IH. lia.
Qed.

Lemma Forall_last_nonneg l : Forall (fun x => 0 <= x) l -> 0 <= last l 0.
Proof.
  induction l as [|a l IH]; intros F; [simpl; lia|]. inversion F; subst.
  destruct l; [simpl; lia|]. change (last (a :: z :: l) 0) with (last (z :: l) 0). auto.
Qed.

Lemma fsum_map_pair (ds : list done) l : fsum (map (fun x => (x, ds)) l) = sumZ l.
Proof. unfold fsum. rewrite map_map. simpl. now rewrite map_id. Qed.

Section Exporter.
  Variable o : eopts.
  Hypothesis Hsig : o_sig o <> Profiles.
  (* batch sizes are non-negative (BatchConfig.Validate / BatcherConfig.Validate) *)
  Hypothesis Hbatch : forall mn mx, batch_cfg o = Some (mn, mx) -> 0 <= mx.

  Notation sg := (sg o).

  (* items accepted and not yet attributed, NOT counting the flush queue *)
  Definition infl_nf (st : est) : Z := qsum (s_queue st) + osum (s_cur st) + osum (s_hung st).

  (* K st x: every item given to Send is attributed to one of the three counters, or inside the
     pipeline, or among the x items the caller holds (the flush queue is held by the caller) *)
  Definition K (st : est) (x : Z) : Prop :=
    s_offered st = cnt sg (s_led st) + infl_nf st + x /\
    0 <= osum (s_cur st) /\
    Forall (fun p => 0 <= snd p) (s_queue st).

  Definition Inv (st : est) : Prop := K st (fsum (s_flushq st)).

  Lemma K_set_flushq st q x : K st x -> K (set_flushq st q) x.
  Proof. exact (fun H => H). Qed.

  Ltac drop_flushq := match goal with |- K (set_flushq ?s ?q) ?x => change (K s x) end.

  (* -------- frames: what the small functions leave alone -------- *)
  Definition frame (st st' : est) : Prop :=
    s_queue st' = s_queue st /\ s_cur st' = s_cur st /\ s_flushq st' = s_flushq st /\ s_hung st' = s_hung st /\
    s_down st' = s_down st /\ s_offered st' = s_offered st /\
    cnt sg (s_led st') = cnt sg (s_led st).

  Lemma frame_refl st : frame st st.
  Proof. unfold frame. repeat split. Qed.

  Lemma frame_trans a b c : frame a b -> frame b c -> frame a c.
  Proof. unfold frame. intros (A1&A2&A3&A4&A5&A6&A7) (B1&B2&B3&B4&B5&B6&B7). repeat split; congruence. Qed.

  Lemma frame_K a b x : frame a b -> K a x -> K b x.
  Proof.
    unfold frame, K, infl_nf. intros (A1&A2&A3&A4&A5&A6&A7) (B1&B2&B3).
    rewrite A1, A2, A4, A6. repeat split; auto. lia.
  Qed.

  Lemma on_done_frame d r st : frame st (on_done o d r st).
  Proof using Hsig. (* the signature of the lemmas built on this one is kept *)
    unfold frame, on_done. cbn. repeat split.
  Qed.

  Lemma set_ref_frame st r : frame st (set_ref st r).
  Proof. unfold frame. cbn. repeat split. Qed.

  Lemma fire_frame r st d : frame st (fire o r st d).
  Proof.
    unfold fire. destruct (ref_lookup (d_id d) (s_ref st)) as [[d0 [c a]]|].
    - destruct (c <=? 1).
      + eapply frame_trans; [apply set_ref_frame|apply on_done_frame].
      + apply set_ref_frame.
    - apply on_done_frame.
  Qed.

  Lemma fire_all_frame r ds st : frame st (fire_all o r ds st).
  Proof.
    unfold fire_all. revert st. induction ds as [|d ds IH]; intros st; cbn [fold_left].
    - apply frame_refl.
    - eapply frame_trans; [apply fire_frame|apply IH].
  Qed.

  Lemma retry_send_down_not_hung r outs : fst (retry_send r true outs) <> XHung.
  Proof.
    induction outs as [|a l IH]; cbn; [discriminate|].
    destruct a; destruct r; cbn; try discriminate; auto.
  Qed.

  (* -------- export: the batch leaves the caller's hands -------- *)
  Lemma export_K st f x :
    s_hung st = None -> K st (fst f + x) -> K (export o st f) x.
  Proof.
    intros Hh HK. unfold export. destruct f as [items ds]. cbn [fst] in HK.
    destruct (retry_send (o_retry o) (s_down st) (s_outs st)) as [[r|] outs'].
    - eapply frame_K; [apply fire_all_frame|].
      destruct HK as (A & B & C). unfold K, infl_nf in *. cbn.
      rewrite cnt_app, cnt_end_op by exact Hsig. repeat split; auto. lia.
    - destruct HK as (A & B & C). unfold K, infl_nf in *. cbn. rewrite Hh in A. cbn in A.
      repeat split; auto. lia.
  Qed.

  (* fields the export leaves alone *)
  Definition frame2 (st st' : est) : Prop :=
    s_queue st' = s_queue st /\ s_cur st' = s_cur st /\ s_flushq st' = s_flushq st /\ s_down st' = s_down st /\
    s_offered st' = s_offered st /\
    (s_down st = true -> s_hung st = None -> s_hung st' = None).

  Lemma frame_frame2 a b : frame a b -> frame2 a b.
  Proof. unfold frame, frame2. intros (A1&A2&A3&A4&A5&A6&A7). repeat split; try congruence. Qed.

  Lemma frame2_trans a b c : frame2 a b -> frame2 b c -> frame2 a c.
  Proof.
    unfold frame2. intros (A1&A2&A3&A4&A5&A6) (B1&B2&B3&B4&B5&B6). repeat split; try congruence.
    intros Hd Hh. apply B6; [congruence|auto].
  Qed.

  Lemma export_frame2 st f : frame2 st (export o st f).
  Proof.
    unfold export. destruct f as [items ds].
    destruct (retry_send (o_retry o) (s_down st) (s_outs st)) as [[r|] outs'] eqn:E.
    - eapply frame2_trans; [|apply frame_frame2, fire_all_frame].
      unfold frame2. cbn. repeat split; auto.
    - unfold frame2. cbn. repeat split; auto. intros Hd _. exfalso. rewrite Hd in E.
      apply (retry_send_down_not_hung (o_retry o) (s_outs st)). now rewrite E.
  Qed.

  (* -------- the worker -------- *)
  Lemma work_list_K fq st : K st (fsum fq) -> Inv (work_list o fq st).
  Proof.
    revert st. induction fq as [|f t IH]; intros st H; cbn [work_list].
    - exact H.
    - destruct (s_hung st) eqn:Hh.
      + exact H.
      + apply IH. apply export_K; [exact Hh|]. exact H.
  Qed.

  Lemma work_Inv st : Inv st -> Inv (work o st).
  Proof. intros H. apply work_list_K. exact H. Qed.

  Lemma push_flushes_K st l x : K st (fsum l + x) -> K (push_flushes st l) x -> True.
  Proof. trivial. Qed.

  (* Inv after pushing flushes the caller was holding *)
  Lemma push_Inv st l x : K st (fsum (s_flushq st) + fsum l + x) -> K (push_flushes st l) (fsum (s_flushq (push_flushes st l)) + x).
  Proof. unfold push_flushes. cbn. rewrite fsum_app. exact (fun H => H). Qed.

  Lemma with_ref_K st d l x : K st x -> K (with_ref st d l) x.
  Proof. unfold with_ref. destruct (1 <? Z.of_nat (length l)); auto. Qed.

  Lemma with_ref_flushq st d l : s_flushq (with_ref st d l) = s_flushq st.
  Proof. unfold with_ref. destruct (1 <? Z.of_nat (length l)); reflexivity. Qed.

  Lemma with_ref_cur st d l : s_cur (with_ref st d l) = s_cur st.
  Proof. unfold with_ref. destruct (1 <? Z.of_nat (length l)); reflexivity. Qed.

  (* K with a different current batch *)
  Lemma K_set_cur st c x :
    0 <= osum c -> K st (x + osum c - osum (s_cur st)) -> K (set_cur st c) x.
  Proof.
    intros Hc (A & B & C). unfold K, infl_nf in *. cbn. repeat split; auto. lia.
  Qed.

  (* -------- the batcher: a request taken from the queue is re-partitioned, not lost -------- *)
  Lemma consume_Inv st d :
    0 <= d_items d -> K st (fsum (s_flushq st) + d_items d) -> Inv (consume o st d).
  Proof.
    intros Hd HK. unfold consume. destruct (batch_cfg o) as [[mn mx]|] eqn:Eb.
    2:{ unfold Inv, push_flushes. cbn. rewrite fsum_app. unfold fsum at 2. cbn. rewrite Z.add_0_r. exact HK. }
    specialize (Hbatch mn mx eq_refl).
    destruct (s_cur st) as [[ci cd]|] eqn:Ec.
    - (* merge into the current batch *)
      assert (Hci : 0 <= ci) by (destruct HK as (_ & B & _); rewrite Ec in B; exact B).
      destruct (merge_split_sum mx ci (Some (d_items d)) Hbatch Hci) as [HS F];
        [intros x Hx; inversion Hx; subst; exact Hd|].
      destruct (merge_split mx ci (Some (d_items d))) as [|first rest] eqn:El.
      + (* nothing to send: ci + items = 0 *)
        cbn in HS. assert (d_items d = 0) by lia.
        unfold Inv. eapply frame_K; [apply fire_frame|].
        destruct (fire_frame ROk st d) as (_ & _ & Q & _). rewrite Q.
        replace (fsum (s_flushq st)) with (fsum (s_flushq st) + d_items d) by lia. exact HK.
      + cbn [sumZ] in HS. inversion F as [|? ? F1 F2]; subst.
        set (fhn := negb (1 <? Z.of_nat (length (first :: rest))) || negb (first =? ci)).
        set (st1 := with_ref st d (if fhn then first :: rest else rest)).
        assert (HK1 : K st1 (fsum (s_flushq st) + d_items d)) by (apply with_ref_K; exact HK).
        assert (Hq1 : s_flushq st1 = s_flushq st) by apply with_ref_flushq.
        assert (Hc1 : s_cur st1 = Some (ci, cd)) by (unfold st1; rewrite with_ref_cur; exact Ec).
        set (cur' := (first, if fhn then cd ++ [d] else cd)).
        set (ff := (1 <? Z.of_nat (length (first :: rest))) || (mn <=? first)).
        set (st2 := if ff then push_flushes (set_cur st1 None) [cur'] else set_cur st1 (Some cur')).
        (* after placing the first part: the caller still holds the rest *)
        assert (HK2 : K st2 (fsum (s_flushq st2) + sumZ rest)).
        { unfold st2. destruct ff.
          - unfold push_flushes. cbn [s_flushq set_flushq set_cur]. rewrite fsum_app. unfold fsum at 2. cbn [map fst sumZ cur'].
            drop_flushq. apply K_set_cur; [cbn [osum fst]; lia|]. rewrite Hc1. cbn [osum fst]. rewrite Hq1.
            eapply (eq_ind _ (K st1) HK1). lia.
          - cbn [s_flushq set_cur]. apply K_set_cur; [unfold cur'; cbn [osum fst]; lia|]. rewrite Hc1, Hq1. unfold cur'. cbn [osum fst].
            eapply (eq_ind _ (K st1) HK1). lia. }
        assert (Hc2 : rest <> [] -> s_cur st2 = None).
        { intros Hr. unfold st2, ff. destruct rest; [congruence|]. cbn [length].
          replace (1 <? Z.of_nat (S (S (length rest)))) with true by (symmetry; apply Z.ltb_lt; lia).
          reflexivity. }
        destruct rest as [|r0 rest'] eqn:Er.
        * unfold Inv. cbn in HK2. rewrite Z.add_0_r in HK2. exact HK2.
        * specialize (Hc2 ltac:(discriminate)).
          assert (Hl : 0 <= last (r0 :: rest') 0) by (apply Forall_last_nonneg; exact F2).
          pose proof (sumZ_last_removelast (r0 :: rest') ltac:(discriminate)) as SL.
          destruct (last (r0 :: rest') 0 <? mn).
          -- unfold Inv, push_flushes. cbn [s_flushq set_flushq set_cur]. rewrite fsum_app, fsum_map_pair.
             drop_flushq. apply K_set_cur; [cbn [osum fst]; lia|]. rewrite Hc2. cbn [osum fst].
             eapply (eq_ind _ (K st2) HK2). lia.
          -- unfold Inv, push_flushes. cbn [s_flushq set_flushq]. rewrite fsum_app, fsum_map_pair.
             drop_flushq. exact HK2.
    - (* no current batch *)
      destruct (merge_split_sum mx (d_items d) None Hbatch Hd) as [HS F]; [discriminate|].
      rewrite Z.add_0_r in HS.
      destruct (merge_split mx (d_items d) None) as [|a l] eqn:El.
      + cbn in HS. unfold Inv. eapply frame_K; [apply fire_frame|].
        destruct (fire_frame ROk st d) as (_ & _ & Q & _). rewrite Q.
        replace (fsum (s_flushq st)) with (fsum (s_flushq st) + d_items d) by lia. exact HK.
      + set (st1 := with_ref st d (a :: l)).
        assert (HK1 : K st1 (fsum (s_flushq st) + d_items d)) by (apply with_ref_K; exact HK).
        assert (Hq1 : s_flushq st1 = s_flushq st) by apply with_ref_flushq.
        assert (Hc1 : s_cur st1 = None) by (unfold st1; rewrite with_ref_cur; exact Ec).
        assert (Hl : 0 <= last (a :: l) 0) by (apply Forall_last_nonneg; exact F).
        pose proof (sumZ_last_removelast (a :: l) ltac:(discriminate)) as SL.
        destruct (last (a :: l) 0 <? mn).
        * unfold Inv, push_flushes. cbn [s_flushq set_flushq set_cur]. rewrite fsum_app, fsum_map_pair.
          drop_flushq. apply K_set_cur; [cbn [osum fst]; lia|]. rewrite Hc1, Hq1. cbn [osum fst].
          eapply (eq_ind _ (K st1) HK1). lia.
        * unfold Inv, push_flushes. cbn [s_flushq set_flushq]. rewrite fsum_app, fsum_map_pair.
          drop_flushq. rewrite Hq1. eapply (eq_ind _ (K st1) HK1). lia.
  Qed.
End Exporter.
