(* C19/Proofs13.v — the model's own observations pass the clause checker (Checker.v): the checker demands
   nothing the model does not deliver, so its verdicts and the theorems speak about the same thing. *)
From Verif Require Import Common.Base C19.Model C19.Proofs1 C19.Proofs9 C19.Checker.
Local Open Scope Z_scope.

(* the observation the harness would print if the implementation behaved exactly like the model *)
Definition observe (c : vcase) : vcase :=
  match c with
  | CRecv rc ops _ => CRecv rc ops (fst (model_out c))
  | CScr rc k ops _ => CScr rc k ops (fst (model_out c))
  | CProc s ops _ => CProc s ops (fst (model_out c))
  | CPipe s ops _ => CPipe s ops (fst (model_out c))
  | CExp cfg outs ops _ _ _ => CExp cfg outs ops (fst (model_out c)) (fst (snd (model_out c))) (snd (snd (model_out c)))
  end.

Lemma sig_eqb_T s : signal_eqb (sig_of_Z s) Traces = (s =? 0).
Proof. unfold sig_of_Z. destruct (Z.eqb_spec s 0), (Z.eqb_spec s 1), (Z.eqb_spec s 2); subst; try lia; reflexivity. Qed.
Lemma sig_eqb_M s : signal_eqb (sig_of_Z s) Metrics = (s =? 1).
Proof. unfold sig_of_Z. destruct (Z.eqb_spec s 0), (Z.eqb_spec s 1), (Z.eqb_spec s 2); subst; try lia; reflexivity. Qed.
Lemma sig_eqb_L s : signal_eqb (sig_of_Z s) Logs = (s =? 2).
Proof. unfold sig_of_Z. destruct (Z.eqb_spec s 0), (Z.eqb_spec s 1), (Z.eqb_spec s 2); subst; try lia; reflexivity. Qed.

(* ---- receiver: every history, no guard ------------------------------------------------------------- *)
Lemma recv_sum_acc rc ops t k :
  (forall s, signal_eqb (sig_of_Z s) t = (s =? k)) ->
  sumZ (map ro_n (filter (fun o => signal_eqb (ro_sig o) t && negb (ro_err o)) (recv_ops rc ops))) = sum_if (rsig k false) ritems ops /\
  sumZ (map ro_n (filter (fun o => signal_eqb (ro_sig o) t && ro_err o) (recv_ops rc ops))) = sum_if (rsig k true) ritems ops.
Proof.
  intros Hs. unfold sum_if, recv_ops, rsig, ritems. induction ops as [|[s [n e]] ops [I1 I2]]; [split; reflexivity|].
  simpl. rewrite Hs. destruct (s =? k), e; simpl; split; try assumption; lia.
Qed.

Lemma model_recv_ok rc ops : recv_ok ops (vec (recv_run (recv_ops rc ops))) = true.
Proof.
  apply recv_ok_spec. unfold recv_clause.
  set (l := recv_run (recv_ops rc ops)).
  destruct (recv_sum_acc rc ops Traces 0 sig_eqb_T) as [A0 R0].
  destruct (recv_sum_acc rc ops Metrics 1 sig_eqb_M) as [A1 R1].
  destruct (recv_sum_acc rc ops Logs 2 sig_eqb_L) as [A2 R2].
  repeat split.
  - change (at_ 0 (vec l)) with (lget (RecvAccepted Traces) l). unfold l. rewrite recv_run_acc by discriminate. exact A0.
  - change (at_ 1 (vec l)) with (lget (RecvRefused Traces) l). unfold l. rewrite recv_run_ref by discriminate. exact R0.
  - change (at_ 2 (vec l)) with (lget (RecvAccepted Metrics) l). unfold l. rewrite recv_run_acc by discriminate. exact A1.
  - change (at_ 3 (vec l)) with (lget (RecvRefused Metrics) l). unfold l. rewrite recv_run_ref by discriminate. exact R1.
  - change (at_ 4 (vec l)) with (lget (RecvAccepted Logs) l). unfold l. rewrite recv_run_acc by discriminate. exact A2.
  - change (at_ 5 (vec l)) with (lget (RecvRefused Logs) l). unfold l. rewrite recv_run_ref by discriminate. exact R2.
  - intros i Hi Hk. unfold instr_idx in Hi. cbn [In] in Hi.
    repeat (destruct Hi as [ <- | Hi ]; [try (exfalso; apply Hk; cbn; tauto); unfold at_, vec; cbn [nth map universe]; apply recv_run_foreign; reflexivity|]).
    destruct Hi.
Qed.

(* ---- processor: every history, signal 0..2 --------------------------------------------------------------- *)
Lemma model_proc_ok s ops : 0 <= s <= 2 -> proc_ok s ops (vec (proc_run (sig_of_Z s) (proc_ops ops))) = true.
Proof.
  intros Hs. apply proc_ok_spec. unfold proc_clause.
  set (l := proc_run (sig_of_Z s) (proc_ops ops)).
  assert (Ein : sumZ (map po_in (proc_ops ops)) = sumZ (map proc_in ops)).
  { unfold proc_ops. rewrite map_map. f_equal. apply map_ext. intros [nin [rk [nout ne]]]. reflexivity. }
  assert (Eout : sumZ (map proc_forwarded (proc_ops ops)) = sumZ (map proc_fwd ops)).
  { unfold proc_ops. rewrite map_map. f_equal. apply map_ext. intros [nin [rk [nout ne]]]. unfold proc_forwarded, proc_fwd. cbn.
    destruct (rk =? 0); [reflexivity|]. destruct (rk =? 1); reflexivity. }
  assert (Hc : s = 0 \/ s = 1 \/ s = 2) by lia.
  destruct Hc as [ -> | [ -> | -> ] ]; repeat match goal with |- context [Z.to_nat ?z] => let v := eval vm_compute in (Z.to_nat z) in change (Z.to_nat z) with v end; cbn [Nat.add Nat.mul]; (split; [|split]).
  all: try (unfold at_, vec; cbn [nth map universe]; subst l; rewrite proc_run_in;
            match goal with |- context [signal_eqb ?a ?b] => replace (signal_eqb a b) with true by reflexivity end; exact Ein).
  all: try (unfold at_, vec; cbn [nth map universe]; subst l; rewrite proc_run_out;
            match goal with |- context [signal_eqb ?a ?b] => replace (signal_eqb a b) with true by reflexivity end; exact Eout).
  all: intros i Hi Hk; unfold instr_idx in Hi; cbn [In] in Hi;
     repeat (destruct Hi as [ <- | Hi ]; [try (exfalso; apply Hk; cbn; tauto); unfold at_, vec; cbn [nth map universe]; subst l;
        first [apply proc_run_foreign; reflexivity | rewrite proc_run_in; reflexivity | rewrite proc_run_out; reflexivity]|]); destruct Hi.
Qed.

(* ---- pipeline: every history, signal 0..3 ----------------------------------------------------------------- *)
Lemma model_pipe_ok s ops : 0 <= s <= 3 -> pipe_ok s ops (vec (pipe_run (sig_of_Z s) (pipe_ops ops))) = true.
Proof.
  intros Hs. apply pipe_ok_spec. unfold pipe_clause.
  set (l := pipe_run (sig_of_Z s) (pipe_ops ops)).
  assert (E1 : sumZ (map pc_n (filter (fun o => negb (pc_err o)) (pipe_ops ops))) = sum_if (fun p => negb (snd (snd p))) fst ops).
  { unfold sum_if, pipe_ops. induction ops as [|[n [a e]] ops IH]; [reflexivity|]. simpl. destruct e; simpl; first [exact IH | f_equal; exact IH | rewrite IH; reflexivity | (unfold sum_if in *; simpl in *; lia)]. }
  assert (E2 : sumZ (map pc_n (filter pc_err (pipe_ops ops))) = sum_if (fun p => snd (snd p)) fst ops).
  { unfold sum_if, pipe_ops. induction ops as [|[n [a e]] ops IH]; [reflexivity|]. simpl. destruct e; simpl; first [exact IH | f_equal; exact IH | rewrite IH; reflexivity | (unfold sum_if in *; simpl in *; lia)]. }
  assert (Hc : s = 0 \/ s = 1 \/ s = 2 \/ s = 3) by lia.
  destruct Hc as [ -> | [ -> | [ -> | -> ] ] ]; repeat match goal with |- context [Z.to_nat ?z] => let v := eval vm_compute in (Z.to_nat z) in change (Z.to_nat z) with v end; cbn [Nat.add Nat.mul]; (split; [|split]).
  all: try (unfold at_, vec; cbn [nth map universe]; subst l; rewrite pipe_run_ok;
            match goal with |- context [signal_eqb ?a ?b] => replace (signal_eqb a b) with true by reflexivity end; exact E1).
  all: try (unfold at_, vec; cbn [nth map universe]; subst l; rewrite pipe_run_fail;
            match goal with |- context [signal_eqb ?a ?b] => replace (signal_eqb a b) with true by reflexivity end; exact E2).
  all: intros i Hi Hk; unfold instr_idx in Hi; cbn [In] in Hi;
     repeat (destruct Hi as [ <- | Hi ]; [try (exfalso; apply Hk; cbn; tauto); unfold at_, vec; cbn [nth map universe]; subst l;
        first [apply pipe_run_foreign; reflexivity | rewrite pipe_run_ok; reflexivity | rewrite pipe_run_fail; reflexivity]|]); destruct Hi.
Qed.

(* ---- scraper: the METRICS controller, every history (the logs controller fails the own-signal clause: S5) -- *)
Definition is_scr_counter (c : counter) : bool :=
  match c with ScrScraped _ | ScrErrored _ | SpanScraped _ | SpanErrored _ => true | _ => false end.

Lemma scr_run_foreign rc k ops c : is_recv_counter c = false -> is_scr_counter c = false -> lget c (scr_run rc k ops) = 0.
Proof.
  intros H1 H2. unfold scr_run. rewrite lget_flat_map. induction ops as [|o ops IH]; [reflexivity|].
  cbn [map sumZ]. rewrite IH. unfold scrape. rewrite lget_app, lget_flat_map.
  assert (E : sumZ (map (fun x => lget c (scr_wrap rc k x)) (so_res o)) = 0).
  { induction (so_res o) as [|r rs IHr]; [reflexivity|]. cbn [map sumZ]. rewrite IHr.
    destruct c, k, rc; simpl in *; try discriminate; lia. }
  rewrite E. destruct c, rc, (so_err o); simpl in *; try discriminate; lia.
Qed.

Definition scr_wire_ok (p : Z * (Z * (Z * Z))) : Prop := let '(_, (_, (ek, _))) := p in 0 <= ek <= 2.

Lemma scr_offered_wire rs : Forall scr_wire_ok rs -> scr_offered (map scr_res_of rs) = sumZ (map scr_item_offered rs).
Proof.
  unfold scr_offered. induction rs as [|[it [mc [ek f]]] rs IH]; intros F; [reflexivity|].
  inversion F as [|? ? F1 F2]; subst. cbn in F1. specialize (IH F2).
  assert (Hc : ek = 0 \/ ek = 1 \/ ek = 2) by lia.
  destruct Hc as [ -> | [ -> | -> ] ]; simpl; rewrite <- IH; reflexivity.
Qed.

Lemma scr_failed_wire rs : Forall scr_wire_ok rs -> sumZ (map scr_errored_of (map scr_res_of rs)) = sumZ (map scr_failed rs).
Proof.
  induction rs as [|[it [mc [ek f]]] rs IH]; intros F; [reflexivity|].
  inversion F as [|? ? F1 F2]; subst. cbn in F1. specialize (IH F2).
  assert (Hc : ek = 0 \/ ek = 1 \/ ek = 2) by lia.
  destruct Hc as [ -> | [ -> | -> ] ]; simpl; rewrite <- IH; reflexivity.
Qed.

Definition scr_ops_ok (ops : list (list (Z * (Z * (Z * Z))) * bool)) : Prop := Forall (fun o => Forall scr_wire_ok (fst o)) ops.

Lemma scr_ops_offered ops : scr_ops_ok ops -> map (fun o => scr_offered (so_res o)) (scr_ops ops) = map scr_op_offered ops.
Proof.
  unfold scr_ops, scr_ops_ok. induction ops as [|[rs e] ops IH]; intros F; [reflexivity|].
  inversion F as [|? ? F1 F2]; subst. cbn [map so_res fst]. f_equal; [|exact (IH F2)].
  unfold scr_op_offered. cbn [fst]. apply (scr_offered_wire rs F1).
Qed.

Lemma scr_ops_filter (p : bool -> bool) ops :
  filter (fun o => p (so_err o)) (scr_ops ops) = scr_ops (filter (fun o => p (snd o)) ops).
Proof.
  unfold scr_ops. induction ops as [|[rs e] ops IH]; [reflexivity|]. cbn [map filter so_err snd]. destruct (p e); cbn [map]; rewrite IH; reflexivity.
Qed.

Lemma filter_ok (p : bool -> bool) ops : scr_ops_ok ops -> scr_ops_ok (filter (fun o => p (snd o)) ops).
Proof.
  unfold scr_ops_ok. induction ops as [|o ops IH]; intros F; [constructor|]. inversion F; subst. cbn [filter].
  destruct (p (snd o)); [constructor; auto|auto].
Qed.

Lemma sum_split {A} (p : A -> bool) (f : A -> Z) l : sumZ (map f l) = sum_if (fun x => negb (p x)) f l + sum_if p f l.
Proof. unfold sum_if. induction l as [|a l IH]; [reflexivity|]. cbn [map filter sumZ]. destruct (p a); cbn [negb map sumZ]; lia. Qed.

Lemma model_scr_metrics_ok rc ops : scr_ops_ok ops -> scr_ok 0 ops (vec (scr_run rc KMetrics (scr_ops ops))) = true.
Proof.
  intros F. apply scr_ok_spec. unfold scr_clause. cbn [Z.eqb].
  set (l := scr_run rc KMetrics (scr_ops ops)).
  destruct (scr_run_metric_points rc KMetrics (scr_ops ops)) as (Atot & Aok & Aoth). fold l in Atot, Aok, Aoth.
  destruct (scr_run_scraped rc KMetrics (scr_ops ops)) as (_ & Aerr). fold l in Aerr. cbn [sig_of_kind] in Aerr.
  assert (E1 : scr_total_ok (scr_ops ops) = sum_if (fun o => negb (snd o)) scr_op_offered ops /\
               scr_total (scr_ops ops) = sum_if (fun o => negb (snd o)) scr_op_offered ops + sum_if (fun o => snd o) scr_op_offered ops).
  { split.
    - unfold scr_total_ok. rewrite (scr_ops_filter negb ops), (scr_ops_offered _ (filter_ok negb ops F)). reflexivity.
    - unfold scr_total. rewrite (scr_ops_offered ops F). apply (sum_split (fun o => snd o)). }
  destruct E1 as [E1 E2].
  assert (E3 : sumZ (map (fun o => sumZ (map scr_errored_of (so_res o))) (scr_ops ops)) = sumZ (map (fun o => sumZ (map scr_failed (fst o))) ops)).
  { unfold scr_ops. clear - F. induction ops as [|[rs e] ops IH]; [reflexivity|]. inversion F as [|? ? F1 F2]; subst. cbn [fst] in F1.
    simpl. rewrite (scr_failed_wire rs F1), (IH F2). reflexivity. }
  split; [|split; [|split]].
  - change (at_ 2 (vec l)) with (lget (RecvAccepted Metrics) l). lia.
  - change (at_ 3 (vec l)) with (lget (RecvRefused Metrics) l). lia.
  - change (at_ 7 (vec l)) with (lget (ScrErrored Metrics) l). lia.
  - intros i Hi Hk. unfold instr_idx in Hi. cbn [In] in Hi.
    repeat (destruct Hi as [ <- | Hi ]; [try (exfalso; apply Hk; cbn; tauto); unfold at_, vec; cbn [nth map universe]; subst l;
       first [apply scr_run_foreign; reflexivity | apply (Aoth Traces ltac:(discriminate)) | apply (Aoth Logs ltac:(discriminate))]|]); destruct Hi.
Qed.

(* the logs controller does NOT pass the own-signal clause (finding S5): the checker says so on the witness *)
Lemma model_scr_logs_fails : scr_ok 1 [([(14, (0, (0, 0)))], false)] (vec (scr_run true KLogs (scr_ops [([(14, (0, (0, 0)))], false)]))) = false.
Proof. vm_compute. reflexivity. Qed.

(* ---- exporter: clause by clause ---------------------------------------------------------------------------- *)
From Verif Require Import C19.Proofs2 C19.Proofs3 C19.Proofs4 C19.Proofs8 C19.Proofs10.

(* capacity gauge = configured capacity: every configuration *)
Lemma model_exp_capacity cfg : gauge_capacity (eopts_of cfg) = cfg_capacity cfg.
Proof.
  unfold gauge_capacity, qc, new_queue_batch_config, cfg_capacity, eopts_of. cbn [o_batcher o_queue o_cap].
  destruct (zb (nth 9 cfg 0)), (zb (nth 1 cfg 0)); reflexivity.
Qed.

(* no instrument other than the three of the exporter's own signal moves: every configuration and history *)
Section OnlyOwn.
  Variable o : eopts.
  Definition only_own (l : ledger) : Prop :=
    forall c, is_span_counter c = false -> c <> ExpSent (o_sig o) -> c <> ExpFailed (o_sig o) -> c <> ExpEnqFailed (o_sig o) -> lget c l = 0.

  Lemma only_own_end_op l n r : only_own l -> only_own (l ++ obs_end_op (o_tracing o) (o_sig o) n r).
  Proof.
    intros H c Hc H1 H2 H3. rewrite lget_app, (H c Hc H1 H2 H3).
    unfold obs_end_op. destruct (o_sig o) eqn:Es; destruct (o_tracing o); cbn [app lget];
      rewrite ?(counter_eqb_neq _ _ H1), ?(counter_eqb_neq _ _ H2); destruct c; simpl in *; try discriminate; lia.
  Qed.

  Lemma only_own_enq l n : only_own l -> only_own (l ++ obs_enqueue_failed (o_sig o) n).
  Proof.
    intros H c Hc H1 H2 H3. rewrite lget_app, (H c Hc H1 H2 H3). unfold obs_enqueue_failed.
    destruct (o_sig o) eqn:Es; cbn [lget]; rewrite ?(counter_eqb_neq _ _ H3); lia.
  Qed.

  Lemma run_only_own outs ops : only_own (s_led (run_exporter o outs ops)).
  Proof. exact (run_exporter_SP o only_own only_own_end_op only_own_enq (fun c _ _ _ _ => eq_refl) outs ops). Qed.
End OnlyOwn.

(* ---- all non-exporter kinds in one statement ---------------------------------------------------------------- *)
Definition wf_case (c : vcase) : Prop :=
  match c with
  | CRecv _ _ _ => True
  | CScr _ k ops _ => k = 0 /\ scr_ops_ok ops          (* metrics controller; the logs controller is finding S5 *)
  | CProc s _ _ => 0 <= s <= 2
  | CPipe s _ _ => 0 <= s <= 3
  | CExp _ _ _ _ _ _ => False                          (* exporter: clause by clause, see below *)
  end.

Lemma model_passes_checker_l c : wf_case c -> prop_ok (observe c) = true.
Proof.
  destruct c as [rc ops obs|rc k ops obs|s ops obs|s ops obs|cfg outs ops obs g x]; cbn [wf_case observe prop_ok model_out fst].
  - intros _. apply model_recv_ok.
  - intros [-> F]. apply (model_scr_metrics_ok rc ops F).
  - intros H. apply model_proc_ok. exact H.
  - intros H. apply model_pipe_ok. exact H.
  - intros [].
Qed.
