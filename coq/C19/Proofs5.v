(* C19/Proofs5.v — exporter helper on a persistent queue WITHOUT a batcher: the stored items are
   the unread requests plus the requests kept by a shutdown-class OnDone. *)
From Verif Require Import Common.Base C19.Model C19.Proofs1 C19.Proofs2 C19.Proofs3 C19.Proofs4.
Local Open Scope Z_scope.

Definition wff (f : flushrec) : Prop := exists d, f = (d_items d, [d]).
Definition wfo (h : option flushrec) : Prop := match h with Some f => wff f | None => True end.

Section Storage.
  Variable o : eopts.
  Hypothesis Hst : is_storage o = true.
  Hypothesis Hnb : batch_cfg o = None.

  (* x = items of the flushes the caller holds *)
  Definition TT (st : est) (x : Z) : Prop :=
    s_ref st = [] /\ s_cur st = None /\ wfo (s_hung st) /\
    s_stored st - s_kept st = qsum (s_queue st) + osum (s_hung st) + x /\
    s_kept st = s_shut st.

  Definition T (st : est) : Prop := TT st (fsum (s_flushq st)) /\ Forall wff (s_flushq st).

  Lemma export_TT st f x : s_hung st = None -> wff f -> TT st (fst f + x) -> TT (export o st f) x.
  Proof.
    intros Hh [d ->] (A & B & C & D & E). unfold export. cbn [fst] in D.
    destruct (retry_send (o_retry o) (s_down st) (s_outs st)) as [[r|] outs'].
    - cbn [fire_all fold_left]. unfold fire. cbn [s_ref]. rewrite A. cbn [ref_lookup].
      unfold TT, on_done. rewrite Hst. cbn. rewrite Hh in *. cbn in D.
      destruct r; cbn; repeat split; auto; lia.
    - unfold TT. cbn. rewrite Hh in D. cbn in D. repeat split; auto; [exists d; reflexivity|lia].
  Qed.

  Lemma work_list_T fq st : Forall wff fq -> TT st (fsum fq) -> T (work_list o fq st).
  Proof.
    revert st. induction fq as [|f t IH]; intros st F H; cbn [work_list].
    - split; [exact H|constructor].
    - destruct (s_hung st) eqn:Hh.
      + split; [exact H|exact F].
      + inversion F; subst. apply IH; [assumption|]. apply export_TT; auto.
  Qed.

  Lemma work_T st : T st -> T (work o st).
  Proof. intros [H F]. apply work_list_T; assumption. Qed.

  Lemma read_one_T st : T st -> T (read_one o st).
  Proof.
    intros [(A & B & C & D & E) F]. unfold read_one. destruct (s_queue st) as [|[id n] t] eqn:Eq.
    - split; [repeat split; auto; rewrite Eq; exact D|exact F].
    - unfold consume. rewrite Hnb. unfold T, TT, push_flushes. cbn. rewrite fsum_app.
      unfold qsum in *. cbn in D. unfold fsum at 2. cbn. split.
      + repeat split; auto. lia.
      + apply Forall_app. split; [exact F|]. repeat constructor.
        exists {| d_id := id; d_el := el_size o n; d_items := n |}. reflexivity.
  Qed.

  Lemma pump_T f st : T st -> T (pump o f st).
  Proof.
    revert st. induction f as [|f IH]; intros st H; cbn [pump]; [exact H|].
    pose proof (work_T st H) as H1.
    destruct (s_hung (work o st)); [exact H1|].
    destruct (s_queue (work o st)) eqn:E; [exact H1|]. apply IH, read_one_T, H1.
  Qed.

  Lemma pump_closed_T f st : T st -> T (pump_closed o f st).
  Proof.
    revert st. induction f as [|f IH]; intros st H; cbn [pump_closed]; [exact H|].
    destruct (s_hung st); [exact H|]. destruct (s_flushq st) eqn:Ef; [|exact H].
    destruct (s_queue st) eqn:E; [exact H|]. apply IH, read_one_T, H.
  Qed.

  Lemma qc_storage : exists c, qc o = Some c /\ q_storage c = true.
  Proof. unfold is_storage in Hst. destruct (qc o) as [c|]; [exists c; auto|discriminate]. Qed.

  Lemma offer_T st n : T st -> T (offer o st n).
  Proof.
    intros [(A & B & C & D & E) F]. unfold offer. destruct qc_storage as (c & Hq & Hs). rewrite Hq, Hs.
    assert (Hnote : forall s k, T s -> T (note_send o s k)) by (intros s k Hs'; unfold note_send; destruct (is_wfr o); exact Hs').
    destruct (q_block c && over (q_cap c) (el_size o n)); [apply Hnote; unfold T, TT, reject; cbn; repeat split; auto|].
    destruct (over (q_cap c) _).
    - unfold no_room. apply Hnote. unfold T, TT, reject. cbn. repeat split; auto.
    - destruct (n =? o_badmarshal o); [apply Hnote; unfold T, TT, reject; cbn; repeat split; auto|].
      apply Hnote. unfold T, TT, accept. rewrite Hst. cbn. rewrite qsum_app. unfold qsum at 2. cbn.
      split; [repeat split; auto; lia|exact F].
  Qed.

  Lemma flush_cur_T st : T st -> flush_cur st = st.
  Proof. intros [(A & B & _) _]. unfold flush_cur. now rewrite B. Qed.

  Lemma fold_offer_T ns st :
    T st -> T (fold_left (fun s n => let s' := offer o s n in pump_closed o (S (length (s_queue s'))) s') ns st).
  Proof.
    revert st. induction ns as [|n ns IH]; intros st H; cbn [fold_left]; [exact H|].
    apply IH, pump_closed_T, offer_T, H.
  Qed.

  Lemma step_T st op : T st -> T (step o st op).
  Proof.
    intros H. destruct op as [n|ns| |ns]; cbn [step]; cbv zeta; [| | |exact (fold_offer_T ns st H)].
    - assert (H1 : T (run_quiet o (offer o st n))) by (apply pump_T, offer_T, H).
      destruct (is_wfr o); [rewrite (flush_cur_T _ H1); exact (pump_T _ _ H1)|exact H1].
    - match goal with |- context [run_quiet o (gauge ?X)] => assert (H2 : T (run_quiet o (gauge X))) by (apply pump_T; exact (fold_offer_T ns st H)) end.
      assert (HG : forall x, T x -> T (gauge x)) by (intros x Hx; exact Hx).
      destruct (is_wfr o); apply HG; [rewrite (flush_cur_T _ H2); exact (pump_T _ _ H2)|exact H2].
    - rewrite (flush_cur_T _ H). exact (pump_T _ _ H).
  Qed.

  Lemma steps_T ops st : T st -> T (fold_left (step o) ops st).
  Proof. revert st. induction ops as [|op ops IH]; intros st H; cbn [fold_left]; [exact H|]. apply IH, step_T, H. Qed.

  Lemma init_T outs : T (init_est outs).
  Proof. unfold T, TT, qsum, fsum. cbn. repeat split; auto. Qed.

  Lemma release_hung_T st : T st -> T (release_hung o st).
  Proof.
    intros [(A & B & C & D & E) F]. unfold release_hung. destruct (s_hung st) as [[items ds]|] eqn:Eh.
    - cbn in C. destruct C as [d Hd]. inversion Hd; subst.
      cbn [fire_all fold_left]. unfold fire. cbn [s_ref]. rewrite A. cbn [ref_lookup].
      unfold T, TT, on_done. rewrite Hst. cbn. cbn in D. split; [repeat split; auto; lia|exact F].
    - split; [repeat split; auto; rewrite Eh; auto|exact F].
  Qed.

  Lemma shutdown_T st : T st -> T (shutdown o st).
  Proof.
    intros H. unfold shutdown. rewrite Hst.
    assert (H1 : T (work o (release_hung o (set_down st)))) by (apply work_T, release_hung_T; exact H).
    rewrite (flush_cur_T _ H1). apply work_T, H1.
  Qed.

  Lemma run_exporter_T outs ops : T (run_exporter o outs ops).
  Proof. apply shutdown_T, steps_T, init_T. Qed.
End Storage.

(* persistent queue without a batcher: after shutdown the stored items are the unread requests
   plus the items of the exports that ended with the shutdown error *)
Lemma exporter_stored_l o outs ops :
  o_sig o <> Profiles -> is_storage o = true -> batch_cfg o = None ->
  let st := run_exporter o outs ops in
  s_stored st = qsum (s_queue st) + s_shut st.
Proof.
  intros Hsig Hst Hnb st.
  destruct (run_exporter_T o Hst Hnb outs ops) as [(A & B & C & D & E) F]. fold st in A, B, C, D, E, F.
  assert (Hb : valid_batch o) by (intros mn mx H; rewrite Hnb in H; discriminate).
  destruct (shutdown_end o Hsig Hb (fold_left (step o) ops (init_est outs))) as (Q1 & Q2 & Q3 & Q4).
  cbn zeta in *. fold (run_exporter o outs ops) in *. fold st in Q1, Q2, Q3, Q4.
  rewrite Q1, Q2 in D. unfold fsum in D. cbn in D. lia.
Qed.

Lemma exporter_balance_persistent_l o outs ops :
  o_sig o <> Profiles -> Forall eop_nonneg ops ->
  is_storage o = true -> batch_cfg o = None ->
  let st := run_exporter o outs ops in
  s_shut st = 0 ->
  balance o st.
Proof.
  intros Hsig F Hst Hnb st Hs.
  assert (Hb : valid_batch o) by (intros mn mx H; rewrite Hnb in H; discriminate).
  pose proof (exporter_excess_l o outs ops Hsig Hb F) as A. cbn zeta in A. fold st in A.
  pose proof (exporter_stored_l o outs ops Hsig Hst Hnb) as B. cbn zeta in B. fold st in B.
  unfold balance. lia.
Qed.

(* and what S2 costs in general there: the excess is exactly the shutdown-interrupted items *)
Lemma exporter_persistent_excess_l o outs ops :
  o_sig o <> Profiles -> Forall eop_nonneg ops ->
  is_storage o = true -> batch_cfg o = None ->
  let st := run_exporter o outs ops in
  lget (ExpSent (o_sig o)) (s_led st) + lget (ExpFailed (o_sig o)) (s_led st) + lget (ExpEnqFailed (o_sig o)) (s_led st)
  = s_offered st - s_stored st + s_shut st.
Proof.
  intros Hsig F Hst Hnb st.
  assert (Hb : valid_batch o) by (intros mn mx H; rewrite Hnb in H; discriminate).
  pose proof (exporter_excess_l o outs ops Hsig Hb F) as A. cbn zeta in A. fold st in A.
  pose proof (exporter_stored_l o outs ops Hsig Hst Hnb) as B. cbn zeta in B. fold st in B.
  lia.
Qed.
