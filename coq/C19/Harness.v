(* C19/Harness.v — correspondence: the model's ledger vs. the counters read back from the real
   helpers through the component-test metric reader.  Imports Model.v only. *)
From Verif Require Import Common.Base C19.Model.
Local Open Scope Z_scope.

(* wire form of one case (printed by harness/C19/*.go) *)
Inductive vcase :=
| CRecv (recording : bool) (ops : list (Z * (Z * bool))) (obs : list Z)
    (* recording = the tracer provider yields recording spans;
       op = (signal 0 traces|1 metrics|2 logs, (items, downstream error?)) *)
| CScr (recording : bool) (kind : Z) (ops : list (list (Z * (Z * (Z * Z))) * bool)) (obs : list Z)
    (* kind 0 metrics | 1 logs; op = (scrapers, consumer error?);
       scraper = (items, (metric count, (0 ok | 1 partial | 2 error, failed))) *)
| CProc (sig : Z) (ops : list (Z * (Z * (Z * bool)))) (obs : list Z)
    (* op = (items in, (0 forward | 1 error | 2 skip, (items out, next consumer error?))) *)
| CPipe (sig : Z) (ops : list (Z * (Z * bool))) (obs : list Z)
    (* obsconsumer: signal 0..3 (3 = profiles); op = (items offered, (items left after the downstream call, error?)) *)
| CExp (cfg : list Z) (outs : list (Z * Z)) (ops : list (Z * list Z)) (obs : list Z) (gauges : list Z) (extra : list Z).
    (* cfg = [signal; queue; storage; items sizer; capacity; wait_for_result; qbatch?; qmin; qmax;
              batcher?; bmin; bmax; retry; tracing (spans recording); block_on_overflow; item count the Encoding refuses to marshal (-1 none)];  out = (0 ok|1 transient|2 permanent|3 partial|4 hang, k);
       op = (0,[n]) offer | (1, ns) burst | (2,[]) flush timer | (3, ns) burst, then Shutdown while the gate is closed;
       obs = counter vector after shutdown; gauges = queue-size gauge after each op;
       extra = [capacity gauge; items still stored after shutdown] ++ what each Send through a queue returned
               (0 nil | 1 queue full | 2 too large | 3 context error of a producer that gave up while blocked) *)

Definition sig_of_Z (z : Z) : signal :=
  if z =? 0 then Traces else if z =? 1 then Metrics else if z =? 2 then Logs else Profiles.

(* the counter universe, in the order of the observation vector *)
Definition universe : list counter :=
  [RecvAccepted Traces; RecvRefused Traces; RecvAccepted Metrics; RecvRefused Metrics; RecvAccepted Logs; RecvRefused Logs;
   ScrScraped Metrics; ScrErrored Metrics; ScrScraped Logs; ScrErrored Logs;
   ProcIn Traces; ProcIn Metrics; ProcIn Logs; ProcOut Traces; ProcOut Metrics; ProcOut Logs;
   ExpSent Traces; ExpSent Metrics; ExpSent Logs; ExpFailed Traces; ExpFailed Metrics; ExpFailed Logs;
   ExpEnqFailed Traces; ExpEnqFailed Metrics; ExpEnqFailed Logs;
   SpanAcc Traces; SpanRef Traces; SpanAcc Metrics; SpanRef Metrics; SpanAcc Logs; SpanRef Logs;
   SpanScraped Metrics; SpanErrored Metrics; SpanScraped Logs; SpanErrored Logs;
   SpanSent Traces; SpanSent Metrics; SpanSent Logs; SpanFailed Traces; SpanFailed Metrics; SpanFailed Logs;
   PipeOk Traces; PipeFail Traces; PipeOk Metrics; PipeFail Metrics; PipeOk Logs; PipeFail Logs; PipeOk Profiles; PipeFail Profiles].

Definition vec (l : ledger) : list Z := map (fun c => lget c l) universe.

Definition recv_ops (recording : bool) (ops : list (Z * (Z * bool))) : list recv_op :=
  map (fun p => {| ro_sig := sig_of_Z (fst p); ro_n := fst (snd p); ro_err := snd (snd p); ro_rec := recording |}) ops.

Definition scr_res_of (p : Z * (Z * (Z * Z))) : scr_res :=
  let '(it, (mc, (ek, f))) := p in
  {| sr_items := it; sr_metrics := mc;
     sr_err := if ek =? 0 then SNone else if ek =? 1 then SPartial f else SFull |}.

Definition scr_ops (ops : list (list (Z * (Z * (Z * Z))) * bool)) : list scr_op :=
  map (fun p => {| so_res := map scr_res_of (fst p); so_err := snd p |}) ops.

Definition kind_of_Z (z : Z) : scr_kind := if z =? 0 then KMetrics else KLogs.

Definition proc_ops (ops : list (Z * (Z * (Z * bool)))) : list proc_op :=
  map (fun p => let '(nin, (rk, (nout, ne))) := p in
                {| po_in := nin;
                   po_res := if rk =? 0 then PForward nout ne else if rk =? 1 then PError else PSkip |}) ops.

Definition pipe_ops (ops : list (Z * (Z * bool))) : list pipe_op :=
  map (fun p => {| pc_n := fst p; pc_after := fst (snd p); pc_err := snd (snd p) |}) ops.

Definition zb (z : Z) : bool := negb (z =? 0).

Definition eopts_of (cfg : list Z) : eopts :=
  let g := fun i => nth i cfg 0 in
  {| o_sig := sig_of_Z (g 0%nat); o_queue := zb (g 1%nat); o_storage := zb (g 2%nat); o_items_sizer := zb (g 3%nat);
     o_cap := g 4%nat; o_wfr := zb (g 5%nat); o_block := zb (g 14%nat); o_badmarshal := (if 15 <? Z.of_nat (length cfg) then g 15%nat else -1);
     o_qbatch := if zb (g 6%nat) then Some (g 7%nat, g 8%nat) else None;
     o_batcher := if zb (g 9%nat) then Some (g 10%nat, g 11%nat) else None;
     o_retry := zb (g 12%nat); o_tracing := zb (g 13%nat) |}.

Definition aout_of (p : Z * Z) : aout :=
  let '(c, k) := p in
  if c =? 0 then AOk else if c =? 1 then ATransient else if c =? 2 then APermanent
  else if c =? 3 then APartial k else AHang.

Definition eop_of (p : Z * list Z) : eop :=
  let '(c, ns) := p in
  if c =? 0 then OOffer (nth 0%nat ns 0) else if c =? 1 then OBurst ns else if c =? 3 then OBurstShut ns else OFlush.

Definition exp_run (cfg : list Z) (outs : list (Z * Z)) (ops : list (Z * list Z)) : est :=
  run_exporter (eopts_of cfg) (map aout_of outs) (map eop_of ops).

Definition zlist_eqb := list_eqb Z.eqb.

Definition exp_out (cfg : list Z) (outs : list (Z * Z)) (ops : list (Z * list Z)) : list Z * (list Z * list Z) :=
  let st := exp_run cfg outs ops in
  (vec (s_led st), (s_gauges st, [gauge_capacity (eopts_of cfg); s_stored st] ++ s_sends st)).

Definition model_out (c : vcase) : list Z * (list Z * list Z) :=
  match c with
  | CRecv rc ops _ => (vec (recv_run (recv_ops rc ops)), ([], []))
  | CScr rc k ops _ => (vec (scr_run rc (kind_of_Z k) (scr_ops ops)), ([], []))
  | CProc s ops _ => (vec (proc_run (sig_of_Z s) (proc_ops ops)), ([], []))
  | CPipe sg ops _ => (vec (pipe_run (sig_of_Z sg) (pipe_ops ops)), ([], []))
  | CExp cfg outs ops _ _ _ => exp_out cfg outs ops
  end.

Definition check_case (c : vcase) : bool :=
  match c with
  | CRecv _ _ obs | CScr _ _ _ obs | CProc _ _ obs | CPipe _ _ obs => zlist_eqb (fst (model_out c)) obs
  | CExp _ _ _ obs g x =>
      let '(v, (mg, mx)) := model_out c in
      zlist_eqb v obs && zlist_eqb mg g && zlist_eqb mx x
  end.
