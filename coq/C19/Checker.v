(* C19/Checker.v — decidable checkers of the property's clauses over the OBSERVED behaviour of the
   implementation (a case = generated input + counters read back).  They do not use the model's step
   functions: only the input history, the harness' own observations (items offered, items left stored)
   and the counters.  Each [X_ok] is proved equivalent to a Prop-level [X_clause]; the model is shown
   to satisfy the receiver / processor / pipeline checkers on every history. *)
From Verif Require Import Common.Base C19.Model.
From Verif Require Export C19.Harness.
Local Open Scope Z_scope.

Definition at_ (i : nat) (l : list Z) : Z := nth i l 0.

Definition sum_if {A} (p : A -> bool) (f : A -> Z) (l : list A) : Z := sumZ (map f (filter p l)).

(* all instrument entries (not the span sums 25..40) outside [keep] are zero *)
Definition instr_idx : list nat :=
  [0;1;2;3;4;5;6;7;8;9;10;11;12;13;14;15;16;17;18;19;20;21;22;23;24;41;42;43;44;45;46;47;48]%nat.
Definition others_zero (keep : list nat) (obs : list Z) : bool :=
  forallb (fun i => existsb (Nat.eqb i) keep || (at_ i obs =? 0)) instr_idx.
Definition others_zero_P (keep : list nat) (obs : list Z) : Prop :=
  forall i, In i instr_idx -> ~ In i keep -> at_ i obs = 0.

Lemma others_zero_spec keep obs : others_zero keep obs = true <-> others_zero_P keep obs.
Proof.
  unfold others_zero, others_zero_P. rewrite forallb_forall. split; intros H i Hi.
  - intros Hk. specialize (H i Hi). apply orb_true_iff in H. destruct H as [H|H]; [|now apply Z.eqb_eq].
    apply existsb_exists in H. destruct H as [x [Hx E]]. apply Nat.eqb_eq in E. subst. contradiction.
  - apply orb_true_iff. destruct (existsb (Nat.eqb i) keep) eqn:E; [now left|right].
    apply Z.eqb_eq, H; auto. intros Hk. assert (existsb (Nat.eqb i) keep = true); [|congruence].
    apply existsb_exists. exists i. split; auto. apply Nat.eqb_refl.
Qed.

(* ---- receiver clause ---------------------------------------------------------------------------- *)
Definition rsig (s : Z) (err : bool) (p : Z * (Z * bool)) : bool := (fst p =? s) && Bool.eqb (snd (snd p)) err.
Definition ritems (p : Z * (Z * bool)) : Z := fst (snd p).

Definition recv_clause (ops : list (Z * (Z * bool))) (obs : list Z) : Prop :=
  (at_ 0 obs = sum_if (rsig 0 false) ritems ops /\ at_ 1 obs = sum_if (rsig 0 true) ritems ops) /\
  (at_ 2 obs = sum_if (rsig 1 false) ritems ops /\ at_ 3 obs = sum_if (rsig 1 true) ritems ops) /\
  (at_ 4 obs = sum_if (rsig 2 false) ritems ops /\ at_ 5 obs = sum_if (rsig 2 true) ritems ops) /\
  others_zero_P [0;1;2;3;4;5]%nat obs.

Definition recv_ok (ops : list (Z * (Z * bool))) (obs : list Z) : bool :=
  ((at_ 0 obs =? sum_if (rsig 0 false) ritems ops) && (at_ 1 obs =? sum_if (rsig 0 true) ritems ops)) &&
  ((at_ 2 obs =? sum_if (rsig 1 false) ritems ops) && (at_ 3 obs =? sum_if (rsig 1 true) ritems ops)) &&
  ((at_ 4 obs =? sum_if (rsig 2 false) ritems ops) && (at_ 5 obs =? sum_if (rsig 2 true) ritems ops)) &&
  others_zero [0;1;2;3;4;5]%nat obs.

Lemma recv_ok_spec ops obs : recv_ok ops obs = true <-> recv_clause ops obs.
Proof. unfold recv_ok, recv_clause. rewrite !andb_true_iff, !Z.eqb_eq, others_zero_spec. tauto. Qed.

(* ---- scraper clause: the controller's OWN signal ---------------------------------------------------- *)
Definition scr_item_offered (p : Z * (Z * (Z * Z))) : Z := let '(it, (_, (ek, _))) := p in if ek =? 2 then 0 else it.
Definition scr_op_offered (o : list (Z * (Z * (Z * Z))) * bool) : Z := sumZ (map scr_item_offered (fst o)).
Definition scr_failed (p : Z * (Z * (Z * Z))) : Z := let '(_, (_, (ek, f))) := p in if ek =? 1 then f else 0.

Definition scr_clause (kind : Z) (ops : list (list (Z * (Z * (Z * Z))) * bool)) (obs : list Z) : Prop :=
  let own := if kind =? 0 then 2%nat else 4%nat in
  at_ own obs = sum_if (fun o => negb (snd o)) scr_op_offered ops /\
  at_ (S own) obs = sum_if (fun o => snd o) scr_op_offered ops /\
  (* errored = the Failed numbers the scrapers reported *)
  at_ (if kind =? 0 then 7%nat else 9%nat) obs = sumZ (map (fun o => sumZ (map scr_failed (fst o))) ops) /\
  others_zero_P [own; S own; 6; 7; 8; 9]%nat obs.

Definition scr_ok (kind : Z) (ops : list (list (Z * (Z * (Z * Z))) * bool)) (obs : list Z) : bool :=
  let own := if kind =? 0 then 2%nat else 4%nat in
  (at_ own obs =? sum_if (fun o => negb (snd o)) scr_op_offered ops) &&
  (at_ (S own) obs =? sum_if (fun o => snd o) scr_op_offered ops) &&
  (at_ (if kind =? 0 then 7%nat else 9%nat) obs =? sumZ (map (fun o => sumZ (map scr_failed (fst o))) ops)) &&
  others_zero [own; S own; 6; 7; 8; 9]%nat obs.

Lemma scr_ok_spec kind ops obs : scr_ok kind ops obs = true <-> scr_clause kind ops obs.
Proof. unfold scr_ok, scr_clause. cbn zeta. rewrite !andb_true_iff, !Z.eqb_eq, others_zero_spec. tauto. Qed.

(* ---- processor clause ----------------------------------------------------------------------------- *)
Definition proc_in (p : Z * (Z * (Z * bool))) : Z := fst p.
Definition proc_fwd (p : Z * (Z * (Z * bool))) : Z := let '(_, (rk, (nout, _))) := p in if rk =? 0 then nout else 0.

Definition proc_clause (sg : Z) (ops : list (Z * (Z * (Z * bool)))) (obs : list Z) : Prop :=
  at_ (10 + Z.to_nat sg) obs = sumZ (map proc_in ops) /\
  at_ (13 + Z.to_nat sg) obs = sumZ (map proc_fwd ops) /\
  others_zero_P [(10 + Z.to_nat sg)%nat; (13 + Z.to_nat sg)%nat] obs.

Definition proc_ok (sg : Z) (ops : list (Z * (Z * (Z * bool)))) (obs : list Z) : bool :=
  (at_ (10 + Z.to_nat sg) obs =? sumZ (map proc_in ops)) &&
  (at_ (13 + Z.to_nat sg) obs =? sumZ (map proc_fwd ops)) &&
  others_zero [(10 + Z.to_nat sg)%nat; (13 + Z.to_nat sg)%nat] obs.

Lemma proc_ok_spec sg ops obs : proc_ok sg ops obs = true <-> proc_clause sg ops obs.
Proof. unfold proc_ok, proc_clause. rewrite !andb_true_iff, !Z.eqb_eq, others_zero_spec. tauto. Qed.

(* ---- pipeline (obsconsumer) clause -------------------------------------------------------------------- *)
Definition pipe_clause (sg : Z) (ops : list (Z * (Z * bool))) (obs : list Z) : Prop :=
  at_ (41 + 2 * Z.to_nat sg) obs = sum_if (fun p => negb (snd (snd p))) fst ops /\
  at_ (42 + 2 * Z.to_nat sg) obs = sum_if (fun p => snd (snd p)) fst ops /\
  others_zero_P [(41 + 2 * Z.to_nat sg)%nat; (42 + 2 * Z.to_nat sg)%nat] obs.

Definition pipe_ok (sg : Z) (ops : list (Z * (Z * bool))) (obs : list Z) : bool :=
  (at_ (41 + 2 * Z.to_nat sg) obs =? sum_if (fun p => negb (snd (snd p))) fst ops) &&
  (at_ (42 + 2 * Z.to_nat sg) obs =? sum_if (fun p => snd (snd p)) fst ops) &&
  others_zero [(41 + 2 * Z.to_nat sg)%nat; (42 + 2 * Z.to_nat sg)%nat] obs.

Lemma pipe_ok_spec sg ops obs : pipe_ok sg ops obs = true <-> pipe_clause sg ops obs.
Proof. unfold pipe_ok, pipe_clause. rewrite !andb_true_iff, !Z.eqb_eq, others_zero_spec. tauto. Qed.

(* ---- exporter clause -------------------------------------------------------------------------------- *)
Definition op_offered (p : Z * list Z) : Z :=
  let '(c, ns) := p in if c =? 0 then nth 0%nat ns 0 else if (c =? 1) || (c =? 3) then sumZ ns else 0.

Definition cfg_capacity (cfg : list Z) : Z :=
  if zb (nth 1%nat cfg 0) then nth 4%nat cfg 0 else if zb (nth 9%nat cfg 0) then 9223372036854775807 else 0.

Definition exp_clause (cfg : list Z) (ops : list (Z * list Z)) (obs gauges extra : list Z) : Prop :=
  let s := Z.to_nat (nth 0%nat cfg 0) in
  (* sent + send_failed + enqueue_failed = items given - items still stored *)
  at_ (16 + s) obs + at_ (19 + s) obs + at_ (22 + s) obs = sumZ (map op_offered ops) - at_ 1 extra /\
  (* the capacity gauge reports the configured capacity *)
  at_ 0 extra = cfg_capacity cfg /\
  (* the size gauge is never negative and, for a real queue, never above the capacity *)
  Forall (fun g => 0 <= g /\ (zb (nth 1%nat cfg 0) = true -> g <= nth 4%nat cfg 0)) gauges /\
  others_zero_P [(16 + s)%nat; (19 + s)%nat; (22 + s)%nat] obs.

Definition exp_ok (cfg : list Z) (ops : list (Z * list Z)) (obs gauges extra : list Z) : bool :=
  let s := Z.to_nat (nth 0%nat cfg 0) in
  (at_ (16 + s) obs + at_ (19 + s) obs + at_ (22 + s) obs =? sumZ (map op_offered ops) - at_ 1 extra) &&
  (at_ 0 extra =? cfg_capacity cfg) &&
  forallb (fun g => (0 <=? g) && (negb (zb (nth 1%nat cfg 0)) || (g <=? nth 4%nat cfg 0))) gauges &&
  others_zero [(16 + s)%nat; (19 + s)%nat; (22 + s)%nat] obs.

Lemma exp_ok_spec cfg ops obs gauges extra : exp_ok cfg ops obs gauges extra = true <-> exp_clause cfg ops obs gauges extra.
Proof.
  unfold exp_ok, exp_clause. cbn zeta. rewrite !andb_true_iff, !Z.eqb_eq, others_zero_spec, forallb_forall, Forall_forall.
  split.
  - intros (((A & B) & C) & D). split; [exact A|]. split; [exact B|]. split; [|exact D].
    intros x Hx. specialize (C x Hx). apply andb_true_iff in C. destruct C as [C1 C2]. split; [now apply Z.leb_le|].
    intros Hq. rewrite Hq in C2. cbn in C2. now apply Z.leb_le.
  - intros (A & B & C & D). split; [split; [split; [exact A|exact B]|]|exact D].
    intros x Hx. destruct (C x Hx) as [C1 C2]. apply andb_true_iff. split; [now apply Z.leb_le|].
    destruct (zb (nth 1%nat cfg 0)); cbn; [apply Z.leb_le; auto|reflexivity].
Qed.

(* ---- one checker for every case kind; the code names the violated clause ------------------------------ *)
Definition prop_ok (c : vcase) : bool :=
  match c with
  | CRecv _ ops obs => recv_ok ops obs
  | CScr _ k ops obs => scr_ok k ops obs
  | CProc s ops obs => proc_ok s ops obs
  | CPipe s ops obs => pipe_ok s ops obs
  | CExp cfg _ ops obs g x => exp_ok cfg ops obs g x
  end.

Definition prop_clause (c : vcase) : Prop :=
  match c with
  | CRecv _ ops obs => recv_clause ops obs
  | CScr _ k ops obs => scr_clause k ops obs
  | CProc s ops obs => proc_clause s ops obs
  | CPipe s ops obs => pipe_clause s ops obs
  | CExp cfg _ ops obs g x => exp_clause cfg ops obs g x
  end.

Lemma prop_ok_spec c : prop_ok c = true <-> prop_clause c.
Proof.
  destruct c; cbn; [apply recv_ok_spec|apply scr_ok_spec|apply proc_ok_spec|apply pipe_ok_spec|apply exp_ok_spec].
Qed.

(* which part fails (for the replay): 1 balance equation / own-signal counters, 2 second equation,
   3 third, 9 another instrument moved, 0 nothing *)
Definition prop_code (c : vcase) : Z :=
  match c with
  | CRecv _ ops obs =>
      if negb (others_zero [0;1;2;3;4;5]%nat obs) then 9 else if recv_ok ops obs then 0 else 1
  | CScr _ k ops obs =>
      let own := if k =? 0 then 2%nat else 4%nat in
      if negb ((at_ own obs =? sum_if (fun o => negb (snd o)) scr_op_offered ops) && (at_ (S own) obs =? sum_if (fun o => snd o) scr_op_offered ops)) then 1
      else if negb (at_ (if k =? 0 then 7%nat else 9%nat) obs =? sumZ (map (fun o => sumZ (map scr_failed (fst o))) ops)) then 2
      else if scr_ok k ops obs then 0 else 9
  | CProc s ops obs =>
      if negb (at_ (10 + Z.to_nat s) obs =? sumZ (map proc_in ops)) then 1
      else if negb (at_ (13 + Z.to_nat s) obs =? sumZ (map proc_fwd ops)) then 2
      else if proc_ok s ops obs then 0 else 9
  | CPipe s ops obs =>
      if pipe_ok s ops obs then 0 else if others_zero [(41 + 2 * Z.to_nat s)%nat; (42 + 2 * Z.to_nat s)%nat] obs then 1 else 9
  | CExp cfg _ ops obs g x =>
      let s := Z.to_nat (nth 0%nat cfg 0) in
      if negb (at_ (16 + s) obs + at_ (19 + s) obs + at_ (22 + s) obs =? sumZ (map op_offered ops) - at_ 1 x) then 1
      else if negb (at_ 0 x =? cfg_capacity cfg) then 2
      else if negb (others_zero [(16 + s)%nat; (19 + s)%nat; (22 + s)%nat] obs) then 9
      else if exp_ok cfg ops obs g x then 0 else 3
  end.

