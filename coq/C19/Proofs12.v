(* C19/Proofs12.v — clause audit (round 5): profiles exporter, one scrape, satisfiable hypotheses. *)
From Verif Require Import Common.Base C19.Model C19.Proofs1 C19.Proofs2 C19.Proofs3 C19.Proofs4 C19.Proofs10.
Local Open Scope Z_scope.

(* a profiles exporter: one request of 5 items, exported successfully: no instrument moves, so
   sent + failed + enqueue_failed = 0 <> 5 - 0 *)
Definition opts_prof : eopts :=
  {| o_sig := Profiles; o_queue := true; o_storage := false; o_items_sizer := false; o_cap := 5; o_wfr := false; o_block := false; o_badmarshal := -1;
     o_qbatch := None; o_batcher := None; o_retry := false; o_tracing := true |}.

Lemma profiles_refuted_l :
  exists o outs ops, o_sig o = Profiles /\ Forall eop_nonneg ops /\
    let st := run_exporter o outs ops in ~ balance o st /\ s_offered st = 5 /\ s_stored st = 0.
Proof.
  exists opts_prof, [], [OOffer 5]. split; [reflexivity|]. split; [constructor; [cbn; lia|constructor]|].
  vm_compute. repeat split; try reflexivity. discriminate.
Qed.

(* one scrape: the receiver counters move by the items offered downstream, under the METRICS counters *)
Lemma scrape_op_l rc k rs e :
  lget (RecvAccepted Metrics) (scrape rc k rs e) + lget (RecvRefused Metrics) (scrape rc k rs e) = scr_offered rs /\
  (e = false -> lget (RecvAccepted Metrics) (scrape rc k rs e) = scr_offered rs /\ lget (RecvRefused Metrics) (scrape rc k rs e) = 0) /\
  (e = true -> lget (RecvAccepted Metrics) (scrape rc k rs e) = 0 /\ lget (RecvRefused Metrics) (scrape rc k rs e) = scr_offered rs) /\
  (forall s, s <> Metrics -> lget (RecvAccepted s) (scrape rc k rs e) = 0 /\ lget (RecvRefused s) (scrape rc k rs e) = 0).
Proof.
  rewrite !(scrape_recv rc k rs e) by reflexivity. rewrite !recv_full_real by reflexivity.
  destruct (recv_end_op_facts Metrics (scr_offered rs) e ltac:(discriminate)) as (A & B & C & D).
  repeat split; auto; try (apply B; auto); try (apply C; auto);
    rewrite (scrape_recv rc k rs e) by reflexivity; rewrite recv_full_real by reflexivity; apply D; congruence.
Qed.
