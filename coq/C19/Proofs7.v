(* C19/Proofs7.v — the Done-bookkeeping invariant over whole histories and its consequences. *)
From Verif Require Import Common.Base C19.Model C19.Proofs1 C19.Proofs2 C19.Proofs3 C19.Proofs6.
Local Open Scope Z_scope.

Section Inv.
  Variable o : eopts.
  Variable NN : Prop.
  Hypothesis Hsig : o_sig o <> Profiles.
  Hypothesis HNcap : NN -> le_cap o 0.

  Notation GI := (GI o NN).
  Notation GIR := (GIR o NN).

  Definition Inv6 (st : est) : Prop := GI st (fdones (s_flushq st)).

  Lemma dsum_refs g st held :
    dsum g (refs st held) = dsum g held + dsum g (odones (s_cur st)) + dsum g (odones (s_hung st)).
  Proof. unfold refs. rewrite !dsum_app. lia. Qed.

  Lemma fdones_app a b : fdones (a ++ b) = fdones a ++ fdones b.
  Proof. unfold fdones. now rewrite flat_map_app. Qed.

  Lemma dsum_fd_map g d (l : list Z) : dsum g (fdones (map (fun x => (x, [d])) l)) = Z.of_nat (length l) * g d.
  Proof.
    induction l as [|a l IH]; [reflexivity|]. cbn [map fdones flat_map snd]. change (flat_map snd ?x) with (fdones x).
    rewrite dsum_app, IH. rewrite dsum_cons, dsum_nil. cbn [length]. lia.
  Qed.

  Lemma fire_all_G r ds st held : GI st (ds ++ held) -> GI (fire_all o r ds st) held.
  Proof.
    unfold fire_all. revert st. induction ds as [|d ds IH]; intros st H; cbn [fold_left]; [exact H|].
    apply IH. apply (fire_G o NN HNcap). exact H.
  Qed.

  Lemma export_G st f held : s_hung st = None -> GI st (snd f ++ held) -> GI (export o st f) held.
  Proof.
    intros Hh H. unfold export. destruct f as [items ds]. cbn [snd] in H.
    destruct (retry_send (o_retry o) (s_down st) (s_outs st)) as [[r|] outs'].
    - apply fire_all_G. exact H.
    - unfold Proofs6.GI in *. cbn [s_ref s_queue s_next s_qsize s_stored s_kept].
      eapply GIR_equiv; [|exact H]. intros g. rewrite !dsum_refs. cbn [s_cur s_hung odones snd]. rewrite Hh.
      cbn [odones]. rewrite dsum_app, !dsum_nil. lia.
  Qed.

  Lemma work_list_G fq st : GI st (fdones fq) -> Inv6 (work_list o fq st).
  Proof.
    revert st. induction fq as [|f t IH]; intros st H; cbn [work_list].
    - exact H.
    - destruct (s_hung st) eqn:Hh; [exact H|]. apply IH. apply export_G; [exact Hh|exact H].
  Qed.

  Lemma work_G st : Inv6 st -> Inv6 (work o st).
  Proof. intros H. apply work_list_G. exact H. Qed.

  (* a request read from the queue gets k references (and a cell when k > 1) *)
  Lemma add_refs c q nx qs sto kept R R' d k :
    GIR c q nx qs sto kept (d :: R) -> occZ (d_id d) R = 0 -> celled (d_id d) c = false ->
    ~ In (d_id d) (map fst q) -> 1 <= k ->
    (forall g, dsum g R' = k * g d + dsum g R) ->
    GIR (if 1 <? k then (d_id d, (d, (k, ROk))) :: c else c) q nx qs sto kept R'.
  Proof.
    intros G O C Q K E. destruct (1 <? k) eqn:E1.
    - apply Z.ltb_lt in E1. destruct G as [A B Cq D F Gc H I J].
      rewrite dsum_cons in F. pose proof (oldf_nonneg nx d). pose proof (dsum_nonneg (oldf nx) R (oldf_nonneg nx)).
      assert (Hold : oldf nx d = 0) by lia.
      assert (Hlt : (d_id d < nx)%nat) by (unfold oldf in Hold; destruct (d_id d <? nx)%nat eqn:L; [now apply Nat.ltb_lt|discriminate]).
      assert (Hno : forall x, In x R -> d_id x <> d_id d) by (apply occZ_zero_neq; exact O).
      set (c' := (d_id d, (d, (k, ROk))) :: c).
      assert (Hcel : forall x, In x R -> celled (d_id x) c' = celled (d_id x) c).
      { intros x Hx. unfold c'. cbn. replace (Nat.eqb (d_id d) (d_id x)) with false; [reflexivity|].
        symmetry. apply Nat.eqb_neq. intros Q2. apply (Hno x Hx). congruence. }
      assert (Hfd : forall f, free f c' d = 0) by (intros f; unfold free, c'; cbn; now rewrite Nat.eqb_refl).
      assert (HLS : forall f, LS f c' R' = LS f c (d :: R)).
      { intros f. unfold LS. rewrite E, Hfd, dsum_cons. rewrite (free_same f c c' R Hcel).
        unfold free at 2. rewrite C. unfold c', csum. cbn. fold (csum f c). lia. }
      constructor.
      + unfold c'. cbn. constructor; [apply celled_false; exact C|exact A].
      + intros id x n acc Hi. destruct Hi as [Hi|Hi].
        * inversion Hi; subst. unfold occZ. rewrite E. unfold occf at 1. rewrite Nat.eqb_refl. fold (occZ (d_id x) R). split; lia.
        * destruct (B _ _ _ _ Hi) as [Q1 Q2]. split; auto. unfold occZ in *. rewrite E, Q1, dsum_cons.
          assert (Hne : d_id d <> id).
          { intros Q3. apply celled_false in C. apply C. unfold ckeys. rewrite Q3. change id with (fst (id, (x, (n, acc)))). now apply in_map. }
          unfold occf at 1 3. replace (Nat.eqb (d_id d) id) with false by (symmetry; now apply Nat.eqb_neq). lia.
      + exact Cq.
      + intros id Hi. destruct (D id Hi) as (Q1 & Q2 & Q3). unfold occZ in *. rewrite dsum_cons in Q1.
        assert (Hne : d_id d <> id) by (intros Q4; apply Q; now rewrite Q4).
        pose proof (occf_nonneg id d). pose proof (dsum_nonneg (occf id) R (occf_nonneg id)).
        repeat split; auto.
        * rewrite E. unfold occf at 1. replace (Nat.eqb (d_id d) id) with false by (symmetry; now apply Nat.eqb_neq). lia.
        * unfold c'. cbn. replace (Nat.eqb (d_id d) id) with false by (symmetry; now apply Nat.eqb_neq). exact Q2.
      + rewrite E, Hold. lia.
      + intros id Hi. unfold c' in Hi. cbn in Hi. destruct Hi; [subst; exact Hlt|auto].
      + intros Hs. rewrite HLS. auto.
      + intros Hs. rewrite HLS. auto.
      + intros HN. destruct (J HN) as (J1 & J2 & J3 & J4 & J5). rewrite dsum_cons in J1.
        pose proof (negf_nonneg d). pose proof (dsum_nonneg negf R negf_nonneg).
        assert (Hneg : negf d = 0) by lia.
        split; [rewrite E; lia|]. split; [|split; [exact J3|]].
        * intros id x n acc Hi. unfold c' in Hi. destruct Hi as [Hi|Hi]; [|eauto].
          inversion Hi; subst. unfold negf in Hneg. destruct (d_el x <? 0) eqn:Qn; [discriminate|]. now apply Z.ltb_ge in Qn.
        * split; [|exact J5]. intros Hs. rewrite HLS. auto.
    - apply Z.ltb_ge in E1. assert (k = 1) by lia. subst k. eapply GIR_equiv; [|exact G].
      intros g. rewrite E, dsum_cons. lia.
  Qed.

  Lemma with_ref_cells st d l :
    s_ref (with_ref st d l) = (if 1 <? Z.of_nat (length l) then (d_id d, (d, (Z.of_nat (length l), ROk))) :: s_ref st else s_ref st) /\
    s_queue (with_ref st d l) = s_queue st /\ s_next (with_ref st d l) = s_next st /\ s_qsize (with_ref st d l) = s_qsize st /\
    s_stored (with_ref st d l) = s_stored st /\ s_kept (with_ref st d l) = s_kept st /\ s_cur (with_ref st d l) = s_cur st /\
    s_hung (with_ref st d l) = s_hung st /\ s_flushq (with_ref st d l) = s_flushq st.
  Proof. unfold with_ref. destruct (1 <? Z.of_nat (length l)); cbn; repeat split. Qed.

  Lemma length_removelast (l : list Z) : l <> [] -> Z.of_nat (length (removelast l)) = Z.of_nat (length l) - 1.
  Proof.
    intros H. rewrite (app_removelast_last 0 H) at 2. rewrite app_length. cbn. lia.
  Qed.

  (* default_batcher.go Consume keeps the bookkeeping exact *)
  Lemma consume_G st d :
    GI st (d :: fdones (s_flushq st)) ->
    occZ (d_id d) (refs st (fdones (s_flushq st))) = 0 -> celled (d_id d) (s_ref st) = false ->
    ~ In (d_id d) (map fst (s_queue st)) ->
    Inv6 (consume o st d).
  Proof.
    intros G O C Q. unfold consume. destruct (batch_cfg o) as [[mn mx]|].
    2:{ unfold Inv6, push_flushes, Proofs6.GI in *. cbn [s_ref s_queue s_next s_qsize s_stored s_kept s_flushq set_flushq].
        eapply GIR_equiv; [|exact G]. intros g. rewrite !dsum_refs. cbn [s_cur s_hung set_flushq].
        rewrite fdones_app, dsum_app. cbn [fdones flat_map snd app]. rewrite !dsum_cons, !dsum_nil. lia. }
    assert (Hfire : Inv6 (fire o ROk st d)).
    { unfold Inv6. destruct (fire_frame o Hsig ROk st d) as (_ & _ & Fq & _). rewrite Fq. apply (fire_G o NN HNcap). exact G. }
    (* the generic step: after with_ref, any placement of k = length l references of d *)
    assert (Hplace : forall l st', l <> [] ->
              s_ref st' = s_ref (with_ref st d l) -> s_queue st' = s_queue st -> s_next st' = s_next st ->
              s_qsize st' = s_qsize st -> s_stored st' = s_stored st -> s_kept st' = s_kept st ->
              (forall g, dsum g (refs st' (fdones (s_flushq st'))) = Z.of_nat (length l) * g d + dsum g (refs st (fdones (s_flushq st)))) ->
              Inv6 st').
    { intros l st' Hl E1 E2 E3 E4 E5 E6 E7. unfold Inv6, Proofs6.GI. rewrite E1, E2, E3, E4, E5, E6.
      destruct (with_ref_cells st d l) as (W1 & _). rewrite W1.
      apply add_refs with (R := refs st (fdones (s_flushq st))); auto.
      destruct l; [congruence|cbn [length]; lia]. }
    destruct (s_cur st) as [[ci cd]|] eqn:Ec.
    - destruct (merge_split mx ci (Some (d_items d))) as [|first rest] eqn:El; [exact Hfire|].
      destruct rest as [|r0 rest'] eqn:Er.
      + (* one part: merged into the current batch (it holds the new request) *)
        replace (1 <? Z.of_nat (length [first])) with false by reflexivity. cbn [negb orb].
        set (l := [first]).
        destruct (with_ref_cells st d l) as (W1 & W2 & W3 & W4 & W5 & W6 & W7 & W8 & W9).
        set (st1 := with_ref st d l) in *.
        set (cur' := (first, cd ++ [d])).
        destruct (mn <=? first).
        * apply (Hplace l); try (unfold l; discriminate); try (cbn; first [reflexivity|assumption]).
          intros g. rewrite !dsum_refs. unfold push_flushes. cbn [s_cur s_hung s_flushq set_flushq set_cur]. rewrite ?W7, ?W8, ?W9, ?Ec, ?fdones_app, ?dsum_app. cbn [fdones flat_map snd odones cur' app].
          rewrite ?dsum_app, ?dsum_cons, ?dsum_nil. replace (Z.of_nat (length l)) with 1 by reflexivity. lia.
        * apply (Hplace l); try (unfold l; discriminate); try (cbn; first [reflexivity|assumption]).
          intros g. rewrite !dsum_refs. unfold push_flushes. cbn [s_cur s_hung s_flushq set_flushq set_cur]. rewrite ?W7, ?W8, ?W9, ?Ec. cbn [odones snd cur'].
          rewrite ?dsum_app, ?dsum_cons, ?dsum_nil. replace (Z.of_nat (length l)) with 1 by reflexivity. lia.
      + assert (Hlen : 1 <? Z.of_nat (length (first :: r0 :: rest')) = true) by (apply Z.ltb_lt; cbn [length]; lia).
        rewrite Hlen. cbn [negb orb].
        pose proof (length_removelast (r0 :: rest') ltac:(discriminate)) as LR.
        destruct (first =? ci) eqn:Efc; cbn [negb].
        * (* nothing of the new request fitted into the first result: it gets no Done of this request *)
          set (l := r0 :: rest') in *.
          destruct (with_ref_cells st d l) as (W1 & W2 & W3 & W4 & W5 & W6 & W7 & W8 & W9).
          set (st1 := with_ref st d l) in *.
          set (cur' := (first, cd)).
          destruct (last l 0 <? mn).
          -- apply (Hplace l); try (unfold l; discriminate); try (cbn; first [reflexivity|assumption]).
             intros g. rewrite !dsum_refs. unfold push_flushes. cbn [s_cur s_hung s_flushq set_flushq set_cur]. rewrite ?W7, ?W8, ?W9, ?Ec, ?fdones_app, ?dsum_app, ?dsum_fd_map, ?LR. cbn [fdones flat_map snd odones cur' app].
             rewrite ?dsum_app, ?dsum_cons, ?dsum_nil. unfold l. lia.
          -- apply (Hplace l); try (unfold l; discriminate); try (cbn; first [reflexivity|assumption]).
             intros g. rewrite !dsum_refs. unfold push_flushes. cbn [s_cur s_hung s_flushq set_flushq set_cur]. rewrite ?W7, ?W8, ?W9, ?Ec, ?fdones_app, ?dsum_app, ?dsum_fd_map. cbn [fdones flat_map snd odones cur' app].
             rewrite ?dsum_app, ?dsum_cons, ?dsum_nil. unfold l. lia.
        * set (l := first :: r0 :: rest').
          destruct (with_ref_cells st d l) as (W1 & W2 & W3 & W4 & W5 & W6 & W7 & W8 & W9).
          set (st1 := with_ref st d l) in *.
          set (cur' := (first, cd ++ [d])).
          destruct (last (r0 :: rest') 0 <? mn).
          -- apply (Hplace l); try (unfold l; discriminate); try (cbn; first [reflexivity|assumption]).
             intros g. rewrite !dsum_refs. unfold push_flushes. cbn [s_cur s_hung s_flushq set_flushq set_cur]. rewrite ?W7, ?W8, ?W9, ?Ec, ?fdones_app, ?dsum_app, ?dsum_fd_map, ?LR. cbn [fdones flat_map snd odones cur' app].
             rewrite ?dsum_app, ?dsum_cons, ?dsum_nil. replace (Z.of_nat (length l)) with (1 + Z.of_nat (length (r0 :: rest'))) by (unfold l; cbn [length]; lia). lia.
          -- apply (Hplace l); try (unfold l; discriminate); try (cbn; first [reflexivity|assumption]).
             intros g. rewrite !dsum_refs. unfold push_flushes. cbn [s_cur s_hung s_flushq set_flushq set_cur]. rewrite ?W7, ?W8, ?W9, ?Ec, ?fdones_app, ?dsum_app, ?dsum_fd_map. cbn [fdones flat_map snd odones cur' app].
             rewrite ?dsum_app, ?dsum_cons, ?dsum_nil. replace (Z.of_nat (length l)) with (1 + Z.of_nat (length (r0 :: rest'))) by (unfold l; cbn [length]; lia). lia.
    - destruct (merge_split mx (d_items d) None) as [|a l0] eqn:El; [exact Hfire|].
      set (l := a :: l0).
      destruct (with_ref_cells st d l) as (W1 & W2 & W3 & W4 & W5 & W6 & W7 & W8 & W9).
      pose proof (length_removelast l ltac:(discriminate)) as LR.
      destruct (last l 0 <? mn).
      + apply (Hplace l); try (unfold l; discriminate); try (cbn; first [reflexivity|assumption]).
        intros g. rewrite !dsum_refs. unfold push_flushes. cbn [s_cur s_hung s_flushq set_flushq set_cur]. rewrite ?W7, ?W8, ?W9, ?Ec, ?fdones_app, ?dsum_app, ?dsum_fd_map, ?LR. cbn [odones snd].
        rewrite ?dsum_cons, ?dsum_nil. lia.
      + apply (Hplace l); try (unfold l; discriminate); try (cbn; first [reflexivity|assumption]).
        intros g. rewrite !dsum_refs. unfold push_flushes. cbn [s_cur s_hung s_flushq set_flushq set_cur]. rewrite ?W7, ?W8, ?W9, ?Ec, ?fdones_app, ?dsum_app, ?dsum_fd_map. cbn [odones].
        rewrite ?dsum_nil. lia.
  Qed.
End Inv.
