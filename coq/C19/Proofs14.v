(* C19/Proofs14.v — every reading of the queue-size gauge lies within [0, configured capacity]. *)
From Verif Require Import Common.Base C19.Model C19.Proofs1 C19.Proofs2 C19.Proofs3 C19.Proofs6 C19.Proofs7 C19.Proofs8.
Local Open Scope Z_scope.

Section Gauges.
  Variable o : eopts.
  Hypothesis Hsig : o_sig o <> Profiles.
  Hypothesis Hcap0 : le_cap o 0.

  Let HN : True -> le_cap o 0 := fun _ => Hcap0.

  (* functions that never read the gauges *)
  Lemma on_done_g d r st : s_gauges (on_done o d r st) = s_gauges st. Proof. reflexivity. Qed.
  Lemma fire_g r st d : s_gauges (fire o r st d) = s_gauges st.
  Proof. unfold fire. destruct (ref_lookup _ _) as [[d0 [c a]]|]; [destruct (c <=? 1)|]; reflexivity. Qed.
  Lemma fire_all_g r ds st : s_gauges (fire_all o r ds st) = s_gauges st.
  Proof. unfold fire_all. revert st. induction ds as [|d ds IH]; intros st; cbn [fold_left]; [reflexivity|]. now rewrite IH, fire_g. Qed.
  Lemma export_g st f : s_gauges (export o st f) = s_gauges st.
  Proof. unfold export. destruct f as [items ds]. destruct (retry_send _ _ _) as [[r|] outs']; [now rewrite fire_all_g|reflexivity]. Qed.
  Lemma work_list_g fq st : s_gauges (work_list o fq st) = s_gauges st.
  Proof. revert st. induction fq as [|f t IH]; intros st; cbn [work_list]; [reflexivity|]. destruct (s_hung st); [reflexivity|]. now rewrite IH, export_g. Qed.
  Lemma with_ref_g st d l : s_gauges (with_ref st d l) = s_gauges st.
  Proof. unfold with_ref. destruct (1 <? _); reflexivity. Qed.
  Lemma consume_g st d : s_gauges (consume o st d) = s_gauges st.
  Proof.
    unfold consume. destruct (batch_cfg o) as [[mn mx]|]; [|reflexivity].
    destruct (s_cur st) as [[ci cd]|].
    - destruct (merge_split mx ci (Some (d_items d))) as [|first rest]; [apply fire_g|].
      match goal with |- context [with_ref st d ?w] => pose proof (with_ref_g st d w) as W end.
      destruct ((1 <? Z.of_nat (length (first :: rest))) || (mn <=? first)); destruct rest; try destruct (last _ 0 <? mn); cbn; exact W.
    - destruct (merge_split mx (d_items d) None) as [|a l]; [apply fire_g|].
      pose proof (with_ref_g st d (a :: l)) as W. destruct (last (a :: l) 0 <? mn); cbn; exact W.
  Qed.
  Lemma read_one_g st : s_gauges (read_one o st) = s_gauges st.
  Proof. unfold read_one. destruct (s_queue st) as [|[id n] t]; [reflexivity|]. now rewrite consume_g. Qed.
  Lemma pump_g f st : s_gauges (pump o f st) = s_gauges st.
  Proof.
    revert st. induction f as [|f IH]; intros st; cbn [pump]; [reflexivity|].
    pose proof (work_list_g (s_flushq st) st) as W. fold (work o st) in W.
    destruct (s_hung (work o st)); [exact W|]. destruct (s_queue (work o st)); [exact W|]. now rewrite IH, read_one_g.
  Qed.
  Lemma pump_closed_g f st : s_gauges (pump_closed o f st) = s_gauges st.
  Proof.
    revert st. induction f as [|f IH]; intros st; cbn [pump_closed]; [reflexivity|].
    destruct (s_hung st); [reflexivity|]. destruct (s_flushq st); [|reflexivity]. destruct (s_queue st); [reflexivity|]. now rewrite IH, read_one_g.
  Qed.
  Lemma note_send_g st k : s_gauges (note_send o st k) = s_gauges st.
  Proof. unfold note_send. destruct (is_wfr o); reflexivity. Qed.
  Lemma offer_g st n : s_gauges (offer o st n) = s_gauges st.
  Proof.
    unfold offer, no_room. destruct (qc o) as [c|].
    - destruct (q_storage c).
      + destruct (q_block c && _); [now rewrite note_send_g|]. destruct (over _ _); [now rewrite note_send_g|].
        destruct (n =? _); now rewrite note_send_g.
      + destruct (el_size o n =? 0); [now rewrite note_send_g|]. destruct (over _ (el_size o n)); [now rewrite note_send_g|].
        destruct (over _ _); now rewrite note_send_g.
    - unfold work. now rewrite work_list_g.
  Qed.
  Lemma flush_cur_g st : s_gauges (flush_cur st) = s_gauges st.
  Proof. unfold flush_cur. destruct (s_cur st); reflexivity. Qed.
  Lemma fold_offer_g ns st :
    s_gauges (fold_left (fun s n => let s' := offer o s n in pump_closed o (S (length (s_queue s'))) s') ns st) = s_gauges st.
  Proof. revert st. induction ns as [|n ns IH]; intros st; cbn [fold_left]; [reflexivity|]. now rewrite IH, pump_closed_g, offer_g. Qed.
  Lemma release_hung_g st : s_gauges (release_hung o st) = s_gauges st.
  Proof. unfold release_hung. destruct (s_hung st) as [[items ds]|]; [now rewrite fire_all_g|reflexivity]. Qed.
  Lemma shutdown_g st : s_gauges (shutdown o st) = s_gauges st.
  Proof.
    unfold shutdown, work. rewrite work_list_g, flush_cur_g.
    destruct (is_storage o); [|unfold run_quiet; rewrite pump_g]; rewrite work_list_g, release_hung_g; reflexivity.
  Qed.

  (* a reading taken in a state satisfying the bookkeeping invariant is within [0, capacity] *)
  Definition inr (g : Z) : Prop := 0 <= g /\ le_cap o g.

  Lemma reading_in_range st : Inv6 o True st -> inr (s_qsize st).
  Proof.
    intros G. unfold Proofs7.Inv6, Proofs6.GI in G. destruct G as [_ _ _ _ _ _ Hm _ J].
    destruct (J I) as (J1 & J2 & J3 & J4 & J5). split; [|exact J5].
    destruct (is_storage o) eqn:Es; [exact (proj1 (J4 eq_refl))|].
    rewrite (Hm eq_refl). pose proof (LS_el_nonneg _ _ J1 J2). pose proof (qel_nonneg o _ J3). lia.
  Qed.

  Definition IB (st : est) : Prop := Inv6 o True st /\ Forall inr (s_gauges st).

  Lemma gauge_IB st : IB st -> IB (gauge st).
  Proof.
    intros [G F]. split; [exact G|]. cbn [gauge s_gauges]. apply Forall_app. split; [exact F|]. repeat constructor; apply reading_in_range; exact G.
  Qed.

  Lemma keep_IB st st' : Inv6 o True st' -> s_gauges st' = s_gauges st -> IB st -> IB st'.
  Proof. intros G E [_ F]. split; [exact G|]. now rewrite E. Qed.

  Lemma step_IB st op : eop_nonneg op -> IB st -> IB (step o st op).
  Proof.
    intros Hop [G F]. pose proof (fun x => pump_G o True Hsig HN (S (length (s_queue x))) x) as PG.
    destruct op as [n|ns| |ns]; cbn [step]; cbv zeta.
    - assert (H1 : IB (run_quiet o (offer o st n))).
      { apply (keep_IB st); [apply PG, (offer_G o True HN); [intros _; exact Hop|exact G]|unfold run_quiet; now rewrite pump_g, offer_g|split; assumption]. }
      apply gauge_IB. destruct (is_wfr o); [|exact H1].
      apply (keep_IB (run_quiet o (offer o st n))); [apply PG, (flush_cur_G o True), H1|unfold run_quiet; now rewrite pump_g, flush_cur_g|exact H1].
    - match goal with |- context [run_quiet o (gauge ?X)] => set (st1 := X) end.
      assert (H1 : IB st1) by (apply (keep_IB st); [exact (fold_offer_G o True Hsig HN ns st (fun _ => Hop) G)|apply fold_offer_g|split; assumption]).
      assert (H2 : IB (run_quiet o (gauge st1))).
      { pose proof (gauge_IB st1 H1) as [G2 F2]. apply (keep_IB (gauge st1)); [apply PG; exact G2|unfold run_quiet; now rewrite pump_g|split; assumption]. }
      apply gauge_IB. destruct (is_wfr o); [|exact H2].
      apply (keep_IB (run_quiet o (gauge st1))); [apply PG, (flush_cur_G o True), H2|unfold run_quiet; now rewrite pump_g, flush_cur_g|exact H2].
    - apply gauge_IB. apply (keep_IB st); [apply PG, (flush_cur_G o True), G|unfold run_quiet; now rewrite pump_g, flush_cur_g|split; assumption].
    - apply gauge_IB. apply (keep_IB st); [exact (fold_offer_G o True Hsig HN ns st (fun _ => Hop) G)|apply fold_offer_g|split; assumption].
  Qed.

  Lemma gauges_in_range_l outs ops :
    Forall eop_nonneg ops -> Forall inr (s_gauges (run_exporter o outs ops)).
  Proof.
    intros F. unfold run_exporter. rewrite shutdown_g.
    assert (H : IB (fold_left (step o) ops (init_est outs))).
    { assert (H0 : IB (init_est outs)) by (split; [apply (init_G o True HN)|constructor]).
      revert H0. generalize (init_est outs). induction ops as [|op ops IH]; intros st H0; cbn [fold_left]; [exact H0|].
      inversion F; subst. apply IH; [assumption|]. apply step_IB; assumption. }
    exact (proj2 H).
  Qed.
End Gauges.

(* the checker's gauge-range clause, for the model's own observation *)
From Verif Require Import C19.Checker.

Lemma model_exp_gauges_l cfg outs ops :
  sig_of_Z (nth 0 cfg 0) <> Profiles ->
  Forall eop_nonneg (map eop_of ops) ->
  (zb (nth 1 cfg 0) = true -> 0 <= nth 4 cfg 0) ->
  Forall (fun g => 0 <= g /\ (zb (nth 1 cfg 0) = true -> g <= nth 4 cfg 0)) (s_gauges (exp_run cfg outs ops)).
Proof.
  intros Hs F Hc. unfold exp_run.
  assert (Hcap : le_cap (eopts_of cfg) 0).
  { unfold le_cap, capb, qc, new_queue_batch_config, eopts_of. cbn [o_batcher o_queue o_cap].
    destruct (zb (nth 9 cfg 0)), (zb (nth 1 cfg 0)) eqn:Eq; cbn; auto. }
  pose proof (gauges_in_range_l (eopts_of cfg) Hs Hcap (map aout_of outs) (map eop_of ops) F) as G.
  eapply Forall_impl; [|exact G]. intros g [G0 G1]. split; [exact G0|]. intros Hq.
  unfold le_cap, capb, qc, new_queue_batch_config, eopts_of in G1. cbn [o_batcher o_queue o_cap] in G1.
  rewrite Hq in G1. destruct (zb (nth 9 cfg 0)); exact G1.
Qed.
