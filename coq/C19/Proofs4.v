(* C19/Proofs4.v — exporter helper: the balance after shutdown; witnesses of S2 and C19-WFR; gauges. *)
From Verif Require Import Common.Base C19.Model C19.Proofs1 C19.Proofs2 C19.Proofs3.
Local Open Scope Z_scope.

Definition valid_batch (o : eopts) : Prop := forall mn mx, batch_cfg o = Some (mn, mx) -> 0 <= mx.

(* after shutdown every item given to Send is attributed to a counter or still in the unread part
   of a persistent queue; wait-for-result failures are attributed twice *)
Lemma exporter_accounting o outs ops :
  o_sig o <> Profiles -> valid_batch o -> Forall eop_nonneg ops ->
  let st := run_exporter o outs ops in
  s_offered st = cnt (o_sig o) (s_led st) + qsum (s_queue st) /\
  (is_storage o = false -> s_queue st = []).
Proof.
  intros Hsig Hb F st.
  destruct (run_exporter_Inv o Hsig Hb outs ops F) as (A & _ & _).
  destruct (shutdown_end o Hsig Hb (fold_left (step o) ops (init_est outs))) as (Q1 & Q2 & Q3 & Q4).
  cbn zeta in *. fold (run_exporter o outs ops) in *. fold st in A, Q1, Q2, Q3, Q4.
  unfold infl_nf in A. rewrite Q1, Q2, Q3 in A. cbn in A. unfold fsum in A. cbn in A.
  split; [unfold sg in A; lia|exact Q4].
Qed.

Lemma exporter_balance_volatile_l o outs ops :
  o_sig o <> Profiles -> valid_batch o -> Forall eop_nonneg ops ->
  is_storage o = false ->
  let st := run_exporter o outs ops in
  lget (ExpSent (o_sig o)) (s_led st) + lget (ExpFailed (o_sig o)) (s_led st) + lget (ExpEnqFailed (o_sig o)) (s_led st)
  = s_offered st.
Proof.
  intros Hsig Hb F Hs st.
  destruct (exporter_accounting o outs ops Hsig Hb F) as (A & Q). fold st in A, Q.
  rewrite (Q Hs) in A. unfold qsum in A. cbn in A. unfold cnt in A. lia.
Qed.

(* in general the excess of the three counters over offered - (unread, stored) is exactly the
   doubly attributed wait-for-result failures *)
Lemma exporter_excess_l o outs ops :
  o_sig o <> Profiles -> valid_batch o -> Forall eop_nonneg ops ->
  let st := run_exporter o outs ops in
  lget (ExpSent (o_sig o)) (s_led st) + lget (ExpFailed (o_sig o)) (s_led st) + lget (ExpEnqFailed (o_sig o)) (s_led st)
  = s_offered st - qsum (s_queue st).
Proof.
  intros Hsig Hb F st.
  destruct (exporter_accounting o outs ops Hsig Hb F) as (A & Q). fold st in A. unfold cnt in A. lia.
Qed.

(* ---- witnesses ---------------------------------------------------------------------------- *)
Definition opts_s2 : eopts :=
  {| o_sig := Logs; o_queue := true; o_storage := true; o_items_sizer := false; o_cap := 10; o_wfr := false; o_block := false; o_badmarshal := -1;
     o_qbatch := None; o_batcher := None; o_retry := true; o_tracing := true |}.

Definition opts_wfr : eopts :=
  {| o_sig := Logs; o_queue := false; o_storage := false; o_items_sizer := false; o_cap := 0; o_wfr := false; o_block := false; o_badmarshal := -1;
     o_qbatch := None; o_batcher := Some (100, 0); o_retry := false; o_tracing := false |}.

Definition balance (o : eopts) (st : est) : Prop :=
  lget (ExpSent (o_sig o)) (s_led st) + lget (ExpFailed (o_sig o)) (s_led st) + lget (ExpEnqFailed (o_sig o)) (s_led st)
  = s_offered st - s_stored st.

(* S2: persistent queue, one request of 5 items, the export is in the back-off wait at shutdown *)
Lemma s2_refuted_l :
  exists o outs ops, o_sig o <> Profiles /\ valid_batch o /\ Forall eop_nonneg ops /\
    let st := run_exporter o outs ops in
    ~ balance o st /\ s_offered st = 5 /\ s_stored st = 5 /\ lget (ExpFailed Logs) (s_led st) = 5.
Proof.
  exists opts_s2, [AHang], [OOffer 5]. split; [discriminate|]. split; [intros mn mx; discriminate|].
  split; [constructor; [cbn; lia|constructor]|]. vm_compute. repeat split; try reflexivity. discriminate.
Qed.

(* regression: the history that witnessed C19-WFR before repo fix af774a6ec (legacy batcher without a queue =
   wait_for_result, one request of 5 items, permanent error: then send_failed = 5 AND enqueue_failed = 5) *)
Lemma wfr_regression_l :
  let st := run_exporter opts_wfr [APermanent] [OOffer 5] in
  o_sig opts_wfr <> Profiles /\ is_wfr opts_wfr = true /\
  lget (ExpSent Logs) (s_led st) = 0 /\ lget (ExpFailed Logs) (s_led st) = 5 /\ lget (ExpEnqFailed Logs) (s_led st) = 0 /\
  s_offered st = 5 /\ s_stored st = 0.
Proof. vm_compute. repeat split; try reflexivity. discriminate. Qed.

(* ---- gauges -------------------------------------------------------------------------------- *)
(* every reading of the size gauge is the queue's size field at that moment (the callback observes
   delegate.Size()); the readings are appended by [gauge] only *)
Lemma gauge_reads_size st : s_gauges (gauge st) = s_gauges st ++ [s_qsize st].
Proof. reflexivity. Qed.

Lemma gauge_capacity_configured o :
  (o_queue o = true -> gauge_capacity o = o_cap o) /\
  (o_queue o = false -> o_batcher o <> None -> gauge_capacity o = 9223372036854775807).
Proof.
  unfold gauge_capacity, qc, new_queue_batch_config. split.
  - intros H. rewrite H. destruct (o_batcher o); reflexivity.
  - intros H Hb. rewrite H. destruct (o_batcher o); [reflexivity|congruence].
Qed.

(* the queue never holds more than its capacity when a request is accepted *)
Lemma accept_within_capacity o st n c cap :
  qc o = Some c -> q_cap c = Some cap ->
  0 <= n ->
  s_qsize (offer o st n) <= Z.max (s_qsize st) cap.
Proof.
  intros Hq Hc Hn. unfold offer. rewrite Hq. unfold over. rewrite Hc.
  assert (Hns : forall s k, s_qsize (note_send o s k) = s_qsize s) by (intros s k; unfold note_send; destruct (is_wfr o); reflexivity).
  unfold no_room. unfold reject, accept, set_led, add_offered.
  destruct (q_storage c).
  - destruct (q_block c && (cap <? el_size o n)); [rewrite Hns; cbn [s_qsize]; lia|].
    destruct (cap <? _) eqn:E; [rewrite Hns; cbn [s_qsize]; lia|]. destruct (n =? o_badmarshal o); rewrite Hns; cbn [s_qsize]; [lia|apply Z.ltb_ge in E; cbn [s_qsize] in E; lia].
  - destruct (el_size o n =? 0); [rewrite Hns; cbn [s_qsize]; lia|]. destruct (cap <? el_size o n); [rewrite Hns; cbn [s_qsize]; lia|].
    destruct (cap <? _) eqn:E; rewrite Hns; cbn [s_qsize]; [lia|apply Z.ltb_ge in E; cbn [s_qsize] in E; lia].
Qed.

(* ---- processor ------------------------------------------------------------------------------ *)
Lemma processor_balance_l : forall s ops,
  lget (ProcIn s) (proc_run s ops) = sumZ (map po_in ops) /\
  lget (ProcOut s) (proc_run s ops) = sumZ (map proc_forwarded ops) /\
  (forall t, t <> s -> lget (ProcIn t) (proc_run s ops) = 0 /\ lget (ProcOut t) (proc_run s ops) = 0) /\
  (forall c, is_proc_counter c = false -> lget c (proc_run s ops) = 0).
Proof.
  intros s ops. rewrite proc_run_in, proc_run_out, signal_eqb_refl. repeat split.
  - rewrite proc_run_in, signal_eqb_neq; auto.
  - rewrite proc_run_out, signal_eqb_neq; auto.
  - intros c Hc. now apply proc_run_foreign.
Qed.

(* ---- tracing -------------------------------------------------------------------------------- *)
Lemma recv_end_op_full_facts rc s n err :
  s <> Profiles ->
  lget (RecvAccepted s) (recv_end_op_full rc s n err) + lget (RecvRefused s) (recv_end_op_full rc s n err) = n /\
  (err = false -> lget (RecvAccepted s) (recv_end_op_full rc s n err) = n /\ lget (RecvRefused s) (recv_end_op_full rc s n err) = 0) /\
  (err = true -> lget (RecvAccepted s) (recv_end_op_full rc s n err) = 0 /\ lget (RecvRefused s) (recv_end_op_full rc s n err) = n) /\
  (forall c, c <> RecvAccepted s -> c <> RecvRefused s -> is_span_counter c = false -> lget c (recv_end_op_full rc s n err) = 0).
Proof.
  intros Hs. rewrite !recv_full_real by reflexivity.
  destruct (recv_end_op_facts s n err Hs) as (A & B & C & D). repeat split; auto.
  - apply B; auto.
  - apply B; auto.
  - apply C; auto.
  - apply C; auto.
  - intros c H1 H2 H3. rewrite recv_full_real by exact H3. auto.
Qed.

Lemma obs_end_op_tracing s n r c :
  is_span_counter c = false -> lget c (obs_end_op true s n r) = lget c (obs_end_op false s n r).
Proof. intros H. destruct s, r, c; simpl in *; try discriminate; lia. Qed.

Lemma obs_end_op_span s n r :
  s <> Profiles ->
  lget (SpanSent s) (obs_end_op true s n r) = lget (ExpSent s) (obs_end_op true s n r) /\
  lget (SpanFailed s) (obs_end_op true s n r) = lget (ExpFailed s) (obs_end_op true s n r) /\
  lget (SpanSent s) (obs_end_op false s n r) = 0 /\ lget (SpanFailed s) (obs_end_op false s n r) = 0.
Proof. intros H. destruct s, r; try congruence; simpl; lia. Qed.

Lemma tracing_irrelevant_l :
  (forall ops ops' c, is_span_counter c = false -> map ro_core ops = map ro_core ops' ->
     lget c (recv_run ops) = lget c (recv_run ops')) /\
  (forall rc rc' k ops c, is_span_counter c = false -> lget c (scr_run rc k ops) = lget c (scr_run rc' k ops)) /\
  (forall s n r c, is_span_counter c = false -> lget c (obs_end_op true s n r) = lget c (obs_end_op false s n r)).
Proof. exact (conj recv_run_tracing_irrelevant (conj scr_run_tracing_irrelevant obs_end_op_tracing)). Qed.
