(* C19/Model.v — self-telemetry item counters: a LEDGER model, written after the Go code.
   Executable Gallina only (no proofs).  Every function names the Go function it follows.

   Code modelled (pinned tree):
     receiver/receiverhelper/obsreport.go            endOp, recordMetrics
     scraper/scraperhelper/obs_metrics.go, obs_logs.go  wrapObsMetrics, wrapObsLogs
     scraper/scraperhelper/controller.go             scrapeMetrics, scrapeLogs   (S5 kept as it is)
     processor/processorhelper/{logs,metrics,traces}.go + obsreport.go recordInOut
     exporter/exporterhelper/internal/obs_report_sender.go  Send, endOp, toNumItems
     exporter/exporterhelper/internal/queuebatch/obs_queue.go Offer, size/capacity callbacks
     exporter/exporterhelper/internal/base_exporter.go      NewBaseExporter (sender chain), Shutdown order
     exporter/exporterhelper/internal/queue_sender.go       newQueueBatchConfig
     exporter/exporterhelper/internal/retry_sender.go       Send (attempt loop, stopCh)
     exporter/exporterhelper/internal/queuebatch/{memory_queue,persistent_queue}.go Offer/Read/onDone (sizes only)
     exporter/exporterhelper/internal/queuebatch/default_batcher.go Consume, flush, flushCurrentBatchIfNecessary,
                                                                   refCountDone, multiDone; disabled_batcher.go
     exporter/exporterhelper/internal/requesttest/request.go FakeRequest.MergeSplit (items sizer)

   A ledger is the list of increments applied to named counters (instrument + the attribute that
   distinguishes signals); the value of a counter is the sum of its increments. *)
From Verif Require Import Common.Base.
Local Open Scope Z_scope.

Inductive signal := Traces | Metrics | Logs | Profiles.

Definition signal_eqb (a b : signal) : bool :=
  match a, b with
  | Traces, Traces | Metrics, Metrics | Logs, Logs | Profiles, Profiles => true
  | _, _ => false
  end.

Inductive counter :=
| RecvAccepted (s : signal)   (* otelcol_receiver_accepted_{spans,metric_points,log_records} *)
| RecvRefused (s : signal)    (* otelcol_receiver_refused_...                                *)
| ScrScraped (s : signal)     (* otelcol_scraper_scraped_{metric_points,log_records}         *)
| ScrErrored (s : signal)     (* otelcol_scraper_errored_...                                 *)
| ProcIn (s : signal)         (* otelcol_processor_incoming_items{otel.signal=s}             *)
| ProcOut (s : signal)        (* otelcol_processor_outgoing_items{otel.signal=s}             *)
| ExpSent (s : signal)        (* otelcol_exporter_sent_...                                   *)
| ExpFailed (s : signal)      (* otelcol_exporter_send_failed_...                            *)
| ExpEnqFailed (s : signal)   (* otelcol_exporter_enqueue_failed_...                         *)
(* pseudo-counters: the SUM, over the spans that were recording, of the item attributes the helper
   sets on the span of the operation (no instrument: read from the span recorder) *)
| SpanAcc (s : signal)        (* accepted_{spans,metric_points,log_records} attribute of receiver spans *)
| SpanRef (s : signal)        (* refused_...                                                            *)
| SpanScraped (s : signal)    (* scraped_{metric_points,log_records} attribute of scraper spans         *)
| SpanErrored (s : signal)    (* errored_...                                                            *)
| SpanSent (s : signal)       (* items.sent attribute of exporter spans                                 *)
| SpanFailed (s : signal)     (* items.failed                                                           *)
(* pipeline instrumentation (service/internal/obsconsumer): the item counter it is given, by outcome *)
| PipeOk (s : signal)         (* <item counter>{outcome=success} *)
| PipeFail (s : signal).      (* <item counter>{outcome=failure} *)

Definition counter_eqb (a b : counter) : bool :=
  match a, b with
  | RecvAccepted s, RecvAccepted t | RecvRefused s, RecvRefused t
  | ScrScraped s, ScrScraped t | ScrErrored s, ScrErrored t
  | ProcIn s, ProcIn t | ProcOut s, ProcOut t
  | ExpSent s, ExpSent t | ExpFailed s, ExpFailed t | ExpEnqFailed s, ExpEnqFailed t
  | SpanAcc s, SpanAcc t | SpanRef s, SpanRef t | SpanScraped s, SpanScraped t | SpanErrored s, SpanErrored t
  | SpanSent s, SpanSent t | SpanFailed s, SpanFailed t
  | PipeOk s, PipeOk t | PipeFail s, PipeFail t => signal_eqb s t
  | _, _ => false
  end.

Definition ledger := list (counter * Z).

Fixpoint lget (c : counter) (l : ledger) : Z :=
  match l with
  | [] => 0
  | (c', v) :: t => (if counter_eqb c c' then v else 0) + lget c t
  end.

(* ============================== receiver ============================================== *)

(* receiverhelper/obsreport.go recordMetrics: the switch has cases for traces, metrics and logs
   only (there is no exported End…Op for profiles; the nil instruments would panic). *)
Definition recv_record_metrics (s : signal) (acc ref : Z) : ledger :=
  match s with
  | Traces => [(RecvAccepted Traces, acc); (RecvRefused Traces, ref)]
  | Metrics => [(RecvAccepted Metrics, acc); (RecvRefused Metrics, ref)]
  | Logs => [(RecvAccepted Logs, acc); (RecvRefused Logs, ref)]
  | Profiles => []
  end.

(* receiverhelper/obsreport.go endOp *)
Definition recv_end_op (s : signal) (n : Z) (err : bool) : ledger :=
  let acc := if err then 0 else n in
  let ref := if err then n else 0 in
  recv_record_metrics s acc ref.

(* receiverhelper/obsreport.go endOp, the `if span.IsRecording()` block: the item attributes are set
   on the span only when it is recording (SDK tracer + sampled); the counters above are recorded
   BEFORE and OUTSIDE that block, whatever the tracer provider / sampler is *)
Definition recv_end_span (recording : bool) (s : signal) (n : Z) (err : bool) : ledger :=
  let acc := if err then 0 else n in
  let ref := if err then n else 0 in
  if recording then
    match s with
    | Profiles => []
    | _ => [(SpanAcc s, acc); (SpanRef s, ref)]
    end
  else [].

Definition recv_end_op_full (recording : bool) (s : signal) (n : Z) (err : bool) : ledger :=
  recv_end_op s n err ++ recv_end_span recording s n err.

(* one receive operation: EndTracesOp / EndMetricsOp / EndLogsOp; ro_rec = the operation's span is recording *)
Record recv_op := { ro_sig : signal; ro_n : Z; ro_err : bool; ro_rec : bool }.

Definition recv_run (ops : list recv_op) : ledger :=
  flat_map (fun o => recv_end_op_full (ro_rec o) (ro_sig o) (ro_n o) (ro_err o)) ops.

(* ============================== scraper controller ===================================== *)

Inductive scr_kind := KMetrics | KLogs.
Definition sig_of_kind (k : scr_kind) : signal := match k with KMetrics => Metrics | KLogs => Logs end.

Inductive scr_err := SNone | SPartial (failed : Z) | SFull.

(* what one scraper returned: sr_items = DataPointCount / LogRecordCount of the returned data,
   sr_metrics = MetricCount of the returned data (metrics only) *)
Record scr_res := { sr_items : Z; sr_metrics : Z; sr_err : scr_err }.

(* obs_metrics.go wrapObsMetrics / obs_logs.go wrapObsLogs.  NB the metrics wrapper adds
   md.MetricCount() (not the data-point count) to scraped_metric_points. *)
Definition scr_wrap (recording : bool) (k : scr_kind) (r : scr_res) : ledger :=
  let cnt := match k with KMetrics => sr_metrics r | KLogs => sr_items r end in
  let scraped := match sr_err r with SNone => cnt | SPartial _ => cnt | SFull => 0 end in
  let errored := match sr_err r with SPartial f => f | _ => 0 end in
  [(ScrScraped (sig_of_kind k), scraped); (ScrErrored (sig_of_kind k), errored)] ++
  (* `if span.IsRecording()`: attributes only; the two Add calls above are outside the block *)
  (if recording then [(SpanScraped (sig_of_kind k), scraped); (SpanErrored (sig_of_kind k), errored)] else []).

(* controller.go: `if err != nil && !IsPartialScrapeError(err) { continue }` *)
Definition scr_kept (r : scr_res) : bool := match sr_err r with SFull => false | _ => true end.

Definition scr_offered (rs : list scr_res) : Z := sumZ (map sr_items (filter scr_kept rs)).

(* controller.go scrapeMetrics / scrapeLogs: BOTH bracket the consume call with
   StartMetricsOp / EndMetricsOp (S5: the logs controller should use the logs operation). *)
Definition scrape (recording : bool) (k : scr_kind) (rs : list scr_res) (down_err : bool) : ledger :=
  flat_map (scr_wrap recording k) rs ++ recv_end_op_full recording Metrics (scr_offered rs) down_err.

Record scr_op := { so_res : list scr_res; so_err : bool }.

(* recording: the tracer provider of the receiver's telemetry settings produces recording spans *)
Definition scr_run (recording : bool) (k : scr_kind) (ops : list scr_op) : ledger :=
  flat_map (fun o => scrape recording k (so_res o) (so_err o)) ops.

(* ============================== processor helper ====================================== *)

(* what the ProcessXFunc returned: data with n_out items and then the next consumer's result,
   an error, or ErrSkipProcessingData *)
Inductive proc_res := PForward (n_out : Z) (next_err : bool) | PError | PSkip.

Record proc_op := { po_in : Z; po_res : proc_res }.

(* processorhelper/logs.go (metrics.go, traces.go identical up to the count function) *)
Definition proc_step (s : signal) (o : proc_op) : ledger :=
  match po_res o with
  | PForward n_out _ => [(ProcIn s, po_in o); (ProcOut s, n_out)]
  | PError => [(ProcIn s, po_in o); (ProcOut s, 0)]
  | PSkip => [(ProcIn s, po_in o); (ProcOut s, 0)]
  end.

(* items handed to the next consumer / error returned to the caller *)
Definition proc_forwarded (o : proc_op) : Z := match po_res o with PForward n _ => n | _ => 0 end.
Definition proc_returns_err (o : proc_op) : bool :=
  match po_res o with PForward _ e => e | PError => true | PSkip => false end.

Definition proc_run (s : signal) (ops : list proc_op) : ledger := flat_map (proc_step s) ops.

(* ============================== pipeline instrumentation (obsconsumer) ================= *)

(* one Consume call through service/internal/obsconsumer {logs,metrics,traces,profiles}.go:
   pc_n = items in the payload when the call is made, pc_after = items left in the payload when the
   downstream consumer returns (it may move them out, drop some, add some: MutatesData),
   pc_err = the downstream consumer returned an error *)
Record pipe_op := { pc_n : Z; pc_after : Z; pc_err : bool }.

(* `itemCount := ld.LogRecordCount()` is taken BEFORE the downstream call ("the data may be mutated
   downstream"); the outcome attribute follows the error; all four signals alike *)
Definition pipe_consume (s : signal) (o : pipe_op) : ledger :=
  if pc_err o then [(PipeFail s, pc_n o)] else [(PipeOk s, pc_n o)].

Definition pipe_run (s : signal) (ops : list pipe_op) : ledger := flat_map (pipe_consume s) ops.

(* ============================== exporter helper ======================================= *)

(* outcome of ONE pusher call, scripted by the environment *)
Inductive aout :=
| AOk
| ATransient
| APermanent
| APartial (k : Z)   (* k items remain; the request is replaced by the remainder (OnError) *)
| AHang.             (* retryable error with a throttle delay that only shutdown interrupts *)

(* class of the error an export finally returns to the obs-report sender *)
Inductive eres := ROk | RErr | RShutdown.

Definition eres_is_ok (r : eres) : bool := match r with ROk => true | _ => false end.
Definition eres_is_shutdown (r : eres) : bool := match r with RShutdown => true | _ => false end.

(* obs_report_sender.go endOp + toNumItems; no instruments for profiles *)
(* obs_report_sender.go toNumItems (hand transcription; Translated.v proves it equal to the definition
   translator T1 generates from the current source) *)
Definition to_num_items (n : Z) (err : bool) : Z * Z := if err then (0, n) else (n, 0).

Definition obs_end_op (recording : bool) (s : signal) (items : Z) (r : eres) : ledger :=
  let sent := fst (to_num_items items (negb (eres_is_ok r))) in
  let failed := snd (to_num_items items (negb (eres_is_ok r))) in
  match s with
  | Profiles => []
  | _ => [(ExpSent s, sent); (ExpFailed s, failed)]
  end ++
  (* `if span.IsRecording()`: items.sent / items.failed attributes (set for every signal) *)
  (if recording then [(SpanSent s, sent); (SpanFailed s, failed)] else []).

(* obs_queue.go Offer, error branch *)
Definition obs_enqueue_failed (s : signal) (items : Z) : ledger :=
  match s with
  | Profiles => []
  | _ => [(ExpEnqFailed s, items)]
  end.

Inductive xres := XDone (r : eres) | XHung.

(* retry_sender.go Send on top of the pusher (the timeout sender in between does not change
   the class).  retry = false: the retry sender is absent, the pusher's error is final.
   down = stopCh closed: the back-off select returns the shutdown error at once. *)
Fixpoint retry_send (retry down : bool) (outs : list aout) : xres * list aout :=
  match outs with
  | [] => (XDone ROk, [])
  | AOk :: t => (XDone ROk, t)
  | APermanent :: t => (XDone RErr, t)
  | AHang :: t =>
      if retry then (if down then (XDone RShutdown, t) else (XHung, t)) else (XDone RErr, t)
  | ATransient :: t | APartial _ :: t =>
      if retry then (if down then (XDone RShutdown, t) else retry_send retry down t) else (XDone RErr, t)
  end.

(* options given to NewBaseExporter *)
Record eopts := {
  o_sig : signal;
  o_queue : bool;                 (* WithQueue / WithQueueBatch, cfg.Enabled *)
  o_storage : bool;               (* cfg.StorageID != nil *)
  o_items_sizer : bool;           (* cfg.Sizer = items (else requests) *)
  o_cap : Z;                      (* cfg.QueueSize *)
  o_wfr : bool;                   (* cfg.WaitForResult *)
  o_block : bool;                 (* cfg.BlockOnOverflow *)
  o_badmarshal : Z;               (* item count of the requests the queue's Encoding refuses to marshal (-1: none) *)
  o_qbatch : option (Z * Z);      (* cfg.Batch: (MinSize, MaxSize), items sizer (config.Validate) *)
  o_batcher : option (Z * Z);     (* legacy WithBatcher: (MinSize, MaxSize) *)
  o_retry : bool;
  o_tracing : bool }.             (* the tracer provider produces recording spans (SDK + sampled) *)

(* the queue-batch actually built *)
Record qcfg := {
  q_storage : bool;
  q_items_sizer : bool;
  q_cap : option Z;               (* None = math.MaxInt *)
  q_wfr : bool;
  q_block : bool;
  q_batch : option (Z * Z) }.

(* base_exporter.go `if be.queueCfg.Enabled || be.batcherCfg.Enabled` + queue_sender.go newQueueBatchConfig *)
Definition new_queue_batch_config (o : eopts) : option qcfg :=
  match o_batcher o with
  | None =>
      if o_queue o
      then Some {| q_storage := o_storage o; q_items_sizer := o_items_sizer o; q_cap := Some (o_cap o);
                   q_wfr := o_wfr o; q_block := o_block o; q_batch := o_qbatch o |}
      else None
  | Some b =>
      if o_queue o
      then Some {| q_storage := o_storage o; q_items_sizer := o_items_sizer o; q_cap := Some (o_cap o);
                   q_wfr := o_wfr o; q_block := o_block o; q_batch := Some b |}
      else Some {| q_storage := false; q_items_sizer := false; q_cap := None; q_wfr := true; q_block := true; q_batch := Some b |}
  end.

(* a Done handle of the queue: which request, its size in the queue's unit, its item count *)
Record done := { d_id : nat; d_el : Z; d_items : Z }.

(* a batch waiting for / in export: item count and the Done handles attached (multiDone) *)
Definition flushrec := (Z * list done)%type.

Record est := {
  s_led : ledger;
  s_outs : list aout;                 (* remaining scripted pusher outcomes *)
  s_next : nat;                       (* next request id *)
  s_queue : list (nat * Z);           (* unread requests (id, items), FIFO *)
  s_qsize : Z;                        (* memoryQueue.size / persistentQueue.queueSize *)
  s_ref : list (nat * (done * (Z * eres)));  (* refCountDone cells: id -> (the Done behind it, refCount, accumulated error) *)
  s_cur : option flushrec;            (* defaultBatcher.currentBatch *)
  s_flushq : list flushrec;           (* flush() calls waiting for the single worker *)
  s_hung : option flushrec;           (* export sitting in the back-off select until shutdown *)
  s_down : bool;                      (* retrySender.stopCh closed *)
  (* ground truth kept beside the ledger *)
  s_offered : Z;                      (* items given to Send *)
  s_stored : Z;                       (* items of request bodies present in the storage *)
  s_shut : Z;                         (* items of exports that ended with the shutdown error *)
  s_kept : Z;                         (* items of requests left in storage by a shutdown-class OnDone *)
  s_gauges : list Z;                  (* queue-size gauge readings *)
  s_sends : list Z                    (* what each Send through a queue returned: 0 nil | 1 ErrQueueIsFull |
                                         2 errSizeTooLarge | 4 the Encoding's marshal error (persistent queue) |
                                         3 the producer's context error (gave up while
                                         blocked on a full queue); not recorded with wait_for_result *)
}.

Definition set_led (st : est) (l : ledger) : est :=
  {| s_led := l; s_outs := s_outs st; s_next := s_next st; s_queue := s_queue st; s_qsize := s_qsize st;
     s_ref := s_ref st; s_cur := s_cur st; s_flushq := s_flushq st; s_hung := s_hung st; s_down := s_down st;
     s_offered := s_offered st; s_stored := s_stored st; s_shut := s_shut st; s_kept := s_kept st; s_gauges := s_gauges st; s_sends := s_sends st |}.

Definition init_est (outs : list aout) : est :=
  {| s_led := []; s_outs := outs; s_next := O; s_queue := []; s_qsize := 0; s_ref := []; s_cur := None;
     s_flushq := []; s_hung := None; s_down := false; s_offered := 0; s_stored := 0; s_shut := 0;
     s_kept := 0; s_gauges := []; s_sends := [] |}.

Section Exporter.
  Variable o : eopts.

  Definition sg : signal := o_sig o.
  Definition qc : option qcfg := new_queue_batch_config o.
  Definition is_storage : bool := match qc with Some c => q_storage c | None => false end.
  Definition is_wfr : bool := match qc with Some c => q_wfr c | None => false end.
  Definition batch_cfg : option (Z * Z) := match qc with Some c => q_batch c | None => None end.

  (* memory_queue.go onDone / persistent_queue.go onDone.  With wait_for_result the blocked Offer returns the
     result wrapped in acceptedError; obs_queue.go Offer recognises it, counts NO enqueue failure and hands the
     wrapped error itself back to the caller (repo fix af774a6ec: before, a failed export was counted
     send_failed and enqueue_failed) *)
  Definition on_done (d : done) (r : eres) (st : est) : est :=
    let qs := if is_storage then Z.max 0 (s_qsize st - d_el d) else s_qsize st - d_el d in
    let del := is_storage && negb (eres_is_shutdown r) in
    let keep := is_storage && eres_is_shutdown r in
    {| s_led := s_led st;
       s_outs := s_outs st; s_next := s_next st; s_queue := s_queue st; s_qsize := qs;
       s_ref := s_ref st; s_cur := s_cur st; s_flushq := s_flushq st; s_hung := s_hung st; s_down := s_down st;
       s_offered := s_offered st;
       s_stored := if del then s_stored st - d_items d else s_stored st;
       s_shut := s_shut st;
       s_kept := if keep then s_kept st + d_items d else s_kept st;
       s_gauges := s_gauges st; s_sends := s_sends st |}.

  (* multierr.Append(acc, err) seen through experr.IsShutdownErr / == nil *)
  Definition comb (a b : eres) : eres :=
    match a, b with
    | ROk, x => x
    | x, ROk => x
    | RShutdown, _ | _, RShutdown => RShutdown
    | RErr, RErr => RErr
    end.

  Fixpoint ref_lookup (id : nat) (l : list (nat * (done * (Z * eres)))) : option (done * (Z * eres)) :=
    match l with
    | [] => None
    | (i, v) :: t => if Nat.eqb i id then Some v else ref_lookup id t
    end.

  Fixpoint ref_remove (id : nat) (l : list (nat * (done * (Z * eres)))) : list (nat * (done * (Z * eres))) :=
    match l with
    | [] => []
    | (i, v) :: t => if Nat.eqb i id then t else (i, v) :: ref_remove id t
    end.

  Definition set_ref (st : est) (r : list (nat * (done * (Z * eres)))) : est :=
    {| s_led := s_led st; s_outs := s_outs st; s_next := s_next st; s_queue := s_queue st; s_qsize := s_qsize st;
       s_ref := r; s_cur := s_cur st; s_flushq := s_flushq st; s_hung := s_hung st; s_down := s_down st;
       s_offered := s_offered st; s_stored := s_stored st; s_shut := s_shut st; s_kept := s_kept st; s_gauges := s_gauges st; s_sends := s_sends st |}.

  (* Done.OnDone(err): a plain queue Done, or a refCountDone in front of it *)
  Definition fire (r : eres) (st : est) (d : done) : est :=
    match ref_lookup (d_id d) (s_ref st) with
    | None => on_done d r st
    | Some (d0, (cnt, acc)) =>
        (* refCountDone.OnDone: rcd.refCount--; at 0 the Done behind it (rcd.done) is called *)
        let acc' := comb acc r in
        if cnt <=? 1
        then on_done d0 acc' (set_ref st (ref_remove (d_id d) (s_ref st)))
        else set_ref st ((d_id d, (d0, (cnt - 1, acc'))) :: ref_remove (d_id d) (s_ref st))
    end.

  (* multiDone.OnDone *)
  Definition fire_all (r : eres) (ds : list done) (st : est) : est := fold_left (fire r) ds st.

  (* one export: queue_sender.go exportFunc -> obsReportSender.Send -> retrySender.Send -> pusher *)
  Definition export (st : est) (f : flushrec) : est :=
    let '(items, ds) := f in
    match retry_send (o_retry o) (s_down st) (s_outs st) with
    | (XHung, outs') =>
        {| s_led := s_led st; s_outs := outs'; s_next := s_next st; s_queue := s_queue st; s_qsize := s_qsize st;
           s_ref := s_ref st; s_cur := s_cur st; s_flushq := s_flushq st; s_hung := Some f; s_down := s_down st;
           s_offered := s_offered st; s_stored := s_stored st; s_shut := s_shut st; s_kept := s_kept st; s_gauges := s_gauges st; s_sends := s_sends st |}
    | (XDone r, outs') =>
        fire_all r ds
          {| s_led := s_led st ++ obs_end_op (o_tracing o) sg items r; s_outs := outs'; s_next := s_next st;
             s_queue := s_queue st; s_qsize := s_qsize st; s_ref := s_ref st; s_cur := s_cur st;
             s_flushq := s_flushq st; s_hung := s_hung st; s_down := s_down st;
             s_offered := s_offered st; s_stored := s_stored st;
             s_shut := if eres_is_shutdown r then s_shut st + items else s_shut st;
             s_kept := s_kept st; s_gauges := s_gauges st; s_sends := s_sends st |}
    end.

  Definition set_flushq (st : est) (q : list flushrec) : est :=
    {| s_led := s_led st; s_outs := s_outs st; s_next := s_next st; s_queue := s_queue st; s_qsize := s_qsize st;
       s_ref := s_ref st; s_cur := s_cur st; s_flushq := q; s_hung := s_hung st; s_down := s_down st;
       s_offered := s_offered st; s_stored := s_stored st; s_shut := s_shut st; s_kept := s_kept st; s_gauges := s_gauges st; s_sends := s_sends st |}.

  Definition set_cur (st : est) (c : option flushrec) : est :=
    {| s_led := s_led st; s_outs := s_outs st; s_next := s_next st; s_queue := s_queue st; s_qsize := s_qsize st;
       s_ref := s_ref st; s_cur := c; s_flushq := s_flushq st; s_hung := s_hung st; s_down := s_down st;
       s_offered := s_offered st; s_stored := s_stored st; s_shut := s_shut st; s_kept := s_kept st; s_gauges := s_gauges st; s_sends := s_sends st |}.

  (* the single worker (workerPool of size 1 / the single consumer) runs the waiting flushes in
     order until one hangs in the back-off *)
  Fixpoint work_list (fq : list flushrec) (st : est) : est :=
    match fq with
    | [] => set_flushq st []
    | f :: t =>
        match s_hung st with
        | Some _ => set_flushq st (f :: t)
        | None => work_list t (export st f)
        end
    end.

  Definition work (st : est) : est := work_list (s_flushq st) st.

  (* requesttest.FakeRequest.MergeSplit, items sizer: the split loop *)
  Fixpoint fr_split (fuel : nat) (mx r : Z) : list Z :=
    match fuel with
    | O => []
    | S f => if r =? 0 then [] else if r <=? mx then [r] else mx :: fr_split f mx (r - mx)
    end.

  Definition merge_split (mx r : Z) (r2 : option Z) : list Z :=
    let r' := match r2 with Some x => r + x | None => r end in
    if mx =? 0 then [r'] else fr_split (S (Z.to_nat r')) mx r'.

  Definition push_flushes (st : est) (l : list flushrec) : est := set_flushq st (s_flushq st ++ l).

  (* refCountDone is created only when the request was split into more than one part *)
  Definition with_ref (st : est) (d : done) (parts : list Z) : est :=
    if (1 <? Z.of_nat (length parts)) then set_ref st ((d_id d, (d, (Z.of_nat (length parts), ROk))) :: s_ref st) else st.

  (* default_batcher.go Consume (the flushes are queued for the worker) / disabled_batcher.go Consume *)
  Definition consume (st : est) (d : done) : est :=
    match batch_cfg with
    | None => push_flushes st [(d_items d, [d])]
    | Some (mn, mx) =>
        match s_cur st with
        | None =>
            let l := merge_split mx (d_items d) None in
            match l with
            | [] => fire ROk st d
            | _ =>
                let st1 := with_ref st d l in
                let lst := last l 0 in
                if lst <? mn
                then push_flushes (set_cur st1 (Some (lst, [d]))) (map (fun x => (x, [d])) (removelast l))
                else push_flushes st1 (map (fun x => (x, [d])) l)
            end
        | Some (ci, cd) =>
            let l := merge_split mx ci (Some (d_items d)) in
            match l with
            | [] => fire ROk st d
            | first :: rest =>
                (* repo fix 6f74b829b: when the request had to be split and nothing of it fitted beside the items
                   already batched (the first result still has exactly the old item count), the first batch gets
                   no Done of this request and the refCount is one less *)
                let first_holds_new := negb (1 <? Z.of_nat (length l)) || negb (first =? ci) in
                let st1 := with_ref st d (if first_holds_new then l else rest) in
                let cur' := (first, if first_holds_new then cd ++ [d] else cd) in
                let flush_first := (1 <? Z.of_nat (length l)) || (mn <=? first) in
                let st2 := if flush_first then push_flushes (set_cur st1 None) [cur'] else set_cur st1 (Some cur') in
                match rest with
                | [] => st2
                | _ =>
                    let lst := last rest 0 in
                    if lst <? mn
                    then push_flushes (set_cur st2 (Some (lst, [d]))) (map (fun x => (x, [d])) (removelast rest))
                    else push_flushes st2 (map (fun x => (x, [d])) rest)
                end
            end
        end
    end.

  Definition el_size (n : Z) : Z :=
    match qc with Some c => if q_items_sizer c then n else 1 | None => 1 end.

  (* asyncQueue consumer: Read one request (memory_queue.go / persistent_queue.go Read) and hand it
     to the batcher.  persistent: `if pq.readIndex == pq.writeIndex { pq.queueSize = 0 }` *)
  Definition read_one (st : est) : est :=
    match s_queue st with
    | [] => st
    | (id, n) :: t =>
        let qs := if is_storage then (match t with [] => 0 | _ => s_qsize st end) else s_qsize st in
        consume
          {| s_led := s_led st; s_outs := s_outs st; s_next := s_next st; s_queue := t; s_qsize := qs;
             s_ref := s_ref st; s_cur := s_cur st; s_flushq := s_flushq st; s_hung := s_hung st; s_down := s_down st;
             s_offered := s_offered st; s_stored := s_stored st; s_shut := s_shut st; s_kept := s_kept st; s_gauges := s_gauges st; s_sends := s_sends st |}
          {| d_id := id; d_el := el_size n; d_items := n |}
    end.

  (* run to quiescence: the worker exports, the consumer reads, until nothing moves *)
  Fixpoint pump (fuel : nat) (st : est) : est :=
    match fuel with
    | O => st
    | S f =>
        let st1 := work st in
        match s_hung st1, s_queue st1 with
        | Some _, _ => st1
        | None, [] => st1
        | None, _ :: _ => pump f (read_one st1)
        end
    end.

  Definition run_quiet (st : est) : est := pump (S (length (s_queue st))) st.

  (* gate closed (the pusher blocks on entry): the consumer still reads until one export is pending *)
  Fixpoint pump_closed (fuel : nat) (st : est) : est :=
    match fuel with
    | O => st
    | S f =>
        match s_hung st, s_flushq st, s_queue st with
        | None, [], _ :: _ => pump_closed f (read_one st)
        | _, _, _ => st
        end
    end.

  Definition add_offered (st : est) (n : Z) : est :=
    {| s_led := s_led st; s_outs := s_outs st; s_next := s_next st; s_queue := s_queue st; s_qsize := s_qsize st;
       s_ref := s_ref st; s_cur := s_cur st; s_flushq := s_flushq st; s_hung := s_hung st; s_down := s_down st;
       s_offered := s_offered st + n; s_stored := s_stored st; s_shut := s_shut st; s_kept := s_kept st; s_gauges := s_gauges st; s_sends := s_sends st |}.

  (* accept into the queue: memoryQueue.add / persistentQueue.putInternal after the capacity check *)
  Definition accept (st : est) (n : Z) : est :=
    {| s_led := s_led st; s_outs := s_outs st; s_next := S (s_next st);
       s_queue := s_queue st ++ [(s_next st, n)]; s_qsize := s_qsize st + el_size n;
       s_ref := s_ref st; s_cur := s_cur st; s_flushq := s_flushq st; s_hung := s_hung st; s_down := s_down st;
       s_offered := s_offered st;
       s_stored := if is_storage then s_stored st + n else s_stored st;
       s_shut := s_shut st; s_kept := s_kept st; s_gauges := s_gauges st; s_sends := s_sends st |}.

  Definition reject (st : est) (n : Z) : est := set_led st (s_led st ++ obs_enqueue_failed sg n).

  Definition over (cap : option Z) (x : Z) : bool := match cap with Some c => c <? x | None => false end.

  (* what the Send returned to its caller (not recorded with wait_for_result, where it is the export's result) *)
  Definition note_send (st : est) (k : Z) : est :=
    if is_wfr then st else
    {| s_led := s_led st; s_outs := s_outs st; s_next := s_next st; s_queue := s_queue st; s_qsize := s_qsize st;
       s_ref := s_ref st; s_cur := s_cur st; s_flushq := s_flushq st; s_hung := s_hung st; s_down := s_down st;
       s_offered := s_offered st; s_stored := s_stored st; s_shut := s_shut st; s_kept := s_kept st; s_gauges := s_gauges st; s_sends := s_sends st ++ [k] |}.

  (* memoryQueue.add / persistentQueue.putInternal when there is no room: without block_on_overflow
     ErrQueueIsFull; with it the producer waits on hasMoreSpace.Wait(ctx) - in the sequential schedules of
     this model no room appears while it waits, so it gives up when its context ends and Wait returns
     ctx.Err().  Either way obs_queue.go Offer sees a non-nil error and counts the items enqueue_failed. *)
  Definition no_room (c : qcfg) (st : est) (n : Z) : est :=
    note_send (reject st n) (if q_block c then 3 else 1).

  (* BaseExporter.Send: with a queue obs_queue.go Offer -> memory_queue.go Offer / persistent putInternal;
     without a queue the obs-report sender is the first sender (synchronous export, no Done) *)
  Definition offer (st0 : est) (n : Z) : est :=
    let st := add_offered st0 n in
    match qc with
    | None => work (push_flushes st [(n, [])])
    | Some c =>
        let el := el_size n in
        if q_storage c
        then (if q_block c && over (q_cap c) el then note_send (reject st n) 2   (* persistent putInternal: `blockOnOverflow && reqSize > capacity` -> errSizeTooLarge *)
              else if over (q_cap c) (s_qsize st + el) then no_room c st n
              else if n =? o_badmarshal o then note_send (reject st n) 4   (* `reqBuf, err := encoding.Marshal(req); if err != nil { return err }` *)
              else note_send (accept st n) 0)
        else if el =? 0 then note_send st 0                      (* `if elSize == 0 { return nil }` *)
        else if over (q_cap c) el then note_send (reject st n) 2 (* errSizeTooLarge *)
        else if over (q_cap c) (s_qsize st + el) then no_room c st n  (* ErrQueueIsFull / ctx.Err() *)
        else note_send (accept st n) 0
    end.

  Definition gauge (st : est) : est :=
    {| s_led := s_led st; s_outs := s_outs st; s_next := s_next st; s_queue := s_queue st; s_qsize := s_qsize st;
       s_ref := s_ref st; s_cur := s_cur st; s_flushq := s_flushq st; s_hung := s_hung st; s_down := s_down st;
       s_offered := s_offered st; s_stored := s_stored st; s_shut := s_shut st; s_kept := s_kept st; s_gauges := s_gauges st ++ [s_qsize st]; s_sends := s_sends st |}.

  (* defaultBatcher.flushCurrentBatchIfNecessary (timer goroutine / Shutdown) *)
  Definition flush_cur (st : est) : est :=
    match s_cur st with
    | None => st
    | Some b => push_flushes (set_cur st None) [b]
    end.

  Inductive eop :=
  | OOffer (n : Z)           (* one Send, then the pipeline runs to quiescence; with wait_for_result the
                                flush timer fires before Send returns *)
  | OBurst (ns : list Z)     (* pusher gate closed; Sends; gauges read; gate opened; run to quiescence; gauges read *)
  | OFlush                   (* the batcher's flush timer fires *)
  | OBurstShut (ns : list Z). (* pusher gate closed; Sends; gauges read; then Shutdown is called - with a context that
                                expires while the gate is still closed: the code does not look at it - and only then the
                                gate is opened: everything queued is exported under the closed stopCh (last operation) *)

  Definition step (st : est) (op : eop) : est :=
    match op with
    | OOffer n =>
        let st1 := run_quiet (offer st n) in
        let st2 := if is_wfr then run_quiet (flush_cur st1) else st1 in
        gauge st2
    | OBurst ns =>
        (* with wait_for_result the gated Sends come from producers whose context ends while their request is
           still queued / being exported (Offer returns the context's error; the request stays in the queue and
           keeps its size until it is done); the flush timer fires before the pipeline is quiet *)
        let st1 := fold_left (fun s n => let s' := offer s n in pump_closed (S (length (s_queue s'))) s') ns st in
        let st2 := run_quiet (gauge st1) in
        let st3 := if is_wfr then run_quiet (flush_cur st2) else st2 in
        gauge st3
    | OFlush => gauge (run_quiet (flush_cur st))
    | OBurstShut ns =>
        gauge (fold_left (fun s n => let s' := offer s n in pump_closed (S (length (s_queue s'))) s') ns st)
    end.

  Definition set_down (st : est) : est :=
    {| s_led := s_led st; s_outs := s_outs st; s_next := s_next st; s_queue := s_queue st; s_qsize := s_qsize st;
       s_ref := s_ref st; s_cur := s_cur st; s_flushq := s_flushq st; s_hung := s_hung st; s_down := true;
       s_offered := s_offered st; s_stored := s_stored st; s_shut := s_shut st; s_kept := s_kept st; s_gauges := s_gauges st; s_sends := s_sends st |}.

  (* the hung export is released by stopCh: it returns experr.NewShutdownErr *)
  Definition release_hung (st : est) : est :=
    match s_hung st with
    | None => st
    | Some (items, ds) =>
        fire_all RShutdown ds
          {| s_led := s_led st ++ obs_end_op (o_tracing o) sg items RShutdown; s_outs := s_outs st; s_next := s_next st;
             s_queue := s_queue st; s_qsize := s_qsize st; s_ref := s_ref st; s_cur := s_cur st;
             s_flushq := s_flushq st; s_hung := None; s_down := s_down st;
             s_offered := s_offered st; s_stored := s_stored st; s_shut := s_shut st + items;
             s_kept := s_kept st; s_gauges := s_gauges st; s_sends := s_sends st |}
    end.

  (* BaseExporter.Shutdown: RetrySender.Shutdown (close stopCh), QueueSender.Shutdown =
     queue.Shutdown (memory: consumers drain what is left; persistent: Read returns !ok, the
     unread requests stay stored) then batcher.Shutdown (flush the current batch, wait) *)
  Definition shutdown (st : est) : est :=
    let st1 := work (release_hung (set_down st)) in
    let st2 := if is_storage then st1 else run_quiet st1 in
    work (flush_cur st2).

  Definition run_exporter (outs : list aout) (ops : list eop) : est :=
    shutdown (fold_left step ops (init_est outs)).

  (* obs_queue.go: the capacity callback observes delegate.Capacity() *)
  Definition gauge_capacity : Z :=
    match qc with
    | Some c => match q_cap c with Some x => x | None => 9223372036854775807 end
    | None => 0
    end.
End Exporter.
