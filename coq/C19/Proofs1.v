(* C19/Proofs1.v — receiver, scraper controller and processor helper: ledger lemmas. *)
From Verif Require Import Common.Base C19.Model.
Local Open Scope Z_scope.

Lemma signal_eqb_spec a b : signal_eqb a b = true <-> a = b.
Proof. destruct a, b; simpl; split; congruence. Qed.

Lemma signal_eqb_refl a : signal_eqb a a = true.
Proof. now destruct a. Qed.

Lemma signal_eqb_neq a b : a <> b -> signal_eqb a b = false.
Proof. intros H. destruct (signal_eqb a b) eqn:E; auto. apply signal_eqb_spec in E. contradiction. Qed.

Lemma counter_eqb_spec a b : counter_eqb a b = true <-> a = b.
Proof.
  destruct a, b; simpl; try (split; congruence);
    rewrite signal_eqb_spec; split; congruence.
Qed.

Lemma counter_eqb_refl a : counter_eqb a a = true.
Proof. now apply counter_eqb_spec. Qed.

Lemma counter_eqb_neq a b : a <> b -> counter_eqb a b = false.
Proof. intros H. destruct (counter_eqb a b) eqn:E; auto. apply counter_eqb_spec in E. contradiction. Qed.

Lemma lget_app c l1 l2 : lget c (l1 ++ l2) = lget c l1 + lget c l2.
Proof. induction l1 as [|[c' v] l1 IH]; simpl; [lia|]. rewrite IH. lia. Qed.

Lemma lget_flat_map {A} c (f : A -> ledger) l :
  lget c (flat_map f l) = sumZ (map (fun x => lget c (f x)) l).
Proof. induction l as [|x l IH]; simpl; auto. rewrite lget_app, IH. reflexivity. Qed.

(* ------------------------------- receiver ------------------------------------------------ *)

(* one operation: accepted + refused = items; which one moves follows the error; nothing else moves *)
Lemma recv_end_op_facts s n err :
  s <> Profiles ->
  lget (RecvAccepted s) (recv_end_op s n err) + lget (RecvRefused s) (recv_end_op s n err) = n /\
  (err = false -> lget (RecvAccepted s) (recv_end_op s n err) = n /\ lget (RecvRefused s) (recv_end_op s n err) = 0) /\
  (err = true -> lget (RecvAccepted s) (recv_end_op s n err) = 0 /\ lget (RecvRefused s) (recv_end_op s n err) = n) /\
  (forall c, c <> RecvAccepted s -> c <> RecvRefused s -> lget c (recv_end_op s n err) = 0).
Proof.
  intros Hs. destruct s; try congruence; destruct err; unfold recv_end_op; simpl;
    (repeat split; try (intros; lia); try discriminate);
    intros c H1 H2; rewrite (counter_eqb_neq _ _ H1), (counter_eqb_neq _ _ H2); lia.
Qed.

Lemma recv_end_op_acc s t n err :
  t <> Profiles ->
  lget (RecvAccepted t) (recv_end_op s n err) = if signal_eqb s t && negb err then n else 0.
Proof. intros Ht. destruct s, t, err; try congruence; simpl; lia. Qed.

Lemma recv_end_op_ref s t n err :
  t <> Profiles ->
  lget (RecvRefused t) (recv_end_op s n err) = if signal_eqb s t && err then n else 0.
Proof. intros Ht. destruct s, t, err; try congruence; simpl; lia. Qed.

Lemma sumZ_map_if {A} (p : A -> bool) (f : A -> Z) l :
  sumZ (map (fun x => if p x then f x else 0) l) = sumZ (map f (filter p l)).
Proof. induction l as [|x l IH]; simpl; auto. destruct (p x); simpl; lia. Qed.

Lemma recv_run_acc ops t :
  t <> Profiles ->
  lget (RecvAccepted t) (recv_run ops) =
  sumZ (map ro_n (filter (fun o => signal_eqb (ro_sig o) t && negb (ro_err o)) ops)).
Proof.
  intros Ht. unfold recv_run. rewrite lget_flat_map, <- sumZ_map_if. f_equal.
  apply map_ext. intros o. now rewrite recv_end_op_acc.
Qed.

Lemma recv_run_ref ops t :
  t <> Profiles ->
  lget (RecvRefused t) (recv_run ops) =
  sumZ (map ro_n (filter (fun o => signal_eqb (ro_sig o) t && ro_err o) ops)).
Proof.
  intros Ht. unfold recv_run. rewrite lget_flat_map, <- sumZ_map_if. f_equal.
  apply map_ext. intros o. now rewrite recv_end_op_ref.
Qed.

Lemma recv_run_total ops t :
  t <> Profiles ->
  lget (RecvAccepted t) (recv_run ops) + lget (RecvRefused t) (recv_run ops) =
  sumZ (map ro_n (filter (fun o => signal_eqb (ro_sig o) t) ops)).
Proof.
  intros Ht. rewrite recv_run_acc, recv_run_ref by assumption.
  induction ops as [|o ops IH]; simpl; auto.
  destruct (signal_eqb (ro_sig o) t), (ro_err o); simpl; lia.
Qed.

(* counters that are not receiver counters never move in a receiver history *)
Definition is_recv_counter (c : counter) : bool :=
  match c with RecvAccepted _ | RecvRefused _ => true | _ => false end.

Lemma recv_run_foreign ops c : is_recv_counter c = false -> lget c (recv_run ops) = 0.
Proof.
  intros Hc. unfold recv_run. rewrite lget_flat_map.
  induction ops as [|o ops IH]; simpl; auto. rewrite IH.
  destruct o as [s n e]; destruct s, e, c; simpl in *; try discriminate; lia.
Qed.

(* ------------------------------- scraper controller --------------------------------------- *)

Lemma scr_wrap_recv k r c : is_recv_counter c = true -> lget c (scr_wrap k r) = 0.
Proof. intros Hc. destruct c; try discriminate; destruct k; simpl; lia. Qed.

Lemma flat_wrap_recv k rs c : is_recv_counter c = true -> lget c (flat_map (scr_wrap k) rs) = 0.
Proof.
  intros Hc. rewrite lget_flat_map. induction rs as [|r rs IH]; [reflexivity|].
  cbn [map sumZ]. rewrite IH, scr_wrap_recv by assumption. lia.
Qed.

(* BOTH controllers record under the METRICS receiver counters *)
Lemma scrape_recv k rs e c :
  is_recv_counter c = true -> lget c (scrape k rs e) = lget c (recv_end_op Metrics (scr_offered rs) e).
Proof. intros Hc. unfold scrape. rewrite lget_app, flat_wrap_recv by assumption. lia. Qed.

Lemma scr_run_recv k ops c :
  is_recv_counter c = true ->
  lget c (scr_run k ops) =
  lget c (recv_run (map (fun o => {| ro_sig := Metrics; ro_n := scr_offered (so_res o); ro_err := so_err o |}) ops)).
Proof.
  intros Hc. unfold scr_run, recv_run. rewrite !lget_flat_map, map_map. f_equal.
  apply map_ext. intros o. simpl. now apply scrape_recv.
Qed.

Definition scr_total (ops : list scr_op) : Z := sumZ (map (fun o => scr_offered (so_res o)) ops).
Definition scr_total_ok (ops : list scr_op) : Z :=
  sumZ (map (fun o => scr_offered (so_res o)) (filter (fun o => negb (so_err o)) ops)).

Lemma scr_run_metric_points k ops :
  lget (RecvAccepted Metrics) (scr_run k ops) + lget (RecvRefused Metrics) (scr_run k ops) = scr_total ops /\
  lget (RecvAccepted Metrics) (scr_run k ops) = scr_total_ok ops /\
  (forall s, s <> Metrics -> lget (RecvAccepted s) (scr_run k ops) = 0 /\ lget (RecvRefused s) (scr_run k ops) = 0).
Proof.
  repeat split.
  - rewrite !scr_run_recv by reflexivity. rewrite recv_run_total by discriminate.
    unfold scr_total. induction ops as [|o ops IH]; simpl; auto. rewrite IH. reflexivity.
  - rewrite scr_run_recv by reflexivity. rewrite recv_run_acc by discriminate.
    unfold scr_total_ok. induction ops as [|o ops IH]; simpl; auto.
    destruct (so_err o); simpl; rewrite IH; reflexivity.
  - rewrite scr_run_recv by reflexivity. unfold recv_run. rewrite lget_flat_map, map_map.
    induction ops as [|o ops IH]; [reflexivity|]. cbn [map sumZ]. rewrite IH.
    destruct s, (so_err o); try congruence; simpl; lia.
  - rewrite scr_run_recv by reflexivity. unfold recv_run. rewrite lget_flat_map, map_map.
    induction ops as [|o ops IH]; [reflexivity|]. cbn [map sumZ]. rewrite IH.
    destruct s, (so_err o); try congruence; simpl; lia.
Qed.

(* scraped / errored counters of the wrappers *)
Definition scr_scraped_of (k : scr_kind) (r : scr_res) : Z :=
  match sr_err r with SFull => 0 | _ => match k with KMetrics => sr_metrics r | KLogs => sr_items r end end.
Definition scr_errored_of (r : scr_res) : Z := match sr_err r with SPartial f => f | _ => 0 end.

Lemma scr_run_scraped k ops :
  lget (ScrScraped (sig_of_kind k)) (scr_run k ops) = sumZ (map (fun o => sumZ (map (scr_scraped_of k) (so_res o))) ops) /\
  lget (ScrErrored (sig_of_kind k)) (scr_run k ops) = sumZ (map (fun o => sumZ (map scr_errored_of (so_res o))) ops).
Proof.
  unfold scr_run. rewrite !lget_flat_map. split; f_equal; apply map_ext; intros o; unfold scrape;
    rewrite lget_app, lget_flat_map.
  - replace (lget (ScrScraped (sig_of_kind k)) (recv_end_op Metrics (scr_offered (so_res o)) (so_err o))) with 0
      by (destruct k, (so_err o); simpl; lia).
    rewrite Z.add_0_r. f_equal. apply map_ext. intros r.
    unfold scr_wrap, scr_scraped_of. destruct k, (sr_err r); simpl; lia.
  - replace (lget (ScrErrored (sig_of_kind k)) (recv_end_op Metrics (scr_offered (so_res o)) (so_err o))) with 0
      by (destruct k, (so_err o); simpl; lia).
    rewrite Z.add_0_r. f_equal. apply map_ext. intros r.
    unfold scr_wrap, scr_errored_of. destruct k, (sr_err r); simpl; lia.
Qed.

(* S5 witness: one logs scrape, one scraper, 14 records, consumer accepts *)
Definition s5_witness : list scr_op :=
  [{| so_res := [{| sr_items := 14; sr_metrics := 0; sr_err := SNone |}]; so_err := false |}].

Lemma s5_refuted_l :
  exists ops,
    lget (RecvAccepted Logs) (scr_run KLogs ops) + lget (RecvRefused Logs) (scr_run KLogs ops) <> scr_total ops /\
    scr_total ops = 14 /\ lget (RecvAccepted Metrics) (scr_run KLogs ops) = 14.
Proof. exists s5_witness. vm_compute. repeat split; discriminate. Qed.

(* ------------------------------- processor helper ----------------------------------------- *)

Lemma proc_run_in s t ops :
  lget (ProcIn t) (proc_run s ops) = if signal_eqb s t then sumZ (map po_in ops) else 0.
Proof.
  unfold proc_run. rewrite lget_flat_map.
  induction ops as [|o ops IH]; simpl; [now destruct (signal_eqb s t)|].
  rewrite IH. destruct o as [n r]; destruct r; simpl; destruct s, t; simpl; lia.
Qed.

Lemma proc_run_out s t ops :
  lget (ProcOut t) (proc_run s ops) = if signal_eqb s t then sumZ (map proc_forwarded ops) else 0.
Proof.
  unfold proc_run. rewrite lget_flat_map.
  induction ops as [|o ops IH]; [simpl; now destruct (signal_eqb s t)|].
  cbn [map sumZ]. rewrite IH. destruct o as [n r]; destruct r; destruct s, t; cbn; lia.
Qed.

Definition is_proc_counter (c : counter) : bool :=
  match c with ProcIn _ | ProcOut _ => true | _ => false end.

Lemma proc_run_foreign s ops c : is_proc_counter c = false -> lget c (proc_run s ops) = 0.
Proof.
  intros Hc. unfold proc_run. rewrite lget_flat_map.
  induction ops as [|o ops IH]; simpl; auto. rewrite IH.
  destruct o as [n r]; destruct r, c; simpl in *; try discriminate; lia.
Qed.

Lemma proc_step_facts s o :
  lget (ProcIn s) (proc_step s o) = po_in o /\
  lget (ProcOut s) (proc_step s o) = proc_forwarded o /\
  (po_res o = PError \/ po_res o = PSkip -> lget (ProcOut s) (proc_step s o) = 0) /\
  (forall c, c <> ProcIn s -> c <> ProcOut s -> lget c (proc_step s o) = 0).
Proof.
  destruct o as [n r]; destruct r; cbn; rewrite ?signal_eqb_refl; repeat split; try lia;
    try (intros [H|H]; discriminate);
    intros c H1 H2; rewrite (counter_eqb_neq _ _ H1), (counter_eqb_neq _ _ H2); lia.
Qed.
