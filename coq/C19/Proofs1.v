(* C19/Proofs1.v — receiver, scraper controller and processor helper: ledger lemmas. *)
From Verif Require Import Common.Base C19.Model.
Local Open Scope Z_scope.

Lemma signal_eqb_spec a b : signal_eqb a b = true <-> a = b.
Proof. destruct a, b; simpl; split; congruence. Qed.

Lemma signal_eqb_refl a : signal_eqb a a = true.
Proof. now destruct a. Qed.

Lemma signal_eqb_neq a b : a <> b -> signal_eqb a b = false.
Proof. intros H. destruct (signal_eqb a b) eqn:E; auto. apply signal_eqb_spec in E. contradiction. Qed.

Lemma counter_eqb_spec a b : counter_eqb a b = true <-> a = b.
Proof.
  destruct a, b; simpl; try (split; congruence);
    rewrite signal_eqb_spec; split; congruence.
Qed.

Lemma counter_eqb_refl a : counter_eqb a a = true.
Proof. now apply counter_eqb_spec. Qed.

Lemma counter_eqb_neq a b : a <> b -> counter_eqb a b = false.
Proof. intros H. destruct (counter_eqb a b) eqn:E; auto. apply counter_eqb_spec in E. contradiction. Qed.

Lemma lget_app c l1 l2 : lget c (l1 ++ l2) = lget c l1 + lget c l2.
Proof. induction l1 as [|[c' v] l1 IH]; simpl; [lia|]. rewrite IH. lia. Qed.

Lemma lget_flat_map {A} c (f : A -> ledger) l :
  lget c (flat_map f l) = sumZ (map (fun x => lget c (f x)) l).
Proof. induction l as [|x l IH]; simpl; auto. rewrite lget_app, IH. reflexivity. Qed.

(* ------------------------------- receiver ------------------------------------------------ *)

(* one operation: accepted + refused = items; which one moves follows the error; nothing else moves *)
Lemma recv_end_op_facts s n err :
  s <> Profiles ->
  lget (RecvAccepted s) (recv_end_op s n err) + lget (RecvRefused s) (recv_end_op s n err) = n /\
  (err = false -> lget (RecvAccepted s) (recv_end_op s n err) = n /\ lget (RecvRefused s) (recv_end_op s n err) = 0) /\
  (err = true -> lget (RecvAccepted s) (recv_end_op s n err) = 0 /\ lget (RecvRefused s) (recv_end_op s n err) = n) /\
  (forall c, c <> RecvAccepted s -> c <> RecvRefused s -> lget c (recv_end_op s n err) = 0).
Proof.
  intros Hs. destruct s; try congruence; destruct err; unfold recv_end_op; simpl;
    (repeat split; try (intros; lia); try discriminate);
    intros c H1 H2; rewrite (counter_eqb_neq _ _ H1), (counter_eqb_neq _ _ H2); lia.
Qed.

Lemma recv_end_op_acc s t n err :
  t <> Profiles ->
  lget (RecvAccepted t) (recv_end_op s n err) = if signal_eqb s t && negb err then n else 0.
Proof. intros Ht. destruct s, t, err; try congruence; simpl; lia. Qed.

Lemma recv_end_op_ref s t n err :
  t <> Profiles ->
  lget (RecvRefused t) (recv_end_op s n err) = if signal_eqb s t && err then n else 0.
Proof. intros Ht. destruct s, t, err; try congruence; simpl; lia. Qed.

Definition is_span_counter (c : counter) : bool :=
  match c with
  | SpanAcc _ | SpanRef _ | SpanScraped _ | SpanErrored _ | SpanSent _ | SpanFailed _ => true
  | _ => false
  end.

(* the span part never touches an instrument *)
Lemma recv_end_span_real rc s n e c : is_span_counter c = false -> lget c (recv_end_span rc s n e) = 0.
Proof. intros H. destruct rc, s, e, c; simpl in *; try discriminate; lia. Qed.

(* the instruments do not depend on whether the span records *)
Lemma recv_full_real rc s n e c :
  is_span_counter c = false -> lget c (recv_end_op_full rc s n e) = lget c (recv_end_op s n e).
Proof. intros H. unfold recv_end_op_full. rewrite lget_app, recv_end_span_real by exact H. lia. Qed.

(* when the span records, its attributes carry the numbers recorded under the instruments *)
Lemma recv_full_span s n e :
  s <> Profiles ->
  lget (SpanAcc s) (recv_end_op_full true s n e) = lget (RecvAccepted s) (recv_end_op_full true s n e) /\
  lget (SpanRef s) (recv_end_op_full true s n e) = lget (RecvRefused s) (recv_end_op_full true s n e).
Proof. intros H. destruct s, e; try congruence; simpl; lia. Qed.

Lemma sumZ_map_if {A} (p : A -> bool) (f : A -> Z) l :
  sumZ (map (fun x => if p x then f x else 0) l) = sumZ (map f (filter p l)).
Proof. induction l as [|x l IH]; simpl; auto. destruct (p x); simpl; lia. Qed.

Lemma recv_run_acc ops t :
  t <> Profiles ->
  lget (RecvAccepted t) (recv_run ops) =
  sumZ (map ro_n (filter (fun o => signal_eqb (ro_sig o) t && negb (ro_err o)) ops)).
Proof.
  intros Ht. unfold recv_run. rewrite lget_flat_map, <- sumZ_map_if. f_equal.
  apply map_ext. intros o. rewrite recv_full_real by reflexivity. now rewrite recv_end_op_acc.
Qed.

Lemma recv_run_ref ops t :
  t <> Profiles ->
  lget (RecvRefused t) (recv_run ops) =
  sumZ (map ro_n (filter (fun o => signal_eqb (ro_sig o) t && ro_err o) ops)).
Proof.
  intros Ht. unfold recv_run. rewrite lget_flat_map, <- sumZ_map_if. f_equal.
  apply map_ext. intros o. rewrite recv_full_real by reflexivity. now rewrite recv_end_op_ref.
Qed.

Lemma recv_run_total ops t :
  t <> Profiles ->
  lget (RecvAccepted t) (recv_run ops) + lget (RecvRefused t) (recv_run ops) =
  sumZ (map ro_n (filter (fun o => signal_eqb (ro_sig o) t) ops)).
Proof.
  intros Ht. rewrite recv_run_acc, recv_run_ref by assumption.
  induction ops as [|o ops IH]; simpl; auto.
  destruct (signal_eqb (ro_sig o) t), (ro_err o); simpl; lia.
Qed.

(* counters that are not receiver counters never move in a receiver history *)
Definition is_recv_counter (c : counter) : bool :=
  match c with RecvAccepted _ | RecvRefused _ | SpanAcc _ | SpanRef _ => true | _ => false end.

Lemma recv_run_foreign ops c : is_recv_counter c = false -> lget c (recv_run ops) = 0.
Proof.
  intros Hc. unfold recv_run. rewrite lget_flat_map.
  induction ops as [|o ops IH]; simpl; auto. rewrite IH.
  destruct o as [s n e r]; destruct s, e, r, c; simpl in *; try discriminate; lia.
Qed.

(* ------------------------------- scraper controller --------------------------------------- *)

Lemma scr_wrap_recv rc k r c : is_recv_counter c = true -> lget c (scr_wrap rc k r) = 0.
Proof. intros Hc. destruct c; try discriminate; destruct k, rc; simpl; lia. Qed.

Lemma flat_wrap_recv rc k rs c : is_recv_counter c = true -> lget c (flat_map (scr_wrap rc k) rs) = 0.
Proof.
  intros Hc. rewrite lget_flat_map. induction rs as [|r rs IH]; [reflexivity|].
  cbn [map sumZ]. rewrite IH, scr_wrap_recv by assumption. lia.
Qed.

(* BOTH controllers record under the METRICS receiver counters *)
Lemma scrape_recv rc k rs e c :
  is_recv_counter c = true -> lget c (scrape rc k rs e) = lget c (recv_end_op_full rc Metrics (scr_offered rs) e).
Proof. intros Hc. unfold scrape. rewrite lget_app, flat_wrap_recv by assumption. lia. Qed.

Lemma scr_run_recv rc k ops c :
  is_recv_counter c = true ->
  lget c (scr_run rc k ops) =
  lget c (recv_run (map (fun o => {| ro_sig := Metrics; ro_n := scr_offered (so_res o); ro_err := so_err o; ro_rec := rc |}) ops)).
Proof.
  intros Hc. unfold scr_run, recv_run. rewrite !lget_flat_map, map_map. f_equal.
  apply map_ext. intros o. simpl. now apply scrape_recv.
Qed.

Definition scr_total (ops : list scr_op) : Z := sumZ (map (fun o => scr_offered (so_res o)) ops).
Definition scr_total_ok (ops : list scr_op) : Z :=
  sumZ (map (fun o => scr_offered (so_res o)) (filter (fun o => negb (so_err o)) ops)).

Lemma scr_run_metric_points rc k ops :
  lget (RecvAccepted Metrics) (scr_run rc k ops) + lget (RecvRefused Metrics) (scr_run rc k ops) = scr_total ops /\
  lget (RecvAccepted Metrics) (scr_run rc k ops) = scr_total_ok ops /\
  (forall s, s <> Metrics -> lget (RecvAccepted s) (scr_run rc k ops) = 0 /\ lget (RecvRefused s) (scr_run rc k ops) = 0).
Proof.
  repeat split.
  - rewrite !scr_run_recv by reflexivity. rewrite recv_run_total by discriminate.
    unfold scr_total. induction ops as [|o ops IH]; simpl; auto. rewrite IH. reflexivity.
  - rewrite scr_run_recv by reflexivity. rewrite recv_run_acc by discriminate.
    unfold scr_total_ok. induction ops as [|o ops IH]; simpl; auto.
    destruct (so_err o); simpl; rewrite IH; reflexivity.
  - rewrite scr_run_recv by reflexivity. unfold recv_run. rewrite lget_flat_map, map_map.
    induction ops as [|o ops IH]; [reflexivity|]. cbn [map sumZ]. rewrite IH.
    destruct s, rc, (so_err o); try congruence; simpl; lia.
  - rewrite scr_run_recv by reflexivity. unfold recv_run. rewrite lget_flat_map, map_map.
    induction ops as [|o ops IH]; [reflexivity|]. cbn [map sumZ]. rewrite IH.
    destruct s, rc, (so_err o); try congruence; simpl; lia.
Qed.

(* scraped / errored counters of the wrappers *)
Definition scr_scraped_of (k : scr_kind) (r : scr_res) : Z :=
  match sr_err r with SFull => 0 | _ => match k with KMetrics => sr_metrics r | KLogs => sr_items r end end.
Definition scr_errored_of (r : scr_res) : Z := match sr_err r with SPartial f => f | _ => 0 end.

Lemma scr_run_scraped rc k ops :
  lget (ScrScraped (sig_of_kind k)) (scr_run rc k ops) = sumZ (map (fun o => sumZ (map (scr_scraped_of k) (so_res o))) ops) /\
  lget (ScrErrored (sig_of_kind k)) (scr_run rc k ops) = sumZ (map (fun o => sumZ (map scr_errored_of (so_res o))) ops).
Proof.
  unfold scr_run. rewrite !lget_flat_map. split; f_equal; apply map_ext; intros o; unfold scrape;
    rewrite lget_app, lget_flat_map.
  - replace (lget (ScrScraped (sig_of_kind k)) (recv_end_op_full rc Metrics (scr_offered (so_res o)) (so_err o))) with 0
      by (destruct k, rc, (so_err o); simpl; lia).
    rewrite Z.add_0_r. f_equal. apply map_ext. intros r.
    unfold scr_wrap, scr_scraped_of. destruct k, rc, (sr_err r); simpl; lia.
  - replace (lget (ScrErrored (sig_of_kind k)) (recv_end_op_full rc Metrics (scr_offered (so_res o)) (so_err o))) with 0
      by (destruct k, rc, (so_err o); simpl; lia).
    rewrite Z.add_0_r. f_equal. apply map_ext. intros r.
    unfold scr_wrap, scr_errored_of. destruct k, rc, (sr_err r); simpl; lia.
Qed.

(* S5 witness: one logs scrape, one scraper, 14 records, consumer accepts *)
Definition s5_witness : list scr_op :=
  [{| so_res := [{| sr_items := 14; sr_metrics := 0; sr_err := SNone |}]; so_err := false |}].

Lemma s5_refuted_l :
  exists ops,
    lget (RecvAccepted Logs) (scr_run true KLogs ops) + lget (RecvRefused Logs) (scr_run true KLogs ops) <> scr_total ops /\
    scr_total ops = 14 /\ lget (RecvAccepted Metrics) (scr_run true KLogs ops) = 14.
Proof. exists s5_witness. vm_compute. repeat split; discriminate. Qed.

(* ------------------------------- processor helper ----------------------------------------- *)

Lemma proc_run_in s t ops :
  lget (ProcIn t) (proc_run s ops) = if signal_eqb s t then sumZ (map po_in ops) else 0.
Proof.
  unfold proc_run. rewrite lget_flat_map.
  induction ops as [|o ops IH]; simpl; [now destruct (signal_eqb s t)|].
  rewrite IH. destruct o as [n r]; destruct r; simpl; destruct s, t; simpl; lia.
Qed.

Lemma proc_run_out s t ops :
  lget (ProcOut t) (proc_run s ops) = if signal_eqb s t then sumZ (map proc_forwarded ops) else 0.
Proof.
  unfold proc_run. rewrite lget_flat_map.
  induction ops as [|o ops IH]; [simpl; now destruct (signal_eqb s t)|].
  cbn [map sumZ]. rewrite IH. destruct o as [n r]; destruct r; destruct s, t; cbn; lia.
Qed.

Definition is_proc_counter (c : counter) : bool :=
  match c with ProcIn _ | ProcOut _ => true | _ => false end.

Lemma proc_run_foreign s ops c : is_proc_counter c = false -> lget c (proc_run s ops) = 0.
Proof.
  intros Hc. unfold proc_run. rewrite lget_flat_map.
  induction ops as [|o ops IH]; simpl; auto. rewrite IH.
  destruct o as [n r]; destruct r, c; simpl in *; try discriminate; lia.
Qed.

Lemma proc_step_facts s o :
  lget (ProcIn s) (proc_step s o) = po_in o /\
  lget (ProcOut s) (proc_step s o) = proc_forwarded o /\
  (po_res o = PError \/ po_res o = PSkip -> lget (ProcOut s) (proc_step s o) = 0) /\
  (forall c, c <> ProcIn s -> c <> ProcOut s -> lget c (proc_step s o) = 0).
Proof.
  destruct o as [n r]; destruct r; cbn; rewrite ?signal_eqb_refl; repeat split; try lia;
    try (intros [H|H]; discriminate);
    intros c H1 H2; rewrite (counter_eqb_neq _ _ H1), (counter_eqb_neq _ _ H2); lia.
Qed.

(* ------------------------------- tracing does not matter ----------------------------------- *)

Definition ro_core (o : recv_op) : signal * Z * bool := (ro_sig o, ro_n o, ro_err o).

(* two receiver histories that differ only in which spans record move every instrument alike *)
Lemma recv_run_tracing_irrelevant ops ops' c :
  is_span_counter c = false -> map ro_core ops = map ro_core ops' ->
  lget c (recv_run ops) = lget c (recv_run ops').
Proof.
  intros Hc E. unfold recv_run. rewrite !lget_flat_map.
  assert (G : forall l, map (fun o => lget c (recv_end_op_full (ro_rec o) (ro_sig o) (ro_n o) (ro_err o))) l
                        = map (fun t => lget c (recv_end_op (fst (fst t)) (snd (fst t)) (snd t))) (map ro_core l)).
  { intros l. rewrite map_map. apply map_ext. intros o. now rewrite recv_full_real. }
  now rewrite !G, E.
Qed.

Lemma recv_op_span_match s s' n e :
  s <> Profiles ->
  lget (SpanAcc s) (recv_end_op_full true s' n e) = lget (RecvAccepted s) (recv_end_op_full true s' n e) /\
  lget (SpanRef s) (recv_end_op_full true s' n e) = lget (RecvRefused s) (recv_end_op_full true s' n e).
Proof. intros H. destruct s, s', e; try congruence; simpl; lia. Qed.

Lemma recv_op_span_silent s s' n e :
  lget (SpanAcc s) (recv_end_op_full false s' n e) = 0 /\ lget (SpanRef s) (recv_end_op_full false s' n e) = 0.
Proof. destruct s, s', e; simpl; lia. Qed.

(* every span recording: the span attributes add up to the counters; no span recording: nothing *)
Lemma recv_run_span ops s :
  s <> Profiles ->
  ((forall o, In o ops -> ro_rec o = true) ->
     lget (SpanAcc s) (recv_run ops) = lget (RecvAccepted s) (recv_run ops) /\
     lget (SpanRef s) (recv_run ops) = lget (RecvRefused s) (recv_run ops)) /\
  ((forall o, In o ops -> ro_rec o = false) ->
     lget (SpanAcc s) (recv_run ops) = 0 /\ lget (SpanRef s) (recv_run ops) = 0).
Proof.
  intros Hs. unfold recv_run. split; intros H; induction ops as [|o ops IH]; cbn [flat_map]; try (split; reflexivity);
    rewrite !lget_app; destruct IH as [I1 I2]; try (intros o' Ho'; apply H; now right).
  - rewrite (H o (or_introl eq_refl)).
    destruct (recv_op_span_match s (ro_sig o) (ro_n o) (ro_err o) Hs) as [A B]. rewrite A, B, I1, I2. split; reflexivity.
  - rewrite (H o (or_introl eq_refl)).
    destruct (recv_op_span_silent s (ro_sig o) (ro_n o) (ro_err o)) as [A B]. rewrite A, B, I1, I2. split; reflexivity.
Qed.

Lemma scr_wrap_real rc rc' k r c : is_span_counter c = false -> lget c (scr_wrap rc k r) = lget c (scr_wrap rc' k r).
Proof. intros H. destruct rc, rc', k, c; simpl in *; try discriminate; reflexivity. Qed.

Lemma scr_run_tracing_irrelevant rc rc' k ops c :
  is_span_counter c = false -> lget c (scr_run rc k ops) = lget c (scr_run rc' k ops).
Proof.
  intros Hc. unfold scr_run. rewrite !lget_flat_map. f_equal. apply map_ext. intros o.
  unfold scrape. rewrite !lget_app, !lget_flat_map, !recv_full_real by exact Hc. f_equal.
  f_equal. apply map_ext. intros r. now apply scr_wrap_real.
Qed.
