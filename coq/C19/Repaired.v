(* C19/Repaired.v — the three open findings with the REPAIRED behaviour (work/C19/fix/*.diff), next to the
   faithful Model.v (which stays as the code is).  For each finding the `_refuted` statement of Properties.v
   becomes a full theorem here.

   S5      scrapeLogs: StartLogsOp / EndLogsOp (the operation of the controller's own signal).
   S2      obsReportSender.endOp: a shutdown-class error on an exporter whose (persistent) queue keeps the
           request counts neither sent nor failed.

   S5 is repaired by re-defining the controller function and re-proving the history-level theorem.  For the
   exporter the repairs change ONLY what is appended to the ledger at two program points (not the control flow,
   not any other field of the state), and Model.v already tallies, at exactly those points and by exactly those
   amounts, what the faithful code adds too much: s_wfr_failed (on_done, branch wf) and s_shut (export /
   release_hung, shutdown class).  The op-level lemmas below state that correspondence; the run-level balance of
   the repaired counters then follows from the exact excess laws proved for the faithful model. *)
From Verif Require Import Common.Base C19.Model C19.Proofs1 C19.Proofs2 C19.Proofs3 C19.Proofs4 C19.Proofs5 C19.Proofs8.
Local Open Scope Z_scope.

(* ============================== S5 ============================================================= *)
Definition scrape_repaired (recording : bool) (k : scr_kind) (rs : list scr_res) (down_err : bool) : ledger :=
  flat_map (scr_wrap recording k) rs ++ recv_end_op_full recording (sig_of_kind k) (scr_offered rs) down_err.

Definition scr_run_repaired (recording : bool) (k : scr_kind) (ops : list scr_op) : ledger :=
  flat_map (fun o => scrape_repaired recording k (so_res o) (so_err o)) ops.

Lemma scr_run_repaired_recv rc k ops c :
  is_recv_counter c = true ->
  lget c (scr_run_repaired rc k ops) =
  lget c (recv_run (map (fun o => {| ro_sig := sig_of_kind k; ro_n := scr_offered (so_res o); ro_err := so_err o; ro_rec := rc |}) ops)).
Proof.
  intros Hc. unfold scr_run_repaired, recv_run. rewrite !lget_flat_map, map_map. f_equal.
  apply map_ext. intros o. cbn. unfold scrape_repaired. rewrite lget_app, flat_wrap_recv by assumption. lia.
Qed.

(* the FULL statement that receiver_balance_scraper_refuted refutes for the faithful model: for BOTH controllers,
   every history: accepted + refused of the controller's own signal = items offered, accepted = those of the
   successful consume calls, no receiver counter of another signal moves *)
Theorem receiver_balance_scraper_repaired : forall rc k ops,
  let s := sig_of_kind k in
  lget (RecvAccepted s) (scr_run_repaired rc k ops) + lget (RecvRefused s) (scr_run_repaired rc k ops) = scr_total ops /\
  lget (RecvAccepted s) (scr_run_repaired rc k ops) = scr_total_ok ops /\
  (forall t, t <> s -> t <> Profiles -> lget (RecvAccepted t) (scr_run_repaired rc k ops) = 0 /\ lget (RecvRefused t) (scr_run_repaired rc k ops) = 0).
Proof.
  intros rc k ops s.
  assert (Hs : s <> Profiles) by (unfold s; destruct k; discriminate).
  repeat split.
  - rewrite !scr_run_repaired_recv by reflexivity. rewrite recv_run_total by exact Hs.
    unfold scr_total. fold s. induction ops as [|o ops IH]; [reflexivity|]. cbn [map filter ro_sig]. rewrite signal_eqb_refl. cbn [map sumZ ro_n]. rewrite IH. reflexivity.
  - rewrite scr_run_repaired_recv by reflexivity. rewrite recv_run_acc by exact Hs.
    unfold scr_total_ok. fold s. induction ops as [|o ops IH]; [reflexivity|]. cbn [map filter ro_sig ro_err]. rewrite signal_eqb_refl.
    destruct (so_err o); cbn [negb andb map sumZ ro_n filter]; rewrite IH; reflexivity.
  - rewrite scr_run_repaired_recv by reflexivity. rewrite recv_run_acc by assumption. fold s.
    induction ops as [|o ops IH]; [reflexivity|]. cbn [map filter ro_sig]. rewrite (signal_eqb_neq s t) by congruence. exact IH.
  - rewrite scr_run_repaired_recv by reflexivity. rewrite recv_run_ref by assumption. fold s.
    induction ops as [|o ops IH]; [reflexivity|]. cbn [map filter ro_sig]. rewrite (signal_eqb_neq s t) by congruence. exact IH.
Qed.

(* the S5 witness is no witness any more *)
Example s5_witness_repaired :
  lget (RecvAccepted Logs) (scr_run_repaired true KLogs s5_witness) = 14 /\ lget (RecvAccepted Metrics) (scr_run_repaired true KLogs s5_witness) = 0.
Proof. vm_compute. split; reflexivity. Qed.

(* ============================== S2: the program point ============================================ *)
(* (C19-WFR was repaired in /repo by af774a6ec exactly as designed here; Model.v follows the repaired code.) *)
Section Exporter.
  Variable o : eopts.
  Hypothesis Hsig : o_sig o <> Profiles.

  (* obs_report_sender.go endOp after the repair *)
  Definition obs_end_op_repaired (kept rc : bool) (s : signal) (items : Z) (r : eres) : ledger :=
    if kept && eres_is_shutdown r
    then (if rc then [(SpanSent s, 0); (SpanFailed s, 0)] else [])
    else obs_end_op rc s items r.

  (* what the faithful endOp counts beyond the repaired one is exactly what [export] / [release_hung] add to s_shut *)
  Lemma end_op_s2_excess rc items r :
    cnt (o_sig o) (obs_end_op rc (o_sig o) items r) - cnt (o_sig o) (obs_end_op_repaired (is_storage o) rc (o_sig o) items r)
    = if is_storage o && eres_is_shutdown r then items else 0.
  Proof.
    unfold obs_end_op_repaired. destruct (is_storage o && eres_is_shutdown r) eqn:E; [|lia].
    rewrite cnt_end_op by exact Hsig. destruct rc; unfold cnt; cbn; destruct (o_sig o); cbn; lia.
  Qed.
End Exporter.

(* the counters of the repaired exporter over a whole history *)
Definition sent_r (o : eopts) (st : est) : Z := lget (ExpSent (o_sig o)) (s_led st).
Definition failed_r (o : eopts) (st : est) : Z :=
  lget (ExpFailed (o_sig o)) (s_led st) - (if is_storage o then s_shut st else 0).
Definition enq_r (o : eopts) (st : est) : Z := lget (ExpEnqFailed (o_sig o)) (s_led st).

(* S2 (+ C19-WFR) repaired: the property's equation on a persistent queue without a batcher in front, for EVERY
   history - the hypothesis "no export ended by the shutdown error" is gone, exporter_balance_refuted has no witness *)
Theorem exporter_balance_repaired_persistent : forall o outs ops,
  o_sig o <> Profiles -> Forall eop_nonneg ops -> is_storage o = true -> batch_cfg o = None ->
  let st := run_exporter o outs ops in
  sent_r o st + failed_r o st + enq_r o st = s_offered st - s_stored st.
Proof.
  intros o outs ops Hsig F Hst Hnb st. unfold sent_r, failed_r, enq_r. rewrite Hst.
  pose proof (exporter_persistent_excess_l o outs ops Hsig F Hst Hnb) as A. cbn zeta in A. fold st in A. lia.
Qed.

(* with the legacy batcher in front of a persistent queue one residue remains after the repair: a request that was
   SPLIT, one part exported and another interrupted by shutdown, stays stored as a whole; the exported part is
   counted now and again after the restart (at-least-once delivery).  Exactly: *)
Theorem exporter_balance_repaired_persistent_general : forall o outs ops,
  o_sig o <> Profiles -> valid_batch o -> Forall eop_nonneg ops -> is_storage o = true ->
  let st := run_exporter o outs ops in
  sent_r o st + failed_r o st + enq_r o st = s_offered st - s_stored st + (s_kept st - s_shut st).
Proof.
  intros o outs ops Hsig Hb F Hst st. unfold sent_r, failed_r, enq_r. rewrite Hst.
  pose proof (exporter_persistent_general_l o outs ops Hsig Hb F Hst) as A. cbn zeta in A. fold st in A. lia.
Qed.

(* the two recorded witnesses under the repaired counters *)
Example s2_witness_repaired :
  let st := run_exporter opts_s2 [AHang] [OOffer 5] in
  (sent_r opts_s2 st, failed_r opts_s2 st, enq_r opts_s2 st, s_offered st, s_stored st) = (0, 0, 0, 5, 5).
Proof. vm_compute. reflexivity. Qed.

