(* C19/Translated.v — obligations tying hand-written model pieces to what translator T1 (tools/go2coq)
   generates from the CURRENT Go source on every run (coq/Generated/C19ExpHelper.v).
   An edit of the Go functions changes the generated files and re-checks these lemmas. *)
From Verif Require Import Common.Base C19.Model C19.Proofs1 C19.Proofs2 C19.Proofs4.
From Verif Require Generated.C19ExpHelper.
Local Open Scope Z_scope.

(* ---- obs_report_sender.go toNumItems -------------------------------------------------------------- *)
Lemma to_num_items_is_generated n err :
  to_num_items n err = Generated.C19ExpHelper.toNumItems n (negb err).
Proof. destruct err; reflexivity. Qed.

(* the property-level fact about the GENERATED function: sent + failed = items, on which side follows the error *)
Lemma generated_toNumItems_balance n err_isnil :
  fst (Generated.C19ExpHelper.toNumItems n err_isnil) + snd (Generated.C19ExpHelper.toNumItems n err_isnil) = n /\
  (err_isnil = true -> Generated.C19ExpHelper.toNumItems n err_isnil = (n, 0)) /\
  (err_isnil = false -> Generated.C19ExpHelper.toNumItems n err_isnil = (0, n)).
Proof. destruct err_isnil; cbn; repeat split; try lia; try reflexivity; discriminate. Qed.

(* the model's end-of-export record is the generated function applied to "final error is nil" *)
Lemma obs_end_op_is_generated rc s n r :
  s <> Profiles ->
  lget (ExpSent s) (obs_end_op rc s n r) = fst (Generated.C19ExpHelper.toNumItems n (eres_is_ok r)) /\
  lget (ExpFailed s) (obs_end_op rc s n r) = snd (Generated.C19ExpHelper.toNumItems n (eres_is_ok r)).
Proof. intros H. destruct rc, s, r; try congruence; cbn; split; lia. Qed.

(* ---- queuebatch/config.go BatchConfig.Validate ---------------------------------------------------- *)
(* hand-written reading of the validation: flush_timeout > 0, min_size >= 0, max_size >= 0,
   max_size = 0 or max_size >= min_size *)
Definition batch_validate_ok (ft mn mx : Z) : bool :=
  (0 <? ft) && (0 <=? mn) && (0 <=? mx) && ((mx =? 0) || (mn <=? mx)).

Lemma batch_validate_is_generated ft mn mx :
  Generated.C19ExpHelper.batch_config_validate false ft mn mx = None <-> batch_validate_ok ft mn mx = true.
Proof.
  unfold Generated.C19ExpHelper.batch_config_validate, batch_validate_ok.
  destruct (ft <=? 0) eqn:E1, (mn <? 0) eqn:E2, (mx <? 0) eqn:E3, (mx >? 0) eqn:E4, (mx <? mn) eqn:E5;
    cbn; rewrite ?andb_true_iff, ?orb_true_iff, ?Z.ltb_lt, ?Z.leb_le, ?Z.eqb_eq;
    rewrite ?Z.leb_le, ?Z.leb_gt, ?Z.ltb_lt, ?Z.ltb_ge in *; try rewrite Z.gtb_lt in *;
    split; try discriminate; try (intros; repeat split; lia); try (intros [[[? ?] ?] ?]; try lia).
  all: try (intros _; split; [split; [split|]|]; lia).
  all: try (pose proof (Z.gtb_spec mx 0) as G; rewrite E4 in G; inversion G; intros; try lia).
Qed.

(* a nil *BatchConfig validates (no batching) *)
Lemma batch_validate_nil ft mn mx : Generated.C19ExpHelper.batch_config_validate true ft mn mx = None.
Proof. reflexivity. Qed.

(* the hypothesis [valid_batch] of the exporter theorems is what BatchConfig.Validate (as the code says
   now) guarantees for sending_queue::batch *)
Lemma validated_batch_is_valid o :
  (forall mn mx, batch_cfg o = Some (mn, mx) ->
     exists ft, Generated.C19ExpHelper.batch_config_validate false ft mn mx = None) ->
  valid_batch o.
Proof.
  intros H mn mx E. destruct (H mn mx E) as [ft V]. apply batch_validate_is_generated in V.
  unfold batch_validate_ok in V. rewrite !andb_true_iff, Z.leb_le in V. lia.
Qed.
