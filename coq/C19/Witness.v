(* C19/Witness.v — non-vacuity of the hypotheses and the refutation witnesses, by vm_compute. *)
From Verif Require Import C19.Checker C19.Proofs13.
From Verif Require Import Common.Base C19.Model C19.Proofs1 C19.Proofs2 C19.Proofs3 C19.Proofs4 C19.Harness.
Local Open Scope Z_scope.

(* a receiver history with all three signals, errors and successes *)
Example recv_history :
  let ops := [{| ro_sig := Traces; ro_n := 7; ro_err := false; ro_rec := true |}; {| ro_sig := Logs; ro_n := 5; ro_err := true; ro_rec := false |};
              {| ro_sig := Metrics; ro_n := 3; ro_err := false; ro_rec := true |}; {| ro_sig := Traces; ro_n := 2; ro_err := true; ro_rec := false |}] in
  firstn 25 (vec (recv_run ops)) = [7; 2; 3; 0; 0; 5; 0; 0; 0; 0; 0; 0; 0; 0; 0; 0; 0; 0; 0; 0; 0; 0; 0; 0; 0] /\
  firstn 16 (skipn 25 (vec (recv_run ops))) = [7; 0; 3; 0; 0; 0; 0; 0; 0; 0; 0; 0; 0; 0; 0; 0].
Proof. vm_compute. split; reflexivity. Qed.

(* S5 witness as the probe saw it: 14 log records -> accepted_metric_points = 14 *)
Example s5_witness_counters :
  firstn 25 (vec (scr_run false KLogs s5_witness)) = [0; 0; 14; 0; 0; 0; 0; 0; 14; 0; 0; 0; 0; 0; 0; 0; 0; 0; 0; 0; 0; 0; 0; 0; 0].
Proof. vm_compute. reflexivity. Qed.

(* exporter_balance_partial is not vacuous: a volatile configuration with batching, splitting,
   retries, a partial failure, a queue-full refusal and a shutdown-interrupted export satisfies
   the hypotheses and exercises all three counters *)
Definition opts_demo : eopts :=
  {| o_sig := Metrics; o_queue := true; o_storage := false; o_items_sizer := true; o_cap := 40; o_wfr := false; o_block := false; o_badmarshal := -1;
     o_qbatch := Some (10, 15); o_batcher := None; o_retry := true; o_tracing := true |}.
Definition outs_demo : list aout := [ATransient; AOk; APartial 3; APermanent; AOk; AHang; ATransient].
Definition ops_demo : list eop := [OOffer 7; OOffer 20; OBurst [30; 9; 5]; OFlush; OOffer 12; OOffer 3].

Example demo_hypotheses :
  o_sig opts_demo <> Profiles /\ valid_batch opts_demo /\ Forall eop_nonneg ops_demo /\ is_storage opts_demo = false.
Proof.
  split; [discriminate|]. split; [intros mn mx H; vm_compute in H; inversion H; lia|].
  split; [repeat (constructor; [cbn; try lia; repeat (constructor; try lia)|]); constructor|].
  reflexivity.
Qed.

Example demo_counters :
  let st := run_exporter opts_demo outs_demo ops_demo in
  (lget (ExpSent Metrics) (s_led st), lget (ExpFailed Metrics) (s_led st), lget (ExpEnqFailed Metrics) (s_led st),
   s_offered st, s_shut st) = (30, 36, 20, 86, 24).
Proof. vm_compute. reflexivity. Qed.

(* S2 witness and the former C19-WFR witness (now a regression case: enqueue_failed stays 0) in the wire form of the harness (replayed on the implementation by
   the fixed cases at the head of harness/C19/exp_test.go) *)
Example s2_wire :
  fst (model_out (CExp [2;1;1;0;10;0;0;0;0;0;0;0;1] [(4,0)] [(0,[5])] [] [] [])) =
  [0;0;0;0;0;0;0;0;0;0;0;0;0;0;0;0;0;0;0;0;0;5;0;0;0; 0;0;0;0;0;0;0;0;0;0;0;0;0;0;0;0; 0;0;0;0;0;0;0;0].
Proof. vm_compute. reflexivity. Qed.

Example wfr_wire :
  fst (model_out (CExp [2;0;0;0;0;0;0;0;0;1;100;0;0] [(2,0)] [(0,[5])] [] [] [])) =
  [0;0;0;0;0;0;0;0;0;0;0;0;0;0;0;0;0;0;0;0;0;5;0;0;0; 0;0;0;0;0;0;0;0;0;0;0;0;0;0;0;0; 0;0;0;0;0;0;0;0].
Proof. vm_compute. reflexivity. Qed.

(* the persistent-queue size witness in wire form (replayed by harness/C19/exp_test.go "witness-PQ-size"):
   three gated Sends, the size gauge reads 2 *)
Example pq_size_wire :
  fst (snd (model_out (CExp [2;1;1;0;5;0;0;0;0;0;0;0;0;0] [] [(1,[1;1;1])] [] [] []))) = [2; 0].
Proof. vm_compute. reflexivity. Qed.

(* a pipeline history: a consumer that moves the data out, one that fails after dropping half *)
Example pipe_history :
  let ops := [{| pc_n := 10; pc_after := 0; pc_err := false |}; {| pc_n := 8; pc_after := 4; pc_err := true |}] in
  (lget (PipeOk Logs) (pipe_run Logs ops), lget (PipeFail Logs) (pipe_run Logs ops)) = (10, 8).
Proof. vm_compute. reflexivity. Qed.

(* the hypotheses of exporter_balance_persistent_general_partial are satisfiable with something left stored:
   persistent queue behind the legacy batcher, a refusal, unread requests at shutdown, nothing kept by a
   shutdown-class OnDone *)
Definition opts_pers : eopts :=
  {| o_sig := Traces; o_queue := true; o_storage := true; o_items_sizer := false; o_cap := 2; o_wfr := false; o_block := false; o_badmarshal := -1;
     o_qbatch := None; o_batcher := Some (4, 0); o_retry := true; o_tracing := false |}.
Example persistent_hypotheses_satisfiable :
  let st := run_exporter opts_pers [ATransient; AOk] [OOffer 3; OOffer 2; OBurst [1; 1; 1]] in
  (s_kept st, s_stored st, s_offered st) = (0, 0, 8) /\ valid_batch opts_pers.
Proof. split; [vm_compute; reflexivity|intros mn mx H; vm_compute in H; inversion H; lia]. Qed.

(* gauges_persistent_never_overcounts / the NN switch: non-negative histories exist and reach the bound strictly *)
Example nonneg_history : Forall eop_nonneg [OOffer 3; OBurst [1; 0; 2]; OFlush].
Proof. repeat constructor; cbn; lia. Qed.

(* model_passes_checker is not vacuous: well-formed cases of every covered kind, with something to check *)
Example wf_cases :
  wf_case (CRecv true [(0, (7, false)); (2, (5, true))] []) /\
  wf_case (CScr false 0 [([(4, (2, (1, 3))); (6, (1, (2, 0)))], true)] []) /\
  wf_case (CProc 1 [(9, (0, (4, true)))] []) /\ wf_case (CPipe 3 [(10, (0, false))] []) /\
  prop_ok (observe (CScr false 0 [([(4, (2, (1, 3))); (6, (1, (2, 0)))], true)] [])) = true.
Proof. repeat split; try lia; try (repeat constructor; cbn; lia). Qed.
