(* C19/Proofs10.v — exporter helper: over a whole history the item attributes of the recorded export
   spans add up to exactly the sent / send_failed counters (and nothing is recorded when spans do not
   record). *)
From Verif Require Import Common.Base C19.Model C19.Proofs1 C19.Proofs2.
Local Open Scope Z_scope.

(* generic: any predicate on ledgers that is closed under appending the two kinds of increments the
   exporter makes holds of the ledger of every history *)
Section LedgerInv.
  Variable o : eopts.
  Variable spanok : ledger -> Prop.
  Hypothesis spanok_end_op : forall l n r, spanok l -> spanok (l ++ obs_end_op (o_tracing o) (o_sig o) n r).
  Hypothesis spanok_enq : forall l n, spanok l -> spanok (l ++ obs_enqueue_failed (o_sig o) n).
  Hypothesis spanok_nil : spanok [].

  Definition SP (st : est) : Prop := spanok (s_led st).

  Lemma on_done_SP d r st : SP st -> SP (on_done o d r st).
  Proof. unfold SP, on_done. cbn. auto. Qed.

  Lemma fire_SP r st d : SP st -> SP (fire o r st d).
  Proof.
    intros H. unfold fire. destruct (ref_lookup (d_id d) (s_ref st)) as [[d0 [c a]]|]; [|now apply on_done_SP].
    destruct (c <=? 1); [apply on_done_SP|]; exact H.
  Qed.

  Lemma fire_all_SP r ds st : SP st -> SP (fire_all o r ds st).
  Proof. unfold fire_all. revert st. induction ds as [|d ds IH]; intros st H; cbn [fold_left]; [exact H|]. apply IH, fire_SP, H. Qed.

  Lemma export_SP st f : SP st -> SP (export o st f).
  Proof.
    intros H. unfold export. destruct f as [items ds].
    destruct (retry_send (o_retry o) (s_down st) (s_outs st)) as [[r|] outs']; [|exact H].
    apply fire_all_SP. unfold SP. cbn. apply spanok_end_op. exact H.
  Qed.

  Lemma work_list_SP fq st : SP st -> SP (work_list o fq st).
  Proof.
    revert st. induction fq as [|f t IH]; intros st H; cbn [work_list]; [exact H|].
    destruct (s_hung st); [exact H|]. apply IH, export_SP, H.
  Qed.

  Lemma work_SP st : SP st -> SP (work o st).
  Proof. apply work_list_SP. Qed.

  Lemma with_ref_SP st d l : SP st -> SP (with_ref st d l).
  Proof. unfold with_ref. destruct (1 <? Z.of_nat (length l)); auto. Qed.

  Lemma consume_SP st d : SP st -> SP (consume o st d).
  Proof.
    intros H. unfold consume. destruct (batch_cfg o) as [[mn mx]|]; [|exact H].
    destruct (s_cur st) as [[ci cd]|].
    - destruct (merge_split mx ci (Some (d_items d))) as [|first rest]; [now apply fire_SP|].
      pose proof (with_ref_SP st d (if negb (1 <? Z.of_nat (length (first :: rest))) || negb (first =? ci) then first :: rest else rest) H) as H1.
      destruct ((1 <? Z.of_nat (length (first :: rest))) || (mn <=? first)); destruct rest;
        try destruct (last _ 0 <? mn); exact H1.
    - destruct (merge_split mx (d_items d) None) as [|a l]; [now apply fire_SP|].
      pose proof (with_ref_SP st d (a :: l) H) as H1.
      destruct (last (a :: l) 0 <? mn); exact H1.
  Qed.

  Lemma read_one_SP st : SP st -> SP (read_one o st).
  Proof. intros H. unfold read_one. destruct (s_queue st) as [|[id n] t]; [exact H|]. apply consume_SP. exact H. Qed.

  Lemma pump_SP f st : SP st -> SP (pump o f st).
  Proof.
    revert st. induction f as [|f IH]; intros st H; cbn [pump]; [exact H|].
    pose proof (work_SP st H) as H1. destruct (s_hung (work o st)); [exact H1|].
    destruct (s_queue (work o st)); [exact H1|]. apply IH, read_one_SP, H1.
  Qed.

  Lemma pump_closed_SP f st : SP st -> SP (pump_closed o f st).
  Proof.
    revert st. induction f as [|f IH]; intros st H; cbn [pump_closed]; [exact H|].
    destruct (s_hung st); [exact H|]. destruct (s_flushq st); [|exact H].
    destruct (s_queue st); [exact H|]. apply IH, read_one_SP, H.
  Qed.

  Lemma offer_SP st n : SP st -> SP (offer o st n).
  Proof.
    intros H. unfold offer.
    assert (Hr : SP (reject o (add_offered st n) n)) by (unfold SP, reject; cbn; apply spanok_enq; exact H).
    assert (Hnote : forall s k, SP s -> SP (note_send o s k)) by (intros s k Hs; unfold note_send; destruct (is_wfr o); exact Hs).
    destruct (qc o) as [c|].
    - destruct (q_storage c).
      + destruct (q_block c && over (q_cap c) (el_size o n)); [apply Hnote, Hr|].
        destruct (over (q_cap c) _); [unfold no_room; apply Hnote, Hr|].
        destruct (n =? o_badmarshal o); [apply Hnote, Hr|apply Hnote, H].
      + destruct (el_size o n =? 0); [apply Hnote, H|]. destruct (over (q_cap c) (el_size o n)); [apply Hnote, Hr|].
        destruct (over (q_cap c) _); [unfold no_room; apply Hnote, Hr|apply Hnote, H].
    - apply work_SP. exact H.
  Qed.

  Lemma flush_cur_SP st : SP st -> SP (flush_cur st).
  Proof. intros H. unfold flush_cur. destruct (s_cur st); exact H. Qed.

  Lemma fold_offer_SP ns st :
    SP st -> SP (fold_left (fun s n => let s' := offer o s n in pump_closed o (S (length (s_queue s'))) s') ns st).
  Proof.
    revert st. induction ns as [|n ns IH]; intros st H; cbn [fold_left]; [exact H|].
    apply IH, pump_closed_SP, offer_SP, H.
  Qed.

  Lemma step_SP st op : SP st -> SP (step o st op).
  Proof.
    intros H. destruct op as [n|ns| |ns]; cbn [step]; cbv zeta; [| | |exact (fold_offer_SP ns st H)].
    - assert (H1 : SP (run_quiet o (offer o st n))) by (apply pump_SP, offer_SP, H).
      destruct (is_wfr o); [exact (pump_SP _ _ (flush_cur_SP _ H1))|exact H1].
    - match goal with |- context [run_quiet o (gauge ?X)] => assert (H2 : SP (run_quiet o (gauge X))) by (apply pump_SP; exact (fold_offer_SP ns st H)) end.
      assert (HG : forall x, SP x -> SP (gauge x)) by (intros x Hx; exact Hx).
      destruct (is_wfr o); apply HG; [exact (pump_SP _ _ (flush_cur_SP _ H2))|exact H2].
    - exact (pump_SP _ _ (flush_cur_SP _ H)).
  Qed.

  Lemma release_hung_SP st : SP st -> SP (release_hung o st).
  Proof.
    intros H. unfold release_hung. destruct (s_hung st) as [[items ds]|]; [|exact H].
    apply fire_all_SP. unfold SP. cbn. apply spanok_end_op. exact H.
  Qed.

  Lemma shutdown_SP st : SP st -> SP (shutdown o st).
  Proof.
    intros H. unfold shutdown. apply work_SP, flush_cur_SP.
    assert (H1 : SP (work o (release_hung o (set_down st)))) by (apply work_SP, release_hung_SP; exact H).
    destruct (is_storage o); [exact H1|apply pump_SP, H1].
  Qed.

  Lemma init_SP outs : SP (init_est outs).
  Proof. exact spanok_nil. Qed.

  Lemma steps_SP ops st : SP st -> SP (fold_left (step o) ops st).
  Proof. revert st. induction ops as [|op ops IH]; intros st H; cbn [fold_left]; [exact H|]. apply IH, step_SP, H. Qed.

  Lemma run_exporter_SP outs ops : SP (run_exporter o outs ops).
  Proof. apply shutdown_SP, steps_SP, init_SP. Qed.
End LedgerInv.

(* instance 1: recorded span attributes add up to the counters *)
Section Span.
  Variable o : eopts.
  Hypothesis Hsig : o_sig o <> Profiles.

  Definition spanok (l : ledger) : Prop :=
    lget (SpanSent (o_sig o)) l = (if o_tracing o then lget (ExpSent (o_sig o)) l else 0) /\
    lget (SpanFailed (o_sig o)) l = (if o_tracing o then lget (ExpFailed (o_sig o)) l else 0).

  Lemma spanok_end_op l n r : spanok l -> spanok (l ++ obs_end_op (o_tracing o) (o_sig o) n r).
  Proof.
    unfold spanok. rewrite !lget_app. intros [A B].
    destruct (o_tracing o), (o_sig o), r; try congruence; simpl; lia.
  Qed.

  Lemma spanok_enq l n : spanok l -> spanok (l ++ obs_enqueue_failed (o_sig o) n).
  Proof.
    unfold spanok. rewrite !lget_app. intros [A B].
    destruct (o_tracing o), (o_sig o); try congruence; simpl; lia.
  Qed.

  Lemma spanok_nil : spanok [].
  Proof. unfold spanok. cbn. destruct (o_tracing o); split; reflexivity. Qed.

  Lemma run_exporter_span outs ops : spanok (s_led (run_exporter o outs ops)).
  Proof. exact (run_exporter_SP o spanok spanok_end_op spanok_enq spanok_nil outs ops). Qed.
End Span.

(* instance 2: a PROFILES exporter moves no instrument at all (obs_report_sender.go / obs_queue.go: "No
   metrics recorded for profiles") *)
Section Profiles.
  Variable o : eopts.
  Hypothesis Hsig : o_sig o = Profiles.

  Definition quiet (l : ledger) : Prop := forall c, is_span_counter c = false -> lget c l = 0.

  Lemma quiet_end_op l n r : quiet l -> quiet (l ++ obs_end_op (o_tracing o) (o_sig o) n r).
  Proof.
    intros H c Hc. rewrite lget_app, (H c Hc), Hsig. destruct (o_tracing o), r, c; simpl in *; try discriminate; lia.
  Qed.

  Lemma quiet_enq l n : quiet l -> quiet (l ++ obs_enqueue_failed (o_sig o) n).
  Proof. intros H c Hc. rewrite lget_app, (H c Hc), Hsig. simpl. lia. Qed.

  Lemma run_exporter_quiet outs ops : quiet (s_led (run_exporter o outs ops)).
  Proof. exact (run_exporter_SP o quiet quiet_end_op quiet_enq (fun c _ => eq_refl) outs ops). Qed.
End Profiles.
