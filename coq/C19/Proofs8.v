(* C19/Proofs8.v — Done bookkeeping over whole histories; stored items and queue size. *)
From Verif Require Import Common.Base C19.Model C19.Proofs1 C19.Proofs2 C19.Proofs3 C19.Proofs4 C19.Proofs6 C19.Proofs7.
Local Open Scope Z_scope.

Section Inv.
  Variable o : eopts.
  Hypothesis Hsig : o_sig o <> Profiles.

  Notation Inv6 := (Inv6 o).
  Notation GI := (GI o).

  Lemma read_one_G st : Inv6 st -> Inv6 (read_one o st).
  Proof.
    intros H. unfold read_one. destruct (s_queue st) as [|[id n] t] eqn:Eq; [exact H|].
    set (d := {| d_id := id; d_el := el_size o n; d_items := n |}).
    match goal with |- Proofs7.Inv6 o (consume o ?s d) => set (st' := s) end.
    unfold Proofs7.Inv6, Proofs6.GI in H. rewrite Eq in H. destruct H as [A B C D F G Hm Hs].
    set (R := refs st (fdones (s_flushq st))) in *.
    cbn [map fst] in C. inversion C as [|? ? Cn Ct]; subst.
    destruct (D id (or_introl eq_refl)) as (Q1 & Q2 & Q3).
    assert (Hrefs : refs st' (d :: fdones (s_flushq st')) = d :: R) by reflexivity.
    assert (Hfd : forall f, free f (s_ref st) d = f d) by (intros f; unfold free; cbn; now rewrite Q2).
    apply (consume_G o Hsig); [| exact Q1 | exact Q2 | exact Cn].
    unfold Proofs6.GI. rewrite Hrefs. cbn [st' s_ref s_queue s_next s_qsize s_stored s_kept].
    constructor; auto.
    - intros id' x m a Hi. destruct (B _ _ _ _ Hi) as [P1 P2]. split; auto. unfold occZ. rewrite dsum_cons.
      unfold occf at 1. cbn [d_id d]. destruct (Nat.eqb id id') eqn:E; [|exact P1].
      apply Nat.eqb_eq in E. subst id'. apply celled_false in Q2. exfalso. apply Q2. unfold ckeys.
      change id with (fst (id, (x, (m, a)))). now apply in_map.
    - intros id' Hi. destruct (D id' (or_intror Hi)) as (P1 & P2 & P3). repeat split; auto.
      unfold occZ. rewrite dsum_cons. unfold occf at 1. cbn [d_id d].
      replace (Nat.eqb id id') with false; [exact P1|]. symmetry. apply Nat.eqb_neq. intros E. subst. contradiction.
    - rewrite dsum_cons. unfold oldf at 1. cbn [d_id d]. replace (id <? s_next st)%nat with true by (symmetry; now apply Nat.ltb_lt). exact F.
    - intros Hst. unfold is_storage in *. pose proof (Hm Hst) as E. unfold LS in *. rewrite dsum_cons, Hfd. cbn [d_el d].
      unfold qel in *. cbn [map sumZ snd] in E.
      destruct (is_storage o) eqn:Es; unfold is_storage in Es; rewrite Es in *; try discriminate. lia.
    - intros Hst. pose proof (Hs Hst) as E. unfold LS in *. rewrite dsum_cons, Hfd. cbn [d_items d].
      unfold qsum in *. cbn [map sumZ snd] in E. lia.
  Qed.

  Lemma pump_G f st : Inv6 st -> Inv6 (pump o f st).
  Proof.
    revert st. induction f as [|f IH]; intros st H; cbn [pump]; [exact H|].
    pose proof (work_G o Hsig st H) as H1.
    destruct (s_hung (work o st)); [exact H1|].
    destruct (s_queue (work o st)) eqn:E; [exact H1|]. apply IH, read_one_G, H1.
  Qed.

  Lemma pump_closed_G f st : Inv6 st -> Inv6 (pump_closed o f st).
  Proof.
    revert st. induction f as [|f IH]; intros st H; cbn [pump_closed]; [exact H|].
    destruct (s_hung st); [exact H|]. destruct (s_flushq st) eqn:Ef; [|exact H].
    destruct (s_queue st) eqn:E; [exact H|]. apply IH, read_one_G, H.
  Qed.

  Lemma accept_G st n :
    Inv6 st -> (is_storage o = false -> True) -> Inv6 (accept o st n).
  Proof.
    intros H _. unfold Proofs7.Inv6, Proofs6.GI in *. destruct H as [A B C D F G Hm Hs].
    unfold accept. cbn [s_ref s_queue s_next s_qsize s_stored s_kept s_flushq].
    change (refs _ (fdones (s_flushq st))) with (refs st (fdones (s_flushq st))).
    set (R := refs st (fdones (s_flushq st))) in *.
    assert (Hq : forall id, In id (map fst (s_queue st)) -> (id < s_next st)%nat) by (intros id Hi; now destruct (D id Hi) as (_ & _ & ?)).
    constructor; auto.
    - rewrite map_app. cbn. apply NoDup_app_intro.
    - intros id Hi. rewrite map_app in Hi. apply in_app_or in Hi. destruct Hi as [Hi|[Hi|[]]].
      + destruct (D id Hi) as (P1 & P2 & P3). repeat split; auto.
      + subst id. cbn [fst]. repeat split; [apply (old_occ (s_next st)); [exact F|lia]| |lia].
        apply celled_false. intros K. specialize (G _ K). lia.
    - now apply old_mono.
    - intros id Hi. specialize (G id Hi). lia.
    - intros Hst. rewrite (Hm Hst). unfold qel. rewrite map_app, sumZ_app. cbn. lia.
    - intros Hst. rewrite Hst. pose proof (Hs Hst). rewrite qsum_app. unfold qsum at 2. cbn. lia.
  Qed.
End Inv.
