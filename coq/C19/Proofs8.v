(* C19/Proofs8.v — Done bookkeeping over whole histories; stored items and queue size. *)
From Verif Require Import Common.Base C19.Model C19.Proofs1 C19.Proofs2 C19.Proofs3 C19.Proofs4 C19.Proofs6 C19.Proofs7.
Local Open Scope Z_scope.

Lemma NoDup_snoc {A} (l : list A) x : NoDup l -> ~ In x l -> NoDup (l ++ [x]).
Proof.
  induction l as [|a l IH]; cbn; intros N H; [repeat constructor; auto|].
  inversion N; subst. constructor.
  - intros K. apply in_app_or in K. destruct K as [K|[K|[]]]; [contradiction|subst; apply H; now left].
  - apply IH; auto.
Qed.

Section Inv.
  Variable o : eopts.
  Variable NN : Prop.
  Hypothesis Hsig : o_sig o <> Profiles.
  Hypothesis HNcap : NN -> le_cap o 0.

  Notation Inv6 := (Inv6 o NN).
  Notation GI := (GI o NN).

  Lemma read_one_G st : Inv6 st -> Inv6 (read_one o st).
  Proof.
    intros H. unfold read_one. destruct (s_queue st) as [|[id n] t] eqn:Eq; [exact H|].
    set (d := {| d_id := id; d_el := el_size o n; d_items := n |}).
    match goal with |- Proofs7.Inv6 o NN (consume o ?s d) => set (st' := s) end.
    unfold Proofs7.Inv6, Proofs6.GI in H. rewrite Eq in H. destruct H as [A B C D F G Hm Hs J].
    set (R := refs st (fdones (s_flushq st))) in *.
    cbn [map fst] in C. inversion C as [|? ? Cn Ct]; subst.
    destruct (D id (or_introl eq_refl)) as (Q1 & Q2 & Q3).
    assert (Hrefs : refs st' (d :: fdones (s_flushq st')) = d :: R) by reflexivity.
    assert (Hfd : forall f, free f (s_ref st) d = f d) by (intros f; unfold free; cbn; now rewrite Q2).
    apply (consume_G o NN Hsig HNcap); [| exact Q1 | exact Q2 | exact Cn].
    unfold Proofs6.GI. rewrite Hrefs. cbn [st' s_ref s_queue s_next s_qsize s_stored s_kept].
    constructor; auto.
    - intros id' x m a Hi. destruct (B _ _ _ _ Hi) as [P1 P2]. split; auto. unfold occZ. rewrite dsum_cons.
      unfold occf at 1. cbn [d_id d]. destruct (Nat.eqb id id') eqn:E; [|exact P1].
      apply Nat.eqb_eq in E. subst id'. apply celled_false in Q2. exfalso. apply Q2. unfold ckeys.
      change id with (fst (id, (x, (m, a)))). now apply in_map.
    - intros id' Hi. destruct (D id' (or_intror Hi)) as (P1 & P2 & P3). repeat split; auto.
      unfold occZ. rewrite dsum_cons. unfold occf at 1. cbn [d_id d].
      replace (Nat.eqb id id') with false; [exact P1|]. symmetry. apply Nat.eqb_neq. intros E. subst. contradiction.
    - rewrite dsum_cons. unfold oldf at 1. cbn [d_id d]. replace (id <? s_next st)%nat with true by (symmetry; now apply Nat.ltb_lt). exact F.
    - intros Hst. unfold is_storage in *. pose proof (Hm Hst) as E. unfold LS in *. rewrite dsum_cons, Hfd. cbn [d_el d].
      unfold qel in *. cbn [map sumZ snd] in E.
      destruct (is_storage o) eqn:Es; unfold is_storage in Es; rewrite Es in *; try discriminate. lia.
    - intros Hst. pose proof (Hs Hst) as E. unfold LS in *. rewrite dsum_cons, Hfd. cbn [d_items d].
      unfold qsum in *. cbn [map sumZ snd] in E. lia.
    - intros HN. destruct (J HN) as (J1 & J2 & J3 & J4 & J5). inversion J3 as [|? ? Jh Jt]; subst. cbn [snd] in Jh.
      assert (Hneg : negf d = 0) by (unfold negf; cbn [d_el d]; destruct (el_size o n <? 0) eqn:Qn; [apply Z.ltb_lt in Qn; lia|reflexivity]).
      split; [rewrite dsum_cons; lia|]. split; [exact J2|]. split; [exact Jt|]. split;
        [|destruct (is_storage o); [destruct t; [exact (HNcap HN)|exact J5]|exact J5]].
      intros Hst. specialize (J4 Hst). rewrite Hst.
      pose proof (LS_el_nonneg _ _ J1 J2) as HL. pose proof (qel_nonneg o _ Jt) as HQ.
      unfold LS in *. rewrite dsum_cons, Hfd. cbn [d_el d]. unfold qel in *. cbn [map sumZ snd] in J4.
      destruct t; lia.
  Qed.

  Lemma pump_G f st : Inv6 st -> Inv6 (pump o f st).
  Proof.
    revert st. induction f as [|f IH]; intros st H; cbn [pump]; [exact H|].
    pose proof (work_G o NN HNcap st H) as H1.
    destruct (s_hung (work o st)); [exact H1|].
    destruct (s_queue (work o st)) eqn:E; [exact H1|]. apply IH, read_one_G, H1.
  Qed.

  Lemma pump_closed_G f st : Inv6 st -> Inv6 (pump_closed o f st).
  Proof.
    revert st. induction f as [|f IH]; intros st H; cbn [pump_closed]; [exact H|].
    destruct (s_hung st); [exact H|]. destruct (s_flushq st) eqn:Ef; [|exact H].
    destruct (s_queue st) eqn:E; [exact H|]. apply IH, read_one_G, H.
  Qed.

  Lemma accept_G st n :
    Inv6 st -> (NN -> 0 <= el_size o n) -> (NN -> le_cap o (s_qsize st + el_size o n)) -> Inv6 (accept o st n).
  Proof.
    intros H Hel Hcp. unfold Proofs7.Inv6, Proofs6.GI in *. destruct H as [A B C D F G Hm Hs J].
    unfold accept. cbn [s_ref s_queue s_next s_qsize s_stored s_kept s_flushq].
    change (refs _ (fdones (s_flushq st))) with (refs st (fdones (s_flushq st))).
    set (R := refs st (fdones (s_flushq st))) in *.
    assert (Hq : forall id, In id (map fst (s_queue st)) -> (id < s_next st)%nat) by (intros id Hi; now destruct (D id Hi) as (_ & _ & ?)).
    constructor; auto.
    - rewrite map_app. cbn. apply NoDup_snoc; [exact C|]. intros K. specialize (Hq _ K). lia.
    - intros id Hi. rewrite map_app in Hi. apply in_app_or in Hi. destruct Hi as [Hi|[Hi|[]]].
      + destruct (D id Hi) as (P1 & P2 & P3). repeat split; auto.
      + subst id. cbn [fst]. repeat split; [apply (old_occ (s_next st)); [exact F|lia]| |lia].
        apply celled_false. intros K. specialize (G _ K). lia.
    - now apply old_mono.
    - intros id Hi. specialize (G id Hi). lia.
    - intros Hst. rewrite (Hm Hst). unfold qel. rewrite map_app, sumZ_app. cbn. lia.
    - intros Hst. rewrite Hst. pose proof (Hs Hst). rewrite qsum_app. unfold qsum at 2. cbn. lia.
    - intros HN. destruct (J HN) as (J1 & J2 & J3 & J4 & J5). split; [exact J1|]. split; [exact J2|]. split; [|split; [|exact (Hcp HN)]].
      + apply Forall_app. split; [exact J3|]. repeat constructor. cbn [snd]. auto.
      + intros Hst. specialize (J4 Hst). specialize (Hel HN). unfold qel in *. rewrite map_app, sumZ_app. cbn. lia.
  Qed.

  Lemma el_size_nonneg n : 0 <= n -> 0 <= el_size o n.
  Proof. intros H. unfold el_size. destruct (qc o) as [c|]; [destruct (q_items_sizer c)|]; lia. Qed.
End Inv.

Section Inv2.
  Variable o : eopts.
  Variable NN : Prop.
  Hypothesis Hsig : o_sig o <> Profiles.
  Hypothesis HNcap : NN -> le_cap o 0.

  Notation Inv6 := (Inv6 o NN).

  Lemma view_Inv6 st st' :
    s_ref st' = s_ref st -> s_queue st' = s_queue st -> s_next st' = s_next st -> s_qsize st' = s_qsize st ->
    s_stored st' = s_stored st -> s_kept st' = s_kept st -> s_cur st' = s_cur st -> s_hung st' = s_hung st ->
    s_flushq st' = s_flushq st -> Inv6 st -> Inv6 st'.
  Proof.
    intros E1 E2 E3 E4 E5 E6 E7 E8 E9 H. unfold Proofs7.Inv6, Proofs6.GI, refs in *.
    now rewrite E1, E2, E3, E4, E5, E6, E7, E8, E9.
  Qed.

  Lemma offer_G st n : (NN -> 0 <= n) -> Inv6 st -> Inv6 (offer o st n).
  Proof.
    intros Hn H. unfold offer.
    assert (Hel : NN -> 0 <= el_size o n) by (intros HN; apply el_size_nonneg; auto).
    assert (H0 : Inv6 (add_offered st n)) by (eapply view_Inv6; [..|exact H]; reflexivity).
    assert (Hnote : forall s k, Inv6 s -> Inv6 (note_send o s k)) by (intros s k Hs; unfold note_send; destruct (is_wfr o); exact Hs).
    assert (Hrej : Inv6 (reject o (add_offered st n) n)) by (eapply view_Inv6; [..|exact H0]; reflexivity).
    destruct (qc o) as [c|] eqn:Eqc.
    - (* an accepted request fits: the capacity check just passed *)
      assert (Hfit : over (q_cap c) (s_qsize (add_offered st n) + el_size o n) = false -> NN -> le_cap o (s_qsize (add_offered st n) + el_size o n)).
      { intros Ho _. unfold le_cap, capb. rewrite Eqc. unfold over in Ho. destruct (q_cap c) as [cp|]; [apply Z.ltb_ge in Ho; exact Ho|exact I]. }
      destruct (q_storage c).
      + destruct (q_block c && over (q_cap c) (el_size o n)); [apply Hnote, Hrej|].
        destruct (over (q_cap c) _) eqn:Eo; [unfold no_room; apply Hnote, Hrej|].
        destruct (n =? o_badmarshal o); [apply Hnote, Hrej|apply Hnote, (accept_G o NN); auto].
      + destruct (el_size o n =? 0); [apply Hnote, H0|]. destruct (over (q_cap c) (el_size o n)); [apply Hnote, Hrej|].
        destruct (over (q_cap c) _) eqn:Eo; [unfold no_room; apply Hnote, Hrej|apply Hnote, (accept_G o NN); auto].
    - apply (work_G o NN HNcap). unfold Proofs7.Inv6, Proofs6.GI, push_flushes in *.
      cbn [s_ref s_queue s_next s_qsize s_stored s_kept s_flushq set_flushq].
      eapply GIR_equiv; [|exact H0]. intros g. rewrite !dsum_refs. cbn [s_cur s_hung set_flushq].
      rewrite fdones_app, dsum_app. cbn [fdones flat_map snd app]. rewrite dsum_nil. lia.
  Qed.

  Lemma flush_cur_G st : Inv6 st -> Inv6 (flush_cur st).
  Proof.
    intros H. unfold flush_cur. destruct (s_cur st) as [b|] eqn:Ec; [|exact H].
    unfold Proofs7.Inv6, Proofs6.GI, push_flushes in *. cbn [s_ref s_queue s_next s_qsize s_stored s_kept s_flushq set_flushq set_cur].
    eapply GIR_equiv; [|exact H]. intros g. rewrite !dsum_refs. cbn [s_cur s_hung set_flushq set_cur]. rewrite Ec.
    rewrite fdones_app, dsum_app. cbn [fdones flat_map odones app]. rewrite app_nil_r, dsum_nil. lia.
  Qed.

  Lemma fold_offer_G ns st :
    (NN -> Forall (fun n => 0 <= n) ns) -> Inv6 st -> Inv6 (fold_left (fun s n => let s' := offer o s n in pump_closed o (S (length (s_queue s'))) s') ns st).
  Proof.
    revert st. induction ns as [|n ns IH]; intros st F H; cbn [fold_left]; [exact H|].
    apply IH; [intros HN; specialize (F HN); now inversion F|].
    apply (pump_closed_G o NN Hsig HNcap), offer_G; [intros HN; specialize (F HN); now inversion F|exact H].
  Qed.

  Lemma step_G st op : (NN -> eop_nonneg op) -> Inv6 st -> Inv6 (step o st op).
  Proof.
    intros Hop H. destruct op as [n|ns| |ns]; cbn [step]; cbv zeta; [| | |eapply view_Inv6; [..|exact (fold_offer_G ns st Hop H)]; reflexivity].
    - assert (H1 : Inv6 (run_quiet o (offer o st n))) by (apply (pump_G o NN Hsig HNcap), offer_G; [exact Hop|exact H]).
      destruct (is_wfr o).
      + eapply view_Inv6; [..|apply (pump_G o NN Hsig HNcap), flush_cur_G, H1]; reflexivity.
      + eapply view_Inv6; [..|exact H1]; reflexivity.
    - match goal with |- context [run_quiet o (gauge ?X)] => assert (H2 : Inv6 (run_quiet o (gauge X))) by (apply (pump_G o NN Hsig HNcap); eapply view_Inv6; [..|exact (fold_offer_G ns st Hop H)]; reflexivity) end.
      destruct (is_wfr o).
      + eapply view_Inv6; [..|apply (pump_G o NN Hsig HNcap), flush_cur_G, H2]; reflexivity.
      + eapply view_Inv6; [..|exact H2]; reflexivity.
    - eapply view_Inv6; [..|apply (pump_G o NN Hsig HNcap), flush_cur_G, H]; reflexivity.
  Qed.

  Lemma steps_G ops st : (NN -> Forall eop_nonneg ops) -> Inv6 st -> Inv6 (fold_left (step o) ops st).
  Proof.
    revert st. induction ops as [|op ops IH]; intros st F H; cbn [fold_left]; [exact H|].
    apply IH; [intros HN; specialize (F HN); now inversion F|]. apply step_G; [intros HN; specialize (F HN); now inversion F|exact H].
  Qed.

  Lemma init_G outs : Inv6 (init_est outs).
  Proof.
    unfold Proofs7.Inv6, Proofs6.GI, refs. cbn. constructor; cbn; try constructor; try tauto; try reflexivity.
    split; [intros ? ? ? ? []|]. split; [constructor|]. split; [intros _; unfold LS, csum, dsum; cbn; lia|auto].
  Qed.

  Lemma release_hung_G st : Inv6 st -> Inv6 (release_hung o st).
  Proof.
    intros H. unfold release_hung. destruct (s_hung st) as [[items ds]|] eqn:Eh; [|exact H].
    match goal with |- Proofs7.Inv6 o NN (fire_all o RShutdown ds ?s) => set (s0 := s) end.
    unfold Proofs7.Inv6. destruct (fire_all_frame o Hsig RShutdown ds s0) as (_ & _ & Fq & _). rewrite Fq.
    apply (fire_all_G o NN HNcap). unfold Proofs6.GI in *. subst s0. cbn [s_ref s_queue s_next s_qsize s_stored s_kept s_flushq].
    eapply GIR_equiv; [|exact H]. intros g. rewrite !dsum_refs. cbn [s_cur s_hung]. rewrite Eh. cbn [odones snd].
    rewrite dsum_app, dsum_nil. lia.
  Qed.

  Lemma shutdown_G st : Inv6 st -> Inv6 (shutdown o st).
  Proof.
    intros H. unfold shutdown. apply (work_G o NN HNcap), flush_cur_G.
    assert (H1 : Inv6 (work o (release_hung o (set_down st)))).
    { apply (work_G o NN HNcap), release_hung_G. eapply view_Inv6; [..|exact H]; reflexivity. }
    destruct (is_storage o); [exact H1|apply (pump_G o NN Hsig HNcap), H1].
  Qed.

  Lemma run_exporter_G outs ops : (NN -> Forall eop_nonneg ops) -> Inv6 (run_exporter o outs ops).
  Proof. intros F. apply shutdown_G, steps_G; [exact F|apply init_G]. Qed.

  (* no outstanding reference => no refCountDone cell, nothing live *)
  Lemma no_refs_no_live st f :
    Inv6 st -> s_flushq st = [] -> s_cur st = None -> s_hung st = None -> LS f (s_ref st) (refs st (fdones (s_flushq st))) = 0.
  Proof.
    intros H Fq Fc Fh. unfold Proofs7.Inv6, Proofs6.GI in H. unfold refs in *. rewrite Fq, Fc, Fh in *. cbn in *.
    destruct H as [A B _ _ _ _ _ _ _]. destruct (s_ref st) as [|[id [d [n acc]]] c]; [reflexivity|].
    destruct (B id d n acc (or_introl eq_refl)) as [Q1 Q2]. unfold occZ in Q1. rewrite dsum_nil in Q1. lia.
  Qed.
End Inv2.

(* ---- (1) persistent queue, ANY batcher: stored = unread + kept after shutdown ------------------ *)
Lemma exporter_stored_general_l o outs ops :
  o_sig o <> Profiles -> valid_batch o -> is_storage o = true ->
  let st := run_exporter o outs ops in
  s_stored st = qsum (s_queue st) + s_kept st.
Proof.
  intros Hsig Hb Hst st.
  pose proof (run_exporter_G o False Hsig (fun F0 : False => match F0 with end) outs ops (fun F => match F with end)) as G. fold st in G.
  destruct (shutdown_end o Hsig Hb (fold_left (step o) ops (init_est outs))) as (Q1 & Q2 & Q3 & Q4).
  cbn zeta in *. fold (run_exporter o outs ops) in *. fold st in Q1, Q2, Q3, Q4.
  pose proof (no_refs_no_live o False st d_items G Q1 Q3 Q2) as L.
  unfold Proofs7.Inv6, Proofs6.GI in G. destruct G as [_ _ _ _ _ _ _ Hs _]. specialize (Hs Hst). lia.
Qed.

Lemma exporter_persistent_general_l o outs ops :
  o_sig o <> Profiles -> valid_batch o -> Forall eop_nonneg ops -> is_storage o = true ->
  let st := run_exporter o outs ops in
  lget (ExpSent (o_sig o)) (s_led st) + lget (ExpFailed (o_sig o)) (s_led st) + lget (ExpEnqFailed (o_sig o)) (s_led st)
  = s_offered st - s_stored st + s_kept st.
Proof.
  intros Hsig Hb F Hst st.
  pose proof (exporter_excess_l o outs ops Hsig Hb F) as A. cbn zeta in A. fold st in A.
  pose proof (exporter_stored_general_l o outs ops Hsig Hb Hst) as B. cbn zeta in B. fold st in B. lia.
Qed.

Lemma exporter_balance_persistent_general_l o outs ops :
  o_sig o <> Profiles -> valid_batch o -> Forall eop_nonneg ops -> is_storage o = true ->
  let st := run_exporter o outs ops in
  s_kept st = 0 -> balance o st.
Proof.
  intros Hsig Hb F Hst st Hk.
  pose proof (exporter_persistent_general_l o outs ops Hsig Hb F Hst) as A. cbn zeta in A. fold st in A.
  unfold balance. lia.
Qed.

(* ---- (2) memory queue: the size field (= the gauge) is the size of unread + live requests -------- *)
Definition outstanding_size (o : eopts) (st : est) : Z :=
  qel o (s_queue st) + LS d_el (s_ref st) (refs st (fdones (s_flushq st))).

Lemma mem_size_exact_l o outs ops :
  o_sig o <> Profiles -> valid_batch o -> is_storage o = false ->
  let st := fold_left (step o) ops (init_est outs) in
  s_qsize st = outstanding_size o st /\ s_qsize (shutdown o st) = 0.
Proof.
  intros Hsig Hb Hst st. split.
  - pose proof (steps_G o False Hsig (fun F0 : False => match F0 with end) ops (init_est outs) (fun F => match F with end) (init_G o False (fun F0 : False => match F0 with end) outs)) as G. fold st in G.
    unfold Proofs7.Inv6, Proofs6.GI in G. destruct G as [_ _ _ _ _ _ Hm _ _]. exact (Hm Hst).
  - pose proof (shutdown_G o False Hsig (fun F0 : False => match F0 with end) st (steps_G o False Hsig (fun F0 : False => match F0 with end) ops (init_est outs) (fun F => match F with end) (init_G o False (fun F0 : False => match F0 with end) outs))) as G.
    destruct (shutdown_end o Hsig Hb st) as (Q1 & Q2 & Q3 & Q4). cbn zeta in *.
    pose proof (no_refs_no_live o False (shutdown o st) d_el G Q1 Q3 Q2) as L.
    unfold Proofs7.Inv6, Proofs6.GI in G. destruct G as [_ _ _ _ _ _ Hm _ _]. rewrite (Hm Hst), L, (Q4 Hst). reflexivity.
Qed.

(* the state at which a burst's gauge is read (after the gated Sends, before the drain) *)
Lemma mem_size_exact_burst_l o outs ops ns :
  o_sig o <> Profiles -> is_storage o = false ->
  let st := fold_left (step o) ops (init_est outs) in
  let st1 := fold_left (fun s n => let s' := offer o s n in pump_closed o (S (length (s_queue s'))) s') ns st in
  s_qsize st1 = outstanding_size o st1.
Proof.
  intros Hsig Hst st st1.
  pose proof (fold_offer_G o False Hsig (fun F0 : False => match F0 with end) ns st (fun F => match F with end) (steps_G o False Hsig (fun F0 : False => match F0 with end) ops (init_est outs) (fun F => match F with end) (init_G o False (fun F0 : False => match F0 with end) outs))) as G. fold st1 in G.
  unfold Proofs7.Inv6, Proofs6.GI in G. destruct G as [_ _ _ _ _ _ Hm _ _]. exact (Hm Hst).
Qed.

(* ---- persistent queue: the size field UNDER-counts after the read index catches up -------------- *)
Definition opts_pq : eopts :=
  {| o_sig := Logs; o_queue := true; o_storage := true; o_items_sizer := false; o_cap := 5; o_wfr := false; o_block := false; o_badmarshal := -1;
     o_qbatch := None; o_batcher := None; o_retry := false; o_tracing := false |}.

(* three Sends while the pusher is gated: the consumer reads the first request, the read index
   catches up with the write index and persistent_queue.go Read sets queueSize = 0 although that
   request is still being exported; the next two Sends bring it to 2; three requests are outstanding *)
Definition st_pq : est :=
  fold_left (fun s n => let s' := offer opts_pq s n in pump_closed opts_pq (S (length (s_queue s'))) s') [1; 1; 1] (init_est []).

Lemma persistent_size_undercounts_l :
  exists o st, o_sig o <> Profiles /\ is_storage o = true /\ Inv6 o True st /\
    s_qsize st = 2 /\ outstanding_size o st = 3.
Proof.
  exists opts_pq, st_pq. split; [discriminate|]. split; [reflexivity|]. split.
  - apply (fold_offer_G opts_pq True ltac:(discriminate) (fun _ => ltac:(vm_compute; discriminate))); [intros _; repeat constructor; lia|apply init_G; intros _; vm_compute; discriminate].
  - vm_compute. split; reflexivity.
Qed.

(* persistent queue: the size field never OVER-counts (histories of non-negative item counts) *)
Lemma persistent_size_bound_l o outs ops ns :
  o_sig o <> Profiles -> le_cap o 0 -> Forall eop_nonneg ops -> Forall (fun n => 0 <= n) ns -> is_storage o = true ->
  let st := fold_left (step o) ops (init_est outs) in
  let st1 := fold_left (fun s n => let s' := offer o s n in pump_closed o (S (length (s_queue s'))) s') ns st in
  0 <= s_qsize st <= outstanding_size o st /\ 0 <= s_qsize st1 <= outstanding_size o st1.
Proof.
  intros Hsig Hc0 F Fn Hst st st1.
  pose proof (steps_G o True Hsig (fun _ => Hc0) ops (init_est outs) (fun _ => F) (init_G o True (fun _ => Hc0) outs)) as G. fold st in G.
  pose proof (fold_offer_G o True Hsig (fun _ => Hc0) ns st (fun _ => Fn) G) as G1. fold st1 in G1.
  unfold Proofs7.Inv6, Proofs6.GI in G, G1.
  destruct G as [_ _ _ _ _ _ _ _ J]. destruct G1 as [_ _ _ _ _ _ _ _ J1].
  destruct (J I) as (_ & _ & _ & B & _). destruct (J1 I) as (_ & _ & _ & B1 & _).
  split; [exact (B Hst)|exact (B1 Hst)].
Qed.
