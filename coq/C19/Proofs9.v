(* C19/Proofs9.v — pipeline instrumentation (service/internal/obsconsumer). *)
From Verif Require Import Common.Base C19.Model C19.Proofs1.
Local Open Scope Z_scope.

Definition is_pipe_counter (c : counter) : bool := match c with PipeOk _ | PipeFail _ => true | _ => false end.

Lemma pipe_consume_facts s o :
  lget (PipeOk s) (pipe_consume s o) + lget (PipeFail s) (pipe_consume s o) = pc_n o /\
  (pc_err o = false -> lget (PipeOk s) (pipe_consume s o) = pc_n o /\ lget (PipeFail s) (pipe_consume s o) = 0) /\
  (pc_err o = true -> lget (PipeOk s) (pipe_consume s o) = 0 /\ lget (PipeFail s) (pipe_consume s o) = pc_n o) /\
  (forall c, c <> PipeOk s -> c <> PipeFail s -> lget c (pipe_consume s o) = 0).
Proof.
  destruct o as [n a e]. unfold pipe_consume. cbn [pc_err pc_n]. destruct e; cbn [lget]; rewrite ?counter_eqb_refl;
    repeat split; try (intros; discriminate); try (destruct s; cbn; lia);
    intros c H1 H2; rewrite ?(counter_eqb_neq _ _ H1), ?(counter_eqb_neq _ _ H2); lia.
Qed.

Lemma pipe_run_ok s t ops :
  lget (PipeOk t) (pipe_run s ops) = if signal_eqb s t then sumZ (map pc_n (filter (fun o => negb (pc_err o)) ops)) else 0.
Proof.
  unfold pipe_run. rewrite lget_flat_map. induction ops as [|o ops IH]; [simpl; now destruct (signal_eqb s t)|].
  cbn [map sumZ filter]. rewrite IH. destruct o as [n a e]; destruct e; destruct s, t; cbn; lia.
Qed.

Lemma pipe_run_fail s t ops :
  lget (PipeFail t) (pipe_run s ops) = if signal_eqb s t then sumZ (map pc_n (filter pc_err ops)) else 0.
Proof.
  unfold pipe_run. rewrite lget_flat_map. induction ops as [|o ops IH]; [simpl; now destruct (signal_eqb s t)|].
  cbn [map sumZ filter]. rewrite IH. destruct o as [n a e]; destruct e; destruct s, t; cbn; lia.
Qed.

Lemma pipe_run_foreign s ops c : is_pipe_counter c = false -> lget c (pipe_run s ops) = 0.
Proof.
  intros Hc. unfold pipe_run. rewrite lget_flat_map. induction ops as [|o ops IH]; [reflexivity|].
  cbn [map sumZ]. rewrite IH. destruct o as [n a e]; destruct e, c; simpl in *; try discriminate; lia.
Qed.

Lemma pipe_balance_l s ops :
  lget (PipeOk s) (pipe_run s ops) + lget (PipeFail s) (pipe_run s ops) = sumZ (map pc_n ops) /\
  lget (PipeOk s) (pipe_run s ops) = sumZ (map pc_n (filter (fun o => negb (pc_err o)) ops)) /\
  lget (PipeFail s) (pipe_run s ops) = sumZ (map pc_n (filter pc_err ops)) /\
  (forall t, t <> s -> lget (PipeOk t) (pipe_run s ops) = 0 /\ lget (PipeFail t) (pipe_run s ops) = 0) /\
  (forall c, is_pipe_counter c = false -> lget c (pipe_run s ops) = 0).
Proof.
  rewrite pipe_run_ok, pipe_run_fail, signal_eqb_refl. repeat split.
  - induction ops as [|o ops IH]; [reflexivity|]. cbn [map sumZ filter]. destruct (pc_err o); cbn [negb map sumZ]; lia.
  - rewrite pipe_run_ok, signal_eqb_neq; auto.
  - rewrite pipe_run_fail, signal_eqb_neq; auto.
  - intros c Hc. now apply pipe_run_foreign.
Qed.

(* what is counted is what was OFFERED: two histories that differ only in what the downstream
   consumers left in the payload produce the same ledger *)
Lemma pipe_mutation_irrelevant_l s ops ops' :
  map (fun o => (pc_n o, pc_err o)) ops = map (fun o => (pc_n o, pc_err o)) ops' -> pipe_run s ops = pipe_run s ops'.
Proof.
  revert ops'. induction ops as [|o ops IH]; intros [|o' ops'] E; try discriminate; [reflexivity|].
  cbn [map] in E. inversion E as [[E1 E2 E3]]. unfold pipe_run. cbn [flat_map]. fold (pipe_run s ops) (pipe_run s ops').
  rewrite (IH ops' E3). unfold pipe_consume. now rewrite E1, E2.
Qed.
