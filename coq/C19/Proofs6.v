(* C19/Proofs6.v — exporter helper: the Done bookkeeping.  Every request that was read from the
   queue and whose OnDone has not fired yet ("live") is referenced from the current batch, the flush
   queue or the hung export: once if it was not split, refCount times through its refCountDone cell.
   Consequences: memory queue size = sizes of unread + live requests; persistent queue:
   stored - kept = items of unread + live requests. *)
From Verif Require Import Common.Base C19.Model C19.Proofs1 C19.Proofs2 C19.Proofs3.
Local Open Scope Z_scope.

Definition cells_t := list (nat * (done * (Z * eres))).

Definition dsum (g : done -> Z) (l : list done) : Z := sumZ (map g l).
Global Arguments dsum : simpl never.

Lemma dsum_nil g : dsum g [] = 0. Proof. reflexivity. Qed.
Lemma dsum_cons g d l : dsum g (d :: l) = g d + dsum g l. Proof. reflexivity. Qed.
Lemma dsum_app g a b : dsum g (a ++ b) = dsum g a + dsum g b.
Proof. unfold dsum. now rewrite map_app, sumZ_app. Qed.

Lemma dsum_nonneg g l : (forall d, 0 <= g d) -> 0 <= dsum g l.
Proof. intros H. induction l as [|d l IH]; [rewrite dsum_nil; lia|]. rewrite dsum_cons. specialize (H d). lia. Qed.

Lemma dsum_zero_in g l : (forall d, 0 <= g d) -> dsum g l = 0 -> forall d, In d l -> g d = 0.
Proof.
  intros H. induction l as [|a l IH]; intros E d [].
  - subst. rewrite dsum_cons in E. pose proof (dsum_nonneg g l H). specialize (H d). lia.
  - apply IH; auto. rewrite dsum_cons in E. pose proof (dsum_nonneg g l H). specialize (H a). lia.
Qed.

Lemma dsum_ext_in g h l : (forall d, In d l -> g d = h d) -> dsum g l = dsum h l.
Proof.
  induction l as [|a l IH]; intros H; [reflexivity|]. rewrite !dsum_cons, IH; [|intros; apply H; now right].
  rewrite (H a (or_introl eq_refl)). reflexivity.
Qed.

(* references to the request with a given id *)
Definition occf (id : nat) (d : done) : Z := if Nat.eqb (d_id d) id then 1 else 0.
Definition occZ (id : nat) (l : list done) : Z := dsum (occf id) l.

Lemma occf_nonneg id d : 0 <= occf id d. Proof. unfold occf. destruct (Nat.eqb _ _); lia. Qed.
Lemma occZ_nonneg id l : 0 <= occZ id l. Proof. apply dsum_nonneg, occf_nonneg. Qed.

Lemma occZ_zero_neq id l : occZ id l = 0 -> forall d, In d l -> d_id d <> id.
Proof.
  intros E d Hd Heq. pose proof (dsum_zero_in (occf id) l (occf_nonneg id) E d Hd) as Z0.
  unfold occf in Z0. apply Nat.eqb_eq in Heq. rewrite Heq in Z0. discriminate.
Qed.

(* ids below the next fresh id *)
Definition oldf (nx : nat) (d : done) : Z := if (d_id d <? nx)%nat then 0 else 1.
Lemma oldf_nonneg nx d : 0 <= oldf nx d. Proof. unfold oldf. destruct (_ <? _)%nat; lia. Qed.

Lemma old_occ nx l : dsum (oldf nx) l = 0 -> forall id, (nx <= id)%nat -> occZ id l = 0.
Proof.
  intros E id Hid. unfold occZ. rewrite (dsum_ext_in (occf id) (fun _ => 0) l).
  - clear. induction l; [reflexivity|]. rewrite dsum_cons. lia.
  - intros d Hd. pose proof (dsum_zero_in (oldf nx) l (oldf_nonneg nx) E d Hd) as Z0.
    unfold oldf in Z0. destruct (d_id d <? nx)%nat eqn:L; [|discriminate]. apply Nat.ltb_lt in L.
    unfold occf. destruct (Nat.eqb (d_id d) id) eqn:Q; [apply Nat.eqb_eq in Q; lia|reflexivity].
Qed.

Lemma old_mono nx l : dsum (oldf nx) l = 0 -> dsum (oldf (S nx)) l = 0.
Proof.
  intros E. rewrite (dsum_ext_in (oldf (S nx)) (fun _ => 0) l).
  - clear. induction l; [reflexivity|]. rewrite dsum_cons. lia.
  - intros d Hd. pose proof (dsum_zero_in (oldf nx) l (oldf_nonneg nx) E d Hd) as Z0.
    unfold oldf in *. destruct (d_id d <? nx)%nat eqn:L; [|discriminate]. apply Nat.ltb_lt in L.
    replace (d_id d <? S nx)%nat with true by (symmetry; apply Nat.ltb_lt; lia). reflexivity.
Qed.

(* ---- refCountDone cells ---------------------------------------------------------------------- *)
Definition ckeys (c : cells_t) : list nat := map fst c.
Definition celled (id : nat) (c : cells_t) : bool := existsb (fun x => Nat.eqb (fst x) id) c.
Definition csum (f : done -> Z) (c : cells_t) : Z := sumZ (map (fun x => f (fst (snd x))) c).
Global Arguments csum : simpl never.

Lemma celled_In id c : celled id c = true <-> In id (ckeys c).
Proof.
  unfold celled, ckeys. rewrite existsb_exists. split.
  - intros [x [Hx E]]. apply Nat.eqb_eq in E. subst. now apply in_map.
  - intros H. apply in_map_iff in H. destruct H as [x [E Hx]]. exists x. split; auto. now apply Nat.eqb_eq.
Qed.

Lemma celled_false id c : celled id c = false <-> ~ In id (ckeys c).
Proof. rewrite <- celled_In. destruct (celled id c); split; congruence. Qed.

Lemma lookup_none id c : ref_lookup id c = None <-> celled id c = false.
Proof.
  induction c as [|[i v] c IH]; cbn; [tauto|]. destruct (Nat.eqb i id); cbn; [split; discriminate|exact IH].
Qed.

Lemma lookup_some id c v : ref_lookup id c = Some v -> In (id, v) c.
Proof.
  induction c as [|[i w] c IH]; cbn; [discriminate|]. destruct (Nat.eqb i id) eqn:E.
  - intros H. inversion H; subst. apply Nat.eqb_eq in E. subst. now left.
  - intros H. right. auto.
Qed.

Lemma remove_keys id c : forall k, In k (ckeys (ref_remove id c)) -> In k (ckeys c).
Proof.
  induction c as [|[i w] c IH]; cbn; [tauto|]. destruct (Nat.eqb i id); cbn; intros k H; [now right|].
  destruct H; [now left|right; auto].
Qed.

Lemma remove_nodup id c : NoDup (ckeys c) -> NoDup (ckeys (ref_remove id c)) /\ ~ In id (ckeys (ref_remove id c)).
Proof.
  induction c as [|[i w] c IH]; cbn; intros N; [split; [constructor|tauto]|].
  inversion N as [|? ? Ni Nc]; subst. destruct (Nat.eqb i id) eqn:E.
  - apply Nat.eqb_eq in E. subst. split; assumption.
  - apply Nat.eqb_neq in E. destruct (IH Nc) as [A B]. split.
    + cbn. constructor; [|exact A]. intros H. apply Ni. eapply remove_keys; eauto.
    + cbn. intros [H|H]; [congruence|contradiction].
Qed.

Lemma remove_in id c x : NoDup (ckeys c) -> (In x (ref_remove id c) <-> In x c /\ fst x <> id).
Proof.
  induction c as [|[i w] c IH]; cbn; intros N; [tauto|].
  inversion N as [|? ? Ni Nc]; subst. destruct (Nat.eqb i id) eqn:E.
  - apply Nat.eqb_eq in E. subst. split.
    + intros H. split; [now right|]. intros Q. apply Ni. unfold ckeys. rewrite <- Q. now apply in_map.
    + intros [[H|H] Q]; [subst; cbn in Q; congruence|exact H].
  - apply Nat.eqb_neq in E. cbn. rewrite (IH Nc). split.
    + intros [H|[H Q]]; [subst; cbn; split; [now left|exact E]|split; [now right|exact Q]].
    + intros [[H|H] Q]; [now left|right; split; assumption].
Qed.

Lemma remove_celled id id' c : NoDup (ckeys c) -> id' <> id -> celled id' (ref_remove id c) = celled id' c.
Proof.
  intros N Hne. destruct (celled id' c) eqn:E.
  - apply celled_In in E. apply celled_In. unfold ckeys in *. apply in_map_iff in E. destruct E as [x [Q Hx]].
    apply in_map_iff. exists x. split; [exact Q|]. apply remove_in; auto. split; auto. congruence.
  - apply celled_false in E. apply celled_false. intros H. apply E. eapply remove_keys; eauto.
Qed.

Lemma remove_csum f id c v : NoDup (ckeys c) -> ref_lookup id c = Some v -> csum f (ref_remove id c) = csum f c - f (fst v).
Proof.
  unfold csum. induction c as [|[i w] c IH]; cbn; [discriminate|]. intros N. inversion N as [|? ? Ni Nc]; subst.
  destruct (Nat.eqb i id); cbn.
  - intros H. inversion H; subst. lia.
  - intros H. rewrite (IH Nc H). lia.
Qed.

(* ---- the invariant, over the list R of all outstanding Done references ------------------------ *)
Definition free (f : done -> Z) (c : cells_t) (d : done) : Z := if celled (d_id d) c then 0 else f d.
(* each live request once: not-split requests through their single reference, split ones through their cell *)
Definition LS (f : done -> Z) (c : cells_t) (R : list done) : Z := dsum (free f c) R + csum f c.

(* sizes are non-negative *)
Definition negf (d : done) : Z := if d_el d <? 0 then 1 else 0.
Lemma negf_nonneg d : 0 <= negf d. Proof. unfold negf. destruct (_ <? _); lia. Qed.

Lemma dsum_nonneg_in g l : (forall d, In d l -> 0 <= g d) -> 0 <= dsum g l.
Proof.
  induction l as [|a l IH]; intros H; [rewrite dsum_nil; lia|]. rewrite dsum_cons.
  pose proof (H a (or_introl eq_refl)). assert (0 <= dsum g l) by (apply IH; intros; apply H; now right). lia.
Qed.

Lemma csum_nonneg f (c : cells_t) : (forall id d n acc, In (id, (d, (n, acc))) c -> 0 <= f d) -> 0 <= csum f c.
Proof.
  unfold csum. induction c as [|[id [d [n acc]]] c IH]; intros H; [simpl; lia|]. cbn [map sumZ fst snd].
  pose proof (H id d n acc (or_introl eq_refl)). assert (0 <= sumZ (map (fun x => f (fst (snd x))) c)) by (apply IH; intros; eapply H; right; eauto). lia.
Qed.

Lemma LS_el_nonneg c R :
  dsum negf R = 0 -> (forall id d n acc, In (id, (d, (n, acc))) c -> 0 <= d_el d) -> 0 <= LS d_el c R.
Proof.
  intros HR Hc. unfold LS. pose proof (csum_nonneg d_el c Hc).
  assert (0 <= dsum (free d_el c) R).
  { apply dsum_nonneg_in. intros d Hd. unfold free. destruct (celled (d_id d) c); [lia|].
    pose proof (dsum_zero_in negf R negf_nonneg HR d Hd) as Z0. unfold negf in Z0. destruct (d_el d <? 0) eqn:E; [discriminate|]. now apply Z.ltb_ge in E. }
  lia.
Qed.

Section Inv.
  Variable o : eopts.
  (* NN: "every size offered so far is non-negative"; the facts that need it are stated under it, so that
     the invariant can be used with NN := True (histories of non-negative item counts) or NN := False *)
  Variable NN : Prop.

  (* the configured capacity (None: no queue, or math.MaxInt) *)
  Definition capb : option Z := match qc o with Some c => q_cap c | None => None end.
  Definition le_cap (x : Z) : Prop := match capb with Some cp => x <= cp | None => True end.
  (* under NN the capacity is non-negative (config.Validate: queue_size > 0) *)
  Hypothesis HNcap : NN -> le_cap 0.

  Definition qel (q : list (nat * Z)) : Z := sumZ (map (fun p => el_size o (snd p)) q).

  Record GIR (c : cells_t) (q : list (nat * Z)) (nx : nat) (qs sto kept : Z) (R : list done) : Prop := {
    g_nodup : NoDup (ckeys c);
    g_cnt : forall id d n acc, In (id, (d, (n, acc))) c -> n = occZ id R /\ 1 <= n;
    g_qnodup : NoDup (map fst q);
    g_qfresh : forall id, In id (map fst q) -> occZ id R = 0 /\ celled id c = false /\ (id < nx)%nat;
    g_old : dsum (oldf nx) R = 0;
    g_cold : forall id, In id (ckeys c) -> (id < nx)%nat;
    g_mem : is_storage o = false -> qs = qel q + LS d_el c R;
    g_sto : is_storage o = true -> sto - kept = qsum q + LS d_items c R;
    g_nn : NN -> dsum negf R = 0 /\ (forall id d n acc, In (id, (d, (n, acc))) c -> 0 <= d_el d) /\
                 Forall (fun p => 0 <= el_size o (snd p)) q /\
                 (is_storage o = true -> 0 <= qs <= qel q + LS d_el c R) /\
                 le_cap qs }.

  Lemma le_cap_dec qs el : NN -> le_cap qs -> 0 <= el -> le_cap (qs - el) /\ le_cap (Z.max 0 (qs - el)).
  Proof. intros HN H He. pose proof (HNcap HN) as H0. unfold le_cap in *. destruct capb; [split; lia|split; exact I]. Qed.

  Lemma qel_nonneg q : Forall (fun p => 0 <= el_size o (snd p)) q -> 0 <= qel q.
  Proof. unfold qel. induction 1; cbn [map sumZ]; lia. Qed.

  Definition req (R1 R2 : list done) : Prop := forall g, dsum g R1 = dsum g R2.

  Lemma GIR_equiv c q nx qs sto kept R1 R2 : req R1 R2 -> GIR c q nx qs sto kept R1 -> GIR c q nx qs sto kept R2.
  Proof.
    intros E [A B C D F G H I J]. constructor; auto.
    - intros id d n acc Hin. unfold occZ. rewrite <- E. exact (B id d n acc Hin).
    - intros id Hin. unfold occZ. rewrite <- E. exact (D id Hin).
    - rewrite <- E. exact F.
    - intros Hs. unfold LS. rewrite <- E. exact (H Hs).
    - intros Hs. unfold LS. rewrite <- E. exact (I Hs).
    - intros HN. destruct (J HN) as (J1 & J2 & J3 & J4 & J5). split; [rewrite <- E; exact J1|]. split; [exact J2|]. split; [exact J3|]. split; [|exact J5].
      intros Hs. unfold LS. rewrite <- E. exact (J4 Hs).
  Qed.

  (* one reference is consumed: Done.OnDone *)
  Definition odones (f : option flushrec) : list done := match f with Some x => snd x | None => [] end.
  Definition fdones (q : list flushrec) : list done := flat_map snd q.
  Definition refs (st : est) (held : list done) : list done := held ++ odones (s_cur st) ++ odones (s_hung st).
  Definition GI (st : est) (held : list done) : Prop :=
    GIR (s_ref st) (s_queue st) (s_next st) (s_qsize st) (s_stored st) (s_kept st) (refs st held).

  Lemma free_same f c c' l : (forall d, In d l -> celled (d_id d) c' = celled (d_id d) c) -> dsum (free f c') l = dsum (free f c) l.
  Proof. intros H. apply dsum_ext_in. intros d Hd. unfold free. now rewrite H. Qed.

  Lemma on_done_view d r st :
    s_ref (on_done o d r st) = s_ref st /\ s_queue (on_done o d r st) = s_queue st /\ s_next (on_done o d r st) = s_next st /\
    s_cur (on_done o d r st) = s_cur st /\ s_hung (on_done o d r st) = s_hung st /\ s_flushq (on_done o d r st) = s_flushq st /\
    (is_storage o = false -> s_qsize (on_done o d r st) = s_qsize st - d_el d) /\
    (is_storage o = true -> s_stored (on_done o d r st) - s_kept (on_done o d r st) = s_stored st - s_kept st - d_items d) /\
    (is_storage o = true -> s_qsize (on_done o d r st) = Z.max 0 (s_qsize st - d_el d)).
  Proof.
    unfold on_done. cbn. repeat split.
    - intros H. now rewrite H.
    - intros H. rewrite H. cbn. destruct (eres_is_shutdown r); cbn; lia.
    - intros H. now rewrite H.
  Qed.

  Lemma fire_G r st d held : GI st (d :: held) -> GI (fire o r st d) held.
  Proof.
    unfold GI, refs. cbn [app]. set (R' := held ++ odones (s_cur st) ++ odones (s_hung st)).
    intros [A B C D F G H I J]. unfold fire.
    destruct (ref_lookup (d_id d) (s_ref st)) as [[d0 [n acc]]|] eqn:L.
    - pose proof (lookup_some _ _ _ L) as Hin. destruct (B _ _ _ _ Hin) as [Bn B1].
      unfold occZ in Bn. rewrite dsum_cons in Bn. unfold occf at 1 in Bn. rewrite Nat.eqb_refl in Bn. fold (occZ (d_id d) R') in Bn.
      destruct (remove_nodup (d_id d) (s_ref st) A) as [N1 N2].
      assert (Hc : celled (d_id d) (s_ref st) = true) by (apply celled_In; unfold ckeys; change (d_id d) with (fst (d_id d, (d0, (n, acc)))); now apply in_map).
      assert (Hfd : forall f, free f (s_ref st) d = 0) by (intros f; unfold free; now rewrite Hc).
      destruct (n <=? 1) eqn:E1.
      + apply Z.leb_le in E1. pose proof (occZ_nonneg (d_id d) R'). assert (Z0 : occZ (d_id d) R' = 0) by lia.
        set (st1 := set_ref st (ref_remove (d_id d) (s_ref st))).
        destruct (on_done_view d0 (comb acc r) st1) as (V1 & V2 & V3 & V4 & V5 & V6 & V7 & V8 & V9).
        rewrite V1, V2, V3, V4, V5. subst st1. cbn [s_ref s_queue s_next s_cur s_hung set_ref] in *.
        assert (Hfree : forall f, dsum (free f (ref_remove (d_id d) (s_ref st))) R' = dsum (free f (s_ref st)) R').
        { intros f. apply free_same. intros x Hx. apply remove_celled; auto. eapply occZ_zero_neq; eauto. }
        fold R'. constructor; auto.
        * intros id x m a Hi. apply remove_in in Hi; auto. destruct Hi as [Hi Hne]. cbn in Hne.
          destruct (B _ _ _ _ Hi) as [Q1 Q2]. split; auto. unfold occZ in Q1. rewrite dsum_cons in Q1.
          unfold occf at 1 in Q1. replace (Nat.eqb (d_id d) id) with false in Q1 by (symmetry; apply Nat.eqb_neq; congruence). exact Q1.
        * intros id Hi. destruct (D id Hi) as (Q1 & Q2 & Q3). unfold occZ in Q1. rewrite dsum_cons in Q1.
          pose proof (occf_nonneg id d). pose proof (occZ_nonneg id R'). unfold occZ in *. repeat split; auto; [lia|].
          apply celled_false. intros K. apply celled_false in Q2. apply Q2. eapply remove_keys; eauto.
        * rewrite dsum_cons in F. pose proof (oldf_nonneg (s_next st) d). pose proof (dsum_nonneg (oldf (s_next st)) R' (oldf_nonneg _)). lia.
        * intros id Hi. apply G. eapply remove_keys; eauto.
        * intros Hs. rewrite (V7 Hs). cbn [s_qsize set_ref]. rewrite (H Hs). unfold LS. rewrite dsum_cons, Hfree.
          rewrite (remove_csum d_el _ _ _ A L). rewrite Hfd. cbn. lia.
        * intros Hs. rewrite (V8 Hs). cbn [s_stored s_kept set_ref]. rewrite (I Hs). unfold LS. rewrite dsum_cons, Hfree.
          rewrite (remove_csum d_items _ _ _ A L). rewrite Hfd. cbn. lia.
        * intros HN. destruct (J HN) as (J1 & J2 & J3 & J4 & J5). rewrite dsum_cons in J1.
          pose proof (negf_nonneg d). pose proof (dsum_nonneg negf R' negf_nonneg).
          assert (N1' : dsum negf R' = 0) by lia.
          assert (N2' : forall id x m a, In (id, (x, (m, a))) (ref_remove (d_id d) (s_ref st)) -> 0 <= d_el x)
            by (intros id x m a Hi; apply remove_in in Hi; auto; destruct Hi as [Hi _]; eauto).
          split; [exact N1'|]. split; [exact N2'|]. split; [exact J3|]. split.
          { intros Hs. rewrite (V9 Hs). cbn [s_qsize set_ref].
            pose proof (LS_el_nonneg _ _ N1' N2') as HL. pose proof (qel_nonneg _ J3) as HQ. specialize (J4 Hs).
            unfold LS in *. rewrite dsum_cons, Hfd in J4. rewrite Hfree. rewrite Hfree in HL.
            rewrite (remove_csum d_el _ _ _ A L) in *. cbn [fst] in *. lia. }
          { pose proof (J2 _ _ _ _ Hin) as Hel0. destruct (le_cap_dec (s_qsize st) (d_el d0) HN J5 Hel0) as [Ld Lm].
            destruct (is_storage o) eqn:Es; [rewrite (V9 eq_refl)|rewrite (V7 eq_refl)]; cbn [s_qsize set_ref]; assumption. }
      + apply Z.leb_gt in E1. cbn [s_ref s_queue s_next s_qsize s_stored s_kept s_cur s_hung set_ref].
        set (c' := (d_id d, (d0, (n - 1, comb acc r))) :: ref_remove (d_id d) (s_ref st)).
        assert (Hcel : forall id, celled id c' = celled id (s_ref st)).
        { intros id. unfold c'. cbn. destruct (Nat.eqb (d_id d) id) eqn:Q.
          - apply Nat.eqb_eq in Q. subst. cbn. now rewrite Hc.
          - cbn. apply remove_celled; auto. apply Nat.eqb_neq in Q. congruence. }
        assert (Hcs : forall f, csum f c' = csum f (s_ref st)).
        { intros f. unfold c', csum. cbn. fold (csum f (ref_remove (d_id d) (s_ref st))). rewrite (remove_csum f _ _ _ A L). cbn. fold (csum f (s_ref st)). lia. }
        assert (Hfree : forall f, dsum (free f c') R' = dsum (free f (s_ref st)) R').
        { intros f. apply free_same. intros x _. apply Hcel. }
        fold R'. constructor; auto.
        * unfold c'. cbn. constructor; assumption.
        * intros id x m a Hi. unfold c' in Hi. destruct Hi as [Hi|Hi].
          -- inversion Hi; subst. split; lia.
          -- apply remove_in in Hi; auto. destruct Hi as [Hi Hne]. cbn in Hne.
             destruct (B _ _ _ _ Hi) as [Q1 Q2]. split; auto. unfold occZ in Q1. rewrite dsum_cons in Q1.
             unfold occf at 1 in Q1. replace (Nat.eqb (d_id d) id) with false in Q1 by (symmetry; apply Nat.eqb_neq; congruence). exact Q1.
        * intros id Hi. destruct (D id Hi) as (Q1 & Q2 & Q3). unfold occZ in Q1. rewrite dsum_cons in Q1.
          pose proof (occf_nonneg id d). pose proof (occZ_nonneg id R'). unfold occZ in *. repeat split; auto; [lia|].
          now rewrite Hcel.
        * rewrite dsum_cons in F. pose proof (oldf_nonneg (s_next st) d). pose proof (dsum_nonneg (oldf (s_next st)) R' (oldf_nonneg _)). lia.
        * intros id Hi. unfold c' in Hi. cbn in Hi. destruct Hi as [Hi|Hi]; [subst; apply G; apply celled_In; exact Hc|].
          apply G. eapply remove_keys; eauto.
        * intros Hs. rewrite (H Hs). unfold LS. rewrite dsum_cons, Hfree, Hcs. rewrite Hfd. lia.
        * intros Hs. rewrite (I Hs). unfold LS. rewrite dsum_cons, Hfree, Hcs. rewrite Hfd. lia.
        * intros HN. destruct (J HN) as (J1 & J2 & J3 & J4 & J5). rewrite dsum_cons in J1.
          pose proof (negf_nonneg d). pose proof (dsum_nonneg negf R' negf_nonneg).
          split; [lia|]. split; [|split; [exact J3|]].
          -- intros id x m a Hi. unfold c' in Hi. destruct Hi as [Hi|Hi]; [inversion Hi; subst; eauto|].
             apply remove_in in Hi; auto. destruct Hi as [Hi _]. eauto.
          -- split; [|exact J5]. intros Hs. specialize (J4 Hs). unfold LS in *. rewrite dsum_cons, Hfd in J4. rewrite Hfree, Hcs. lia.
    - apply lookup_none in L.
      assert (Hfd : forall f, free f (s_ref st) d = f d) by (intros f; unfold free; now rewrite L).
      destruct (on_done_view d r st) as (V1 & V2 & V3 & V4 & V5 & V6 & V7 & V8 & V9). rewrite V1, V2, V3, V4, V5.
      fold R'. constructor; auto.
      + intros id x m a Hi. destruct (B _ _ _ _ Hi) as [Q1 Q2]. split; auto. unfold occZ in Q1. rewrite dsum_cons in Q1.
        unfold occf at 1 in Q1. destruct (Nat.eqb (d_id d) id) eqn:Q; [|exact Q1].
        apply Nat.eqb_eq in Q. subst id. apply celled_false in L. exfalso. apply L. unfold ckeys.
        change (d_id d) with (fst (d_id d, (x, (m, a)))). now apply in_map.
      + intros id Hi. destruct (D id Hi) as (Q1 & Q2 & Q3). unfold occZ in Q1. rewrite dsum_cons in Q1.
        pose proof (occf_nonneg id d). pose proof (occZ_nonneg id R'). unfold occZ in *. repeat split; auto. lia.
      + rewrite dsum_cons in F. pose proof (oldf_nonneg (s_next st) d). pose proof (dsum_nonneg (oldf (s_next st)) R' (oldf_nonneg _)). lia.
      + intros Hs. rewrite (V7 Hs), (H Hs). unfold LS. rewrite dsum_cons. rewrite Hfd. lia.
      + intros Hs. rewrite (V8 Hs), (I Hs). unfold LS. rewrite dsum_cons. rewrite Hfd. lia.
      + intros HN. destruct (J HN) as (J1 & J2 & J3 & J4 & J5). rewrite dsum_cons in J1.
        pose proof (negf_nonneg d). pose proof (dsum_nonneg negf R' negf_nonneg).
        assert (N1' : dsum negf R' = 0) by lia.
        split; [exact N1'|]. split; [exact J2|]. split; [exact J3|]. split.
        { intros Hs. rewrite (V9 Hs).
          pose proof (LS_el_nonneg _ _ N1' J2) as HL. pose proof (qel_nonneg _ J3) as HQ. specialize (J4 Hs).
          unfold LS in *. rewrite dsum_cons, Hfd in J4. lia. }
        { assert (Hel : 0 <= d_el d) by (assert (Hz : negf d = 0) by lia; unfold negf in Hz; destruct (d_el d <? 0) eqn:Qn; [discriminate|now apply Z.ltb_ge in Qn]).
          destruct (le_cap_dec (s_qsize st) (d_el d) HN J5 Hel) as [Ld Lm].
          destruct (is_storage o) eqn:Es; [rewrite (V9 eq_refl)|rewrite (V7 eq_refl)]; assumption. }
  Qed.
End Inv.
