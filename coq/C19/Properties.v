(* C19/Properties.v — the property theorems, nothing else.  Each is closed by [exact lemma]
   and followed by Print Assumptions (captured into the evidence by the check driver). *)
From Verif Require Import Common.Base C19.Model C19.Proofs1 C19.Proofs2 C19.Proofs3 C19.Proofs4 C19.Proofs5 C19.Proofs6 C19.Proofs7 C19.Proofs8 C19.Proofs9 C19.Proofs10 C19.Proofs11 C19.Proofs12 C19.Translated C19.Checker C19.Proofs13 C19.Proofs14.
From Verif Require Generated.C19ExpHelper.
Local Open Scope Z_scope.

(* ---- receiver helper -------------------------------------------------------------------- *)

(* one receive operation of signal s with n items, whether its span records (rc) or not:
   accepted_s + refused_s move by n in total, which of the two moves follows the downstream
   result, and NO other instrument moves *)
Theorem receiver_op_balance : forall rc s n err, s <> Profiles ->
  lget (RecvAccepted s) (recv_end_op_full rc s n err) + lget (RecvRefused s) (recv_end_op_full rc s n err) = n /\
  (err = false -> lget (RecvAccepted s) (recv_end_op_full rc s n err) = n /\ lget (RecvRefused s) (recv_end_op_full rc s n err) = 0) /\
  (err = true -> lget (RecvAccepted s) (recv_end_op_full rc s n err) = 0 /\ lget (RecvRefused s) (recv_end_op_full rc s n err) = n) /\
  (forall c, c <> RecvAccepted s -> c <> RecvRefused s -> is_span_counter c = false -> lget c (recv_end_op_full rc s n err) = 0).
Proof. exact recv_end_op_full_facts. Qed.

(* THE COUNTERS DO NOT DEPEND ON TRACING: whether the span of an operation records (SDK tracer and
   sampled) or not (no-op tracer provider = internal traces disabled, or a sampler that drops the
   span) changes no instrument - for receiver histories that differ only in which spans record,
   for scraper controllers, and for the exporter's obs-report sender *)
Theorem counters_independent_of_tracing :
  (forall ops ops' c, is_span_counter c = false -> map ro_core ops = map ro_core ops' ->
     lget c (recv_run ops) = lget c (recv_run ops')) /\
  (forall rc rc' k ops c, is_span_counter c = false -> lget c (scr_run rc k ops) = lget c (scr_run rc' k ops)) /\
  (forall s n r c, is_span_counter c = false -> lget c (obs_end_op true s n r) = lget c (obs_end_op false s n r)).
Proof. exact tracing_irrelevant_l. Qed.

(* when the spans record, their item attributes add up to exactly what the counters say; when
   they do not, no attribute is recorded *)
Theorem receiver_span_attributes_match : forall ops s, s <> Profiles ->
  ((forall o, In o ops -> ro_rec o = true) ->
     lget (SpanAcc s) (recv_run ops) = lget (RecvAccepted s) (recv_run ops) /\
     lget (SpanRef s) (recv_run ops) = lget (RecvRefused s) (recv_run ops)) /\
  ((forall o, In o ops -> ro_rec o = false) ->
     lget (SpanAcc s) (recv_run ops) = 0 /\ lget (SpanRef s) (recv_run ops) = 0).
Proof. exact recv_run_span. Qed.

Theorem exporter_span_attributes_match : forall s n r, s <> Profiles ->
  lget (SpanSent s) (obs_end_op true s n r) = lget (ExpSent s) (obs_end_op true s n r) /\
  lget (SpanFailed s) (obs_end_op true s n r) = lget (ExpFailed s) (obs_end_op true s n r) /\
  lget (SpanSent s) (obs_end_op false s n r) = 0 /\ lget (SpanFailed s) (obs_end_op false s n r) = 0.
Proof. exact obs_end_op_span. Qed.

(* every history of receive operations (all signals mixed): per signal, accepted + refused is the
   number of items offered under that signal, accepted those of the operations without error,
   refused those of the operations with an error; counters of other components never move *)
Theorem receiver_balance : forall ops s, s <> Profiles ->
  lget (RecvAccepted s) (recv_run ops) + lget (RecvRefused s) (recv_run ops)
    = sumZ (map ro_n (filter (fun o => signal_eqb (ro_sig o) s) ops)) /\
  lget (RecvAccepted s) (recv_run ops)
    = sumZ (map ro_n (filter (fun o => signal_eqb (ro_sig o) s && negb (ro_err o)) ops)) /\
  lget (RecvRefused s) (recv_run ops)
    = sumZ (map ro_n (filter (fun o => signal_eqb (ro_sig o) s && ro_err o) ops)) /\
  (forall c, is_recv_counter c = false -> lget c (recv_run ops) = 0).
Proof.
  exact (fun ops s Hs => conj (recv_run_total ops s Hs) (conj (recv_run_acc ops s Hs)
           (conj (recv_run_ref ops s Hs) (fun c Hc => recv_run_foreign ops c Hc)))).
Qed.

(* ---- scraper controller ------------------------------------------------------------------- *)

(* metrics controller, every history of scrapes: accepted + refused metric points = the points
   offered to the consumer, accepted = those of the successful consume calls, and no receiver
   counter of another signal moves *)
Theorem receiver_balance_scraper_metrics : forall rc ops,
  lget (RecvAccepted Metrics) (scr_run rc KMetrics ops) + lget (RecvRefused Metrics) (scr_run rc KMetrics ops) = scr_total ops /\
  lget (RecvAccepted Metrics) (scr_run rc KMetrics ops) = scr_total_ok ops /\
  (forall s, s <> Metrics -> lget (RecvAccepted s) (scr_run rc KMetrics ops) = 0 /\ lget (RecvRefused s) (scr_run rc KMetrics ops) = 0).
Proof. exact (fun rc => scr_run_metric_points rc KMetrics). Qed.

(* the full statement ("under the counters of the operation's own signal") is FALSE of the logs
   controller (finding S5): 14 log records scraped and accepted, accepted_log_records +
   refused_log_records = 0, accepted_metric_points = 14 *)
Theorem receiver_balance_scraper_refuted : exists ops,
  lget (RecvAccepted Logs) (scr_run true KLogs ops) + lget (RecvRefused Logs) (scr_run true KLogs ops) <> scr_total ops /\
  scr_total ops = 14 /\ lget (RecvAccepted Metrics) (scr_run true KLogs ops) = 14.
Proof. exact s5_refuted_l. Qed.

(* what the logs controller does instead, for every history: the log records are counted under
   the METRIC-POINT counters, the log-record counters never move *)
Theorem scraper_logs_counted_as_metric_points : forall rc ops,
  lget (RecvAccepted Metrics) (scr_run rc KLogs ops) + lget (RecvRefused Metrics) (scr_run rc KLogs ops) = scr_total ops /\
  lget (RecvAccepted Metrics) (scr_run rc KLogs ops) = scr_total_ok ops /\
  (forall s, s <> Metrics -> lget (RecvAccepted s) (scr_run rc KLogs ops) = 0 /\ lget (RecvRefused s) (scr_run rc KLogs ops) = 0).
Proof. exact (fun rc => scr_run_metric_points rc KLogs). Qed.

(* the per-scraper counters: scraped = items of the data returned without a fatal error (NB for
   metrics the wrapper counts METRICS, not data points), errored = the failed count of partial errors *)
Theorem scraper_scraped_errored : forall rc k ops,
  lget (ScrScraped (sig_of_kind k)) (scr_run rc k ops) = sumZ (map (fun o => sumZ (map (scr_scraped_of k) (so_res o))) ops) /\
  lget (ScrErrored (sig_of_kind k)) (scr_run rc k ops) = sumZ (map (fun o => sumZ (map scr_errored_of (so_res o))) ops).
Proof. exact scr_run_scraped. Qed.

(* ---- processor helper --------------------------------------------------------------------- *)

(* every history through a helper processor of signal s: incoming = the items given, outgoing =
   the items handed to the next consumer (0 on error / skip), under otel.signal = s only, and no
   counter of another component moves *)
Theorem processor_balance : forall s ops,
  lget (ProcIn s) (proc_run s ops) = sumZ (map po_in ops) /\
  lget (ProcOut s) (proc_run s ops) = sumZ (map proc_forwarded ops) /\
  (forall t, t <> s -> lget (ProcIn t) (proc_run s ops) = 0 /\ lget (ProcOut t) (proc_run s ops) = 0) /\
  (forall c, is_proc_counter c = false -> lget c (proc_run s ops) = 0).
Proof. exact processor_balance_l. Qed.

Theorem processor_op_balance : forall s o,
  lget (ProcIn s) (proc_step s o) = po_in o /\
  lget (ProcOut s) (proc_step s o) = proc_forwarded o /\
  (po_res o = PError \/ po_res o = PSkip -> lget (ProcOut s) (proc_step s o) = 0) /\
  (forall c, c <> ProcIn s -> c <> ProcOut s -> lget c (proc_step s o) = 0).
Proof. exact proc_step_facts. Qed.

(* ---- pipeline instrumentation (service/internal/obsconsumer) -------------------------------- *)

(* every history of Consume calls through an obsconsumer wrapper of signal s (all four signals):
   success + failure = the items OFFERED, the outcome follows the downstream error, no counter of
   another signal or component moves *)
Theorem pipeline_balance : forall s ops,
  lget (PipeOk s) (pipe_run s ops) + lget (PipeFail s) (pipe_run s ops) = sumZ (map pc_n ops) /\
  lget (PipeOk s) (pipe_run s ops) = sumZ (map pc_n (filter (fun o => negb (pc_err o)) ops)) /\
  lget (PipeFail s) (pipe_run s ops) = sumZ (map pc_n (filter pc_err ops)) /\
  (forall t, t <> s -> lget (PipeOk t) (pipe_run s ops) = 0 /\ lget (PipeFail t) (pipe_run s ops) = 0) /\
  (forall c, is_pipe_counter c = false -> lget c (pipe_run s ops) = 0).
Proof. exact pipe_balance_l. Qed.

Theorem pipeline_op_balance : forall s o,
  lget (PipeOk s) (pipe_consume s o) + lget (PipeFail s) (pipe_consume s o) = pc_n o /\
  (pc_err o = false -> lget (PipeOk s) (pipe_consume s o) = pc_n o /\ lget (PipeFail s) (pipe_consume s o) = 0) /\
  (pc_err o = true -> lget (PipeOk s) (pipe_consume s o) = 0 /\ lget (PipeFail s) (pipe_consume s o) = pc_n o) /\
  (forall c, c <> PipeOk s -> c <> PipeFail s -> lget c (pipe_consume s o) = 0).
Proof. exact pipe_consume_facts. Qed.

(* what the downstream consumer leaves in the payload (moved out, dropped, appended: MutatesData)
   does not matter: the count is taken before the call *)
Theorem pipeline_counts_offered_not_left : forall s ops ops',
  map (fun o => (pc_n o, pc_err o)) ops = map (fun o => (pc_n o, pc_err o)) ops' -> pipe_run s ops = pipe_run s ops'.
Proof. exact pipe_mutation_irrelevant_l. Qed.

(* ---- exporter helper ------------------------------------------------------------------------ *)

(* Every configuration (queue none / memory / persistent, requests / items sizer, any capacity,
   wait_for_result, sending_queue::batch or legacy batcher with any non-negative sizes, retry or
   not), every script of pusher outcomes, every history of Sends (single, gated bursts, timer
   flushes), then Shutdown:
     sent + send_failed + enqueue_failed
       = offered - (items of the requests still unread in a persistent queue).
   (Since repo fix af774a6ec a wait-for-result Send that returns its export's error is no longer counted
   enqueue_failed as well: the former term for finding C19-WFR is gone.) *)
Theorem exporter_accounting_law : forall o outs ops,
  o_sig o <> Profiles -> valid_batch o -> Forall eop_nonneg ops ->
  let st := run_exporter o outs ops in
  lget (ExpSent (o_sig o)) (s_led st) + lget (ExpFailed (o_sig o)) (s_led st) + lget (ExpEnqFailed (o_sig o)) (s_led st)
  = s_offered st - qsum (s_queue st).
Proof. exact exporter_excess_l. Qed.

(* every Send through a queue (no wait_for_result) either is taken (returns nil: accepted, or a
   zero-size element dropped) and enqueue_failed does not move, or is REFUSED - queue full (1),
   element too large (2), the Encoding cannot marshal it (4, persistent queue), or with block_on_overflow the producer gave up while waiting for room and got
   its context's error back (3) - and then the request is not enqueued and enqueue_failed moves by
   exactly its items, whatever the reason *)
Theorem refused_send_is_counted : forall o st n c,
  o_sig o <> Profiles -> qc o = Some c -> is_wfr o = false ->
  let st' := offer o st n in
  let enq s := lget (ExpEnqFailed (o_sig o)) (s_led s) in
  (s_sends st' = s_sends st ++ [0] /\ enq st' = enq st) \/
  (exists k, s_sends st' = s_sends st ++ [k] /\ 1 <= k <= 4 /\
             enq st' = enq st + n /\ s_queue st' = s_queue st /\ s_qsize st' = s_qsize st /\
             (k = 3 -> q_block c = true) /\ (k = 1 -> q_block c = false)).
Proof. exact refused_send_counted_l. Qed.

(* exporter_balance, FULL, for every volatile pipeline (no queue, or a memory queue, where nothing is ever
   stored): every configuration (sizer, capacity, wait_for_result, block_on_overflow, sending_queue::batch or
   legacy batcher, retry, tracing), every script of outcomes, every history, then Shutdown - regardless of
   batching, splitting, retries, partial failures, queue-full refusals, blocked producers giving up and
   shutdown-interrupted exports.  (Before repo fix af774a6ec this needed "no wait-for-result failure" and was
   refuted otherwise: finding C19-WFR, now closed.) *)
Theorem exporter_balance_volatile : forall o outs ops,
  o_sig o <> Profiles -> valid_batch o -> Forall eop_nonneg ops ->
  is_storage o = false ->
  let st := run_exporter o outs ops in
  lget (ExpSent (o_sig o)) (s_led st) + lget (ExpFailed (o_sig o)) (s_led st) + lget (ExpEnqFailed (o_sig o)) (s_led st)
  = s_offered st.
Proof. exact exporter_balance_volatile_l. Qed.

(* exporter_balance for EVERY configuration with the single exclusion that remains (finding S2): on a
   persistent queue no request was kept by a shutdown-class OnDone *)
Theorem exporter_balance_partial : forall o outs ops,
  o_sig o <> Profiles -> valid_batch o -> Forall eop_nonneg ops ->
  let st := run_exporter o outs ops in
  (is_storage o = false ->
     lget (ExpSent (o_sig o)) (s_led st) + lget (ExpFailed (o_sig o)) (s_led st) + lget (ExpEnqFailed (o_sig o)) (s_led st) = s_offered st) /\
  (is_storage o = true -> s_kept st = 0 -> balance o st).
Proof.
  exact (fun o outs ops Hs Hb F => conj (fun Hst => exporter_balance_volatile_l o outs ops Hs Hb F Hst)
                                        (fun Hst => exporter_balance_persistent_general_l o outs ops Hs Hb F Hst)).
Qed.

(* regression: the former C19-WFR witness (batcher without a queue, 5 items, permanent error) now balances:
   send_failed = 5, enqueue_failed = 0 *)
Theorem exporter_wfr_regression :
  let st := run_exporter opts_wfr [APermanent] [OOffer 5] in
  o_sig opts_wfr <> Profiles /\ is_wfr opts_wfr = true /\
  lget (ExpSent Logs) (s_led st) = 0 /\ lget (ExpFailed Logs) (s_led st) = 5 /\ lget (ExpEnqFailed Logs) (s_led st) = 0 /\
  s_offered st = 5 /\ s_stored st = 0.
Proof. exact wfr_regression_l. Qed.

(* exporter_balance on a PERSISTENT queue (no batcher in front of it), in the property's own form
   "sent + failed + enqueue_failed = offered - stored": proved for every history in which no export
   ended with the shutdown error (and no wait-for-result failure) *)
Theorem exporter_balance_persistent_partial : forall o outs ops,
  o_sig o <> Profiles -> Forall eop_nonneg ops ->
  is_storage o = true -> batch_cfg o = None ->
  let st := run_exporter o outs ops in
  s_shut st = 0 ->
  balance o st.
Proof. exact exporter_balance_persistent_l. Qed.

(* ... and in general there the excess over offered - stored is EXACTLY the items of the exports
   that shutdown interrupted (S2) plus the wait-for-result failures *)
Theorem exporter_persistent_excess : forall o outs ops,
  o_sig o <> Profiles -> Forall eop_nonneg ops ->
  is_storage o = true -> batch_cfg o = None ->
  let st := run_exporter o outs ops in
  lget (ExpSent (o_sig o)) (s_led st) + lget (ExpFailed (o_sig o)) (s_led st) + lget (ExpEnqFailed (o_sig o)) (s_led st)
  = s_offered st - s_stored st + s_shut st.
Proof. exact exporter_persistent_excess_l. Qed.

(* PERSISTENT queue, ANY batcher configuration in front of it (none, legacy batcher with merging and
   splitting): after shutdown the items still stored are exactly those of the unread requests plus
   those of the requests a shutdown-class OnDone left in the storage (proved through the Done /
   refCountDone bookkeeping invariant, Proofs6-8) *)
Theorem exporter_stored_after_shutdown : forall o outs ops,
  o_sig o <> Profiles -> valid_batch o -> is_storage o = true ->
  let st := run_exporter o outs ops in
  s_stored st = qsum (s_queue st) + s_kept st.
Proof. exact exporter_stored_general_l. Qed.

(* hence exporter_balance in the property's own form for EVERY persistent configuration, for every
   history in which no request was kept by a shutdown-interrupted export (s_kept = 0) ... *)
Theorem exporter_balance_persistent_general_partial : forall o outs ops,
  o_sig o <> Profiles -> valid_batch o -> Forall eop_nonneg ops -> is_storage o = true ->
  let st := run_exporter o outs ops in
  s_kept st = 0 -> balance o st.
Proof. exact exporter_balance_persistent_general_l. Qed.

(* ... and in general the excess over offered - stored is EXACTLY the items of the requests kept
   by shutdown-interrupted exports (S2) plus the wait-for-result failures *)
Theorem exporter_persistent_excess_general : forall o outs ops,
  o_sig o <> Profiles -> valid_batch o -> Forall eop_nonneg ops -> is_storage o = true ->
  let st := run_exporter o outs ops in
  lget (ExpSent (o_sig o)) (s_led st) + lget (ExpFailed (o_sig o)) (s_led st) + lget (ExpEnqFailed (o_sig o)) (s_led st)
  = s_offered st - s_stored st + s_kept st.
Proof. exact exporter_persistent_general_l. Qed.

(* after shutdown nothing is left in the volatile part of the pipeline, and a memory queue is empty *)
Theorem exporter_drained_after_shutdown : forall o outs ops,
  o_sig o <> Profiles -> valid_batch o ->
  let st := run_exporter o outs ops in
  s_flushq st = [] /\ s_hung st = None /\ s_cur st = None /\ (is_storage o = false -> s_queue st = []).
Proof. exact (fun o outs ops Hs Hb => shutdown_end o Hs Hb (fold_left (step o) ops (init_est outs))). Qed.

(* the full statement is FALSE of the faithful model on a persistent queue (finding S2): a request
   of 5 items whose export is in the back-off wait at shutdown is counted send_failed = 5 and is
   still stored (5): sent + failed + enqueue_failed = 5 <> 5 - 5 *)
Theorem exporter_balance_refuted : exists o outs ops,
  o_sig o <> Profiles /\ valid_batch o /\ Forall eop_nonneg ops /\
  let st := run_exporter o outs ops in
  ~ balance o st /\ s_offered st = 5 /\ s_stored st = 5 /\ lget (ExpFailed Logs) (s_led st) = 5.
Proof. exact s2_refuted_l. Qed.

(* over a whole history (any configuration, script, operations, then Shutdown) the item attributes
   of the recorded export spans add up to exactly the sent / send_failed counters; nothing is recorded
   when spans do not record *)
Theorem exporter_span_sums_match : forall o outs ops, o_sig o <> Profiles ->
  let l := s_led (run_exporter o outs ops) in
  lget (SpanSent (o_sig o)) l = (if o_tracing o then lget (ExpSent (o_sig o)) l else 0) /\
  lget (SpanFailed (o_sig o)) l = (if o_tracing o then lget (ExpFailed (o_sig o)) l else 0).
Proof. exact (fun o outs ops H => run_exporter_span o H outs ops). Qed.

(* ---- round 5: clause audit ---------------------------------------------------------------------- *)

(* one scrape (either controller): the receiver counters move by the items offered downstream, the
   side follows the consumer's result - recorded under the METRICS counters (own signal for the
   metrics controller; S5 for the logs controller) - and no receiver counter of another signal moves *)
Theorem scrape_op_balance : forall rc k rs e,
  lget (RecvAccepted Metrics) (scrape rc k rs e) + lget (RecvRefused Metrics) (scrape rc k rs e) = scr_offered rs /\
  (e = false -> lget (RecvAccepted Metrics) (scrape rc k rs e) = scr_offered rs /\ lget (RecvRefused Metrics) (scrape rc k rs e) = 0) /\
  (e = true -> lget (RecvAccepted Metrics) (scrape rc k rs e) = 0 /\ lget (RecvRefused Metrics) (scrape rc k rs e) = scr_offered rs) /\
  (forall s, s <> Metrics -> lget (RecvAccepted s) (scrape rc k rs e) = 0 /\ lget (RecvRefused s) (scrape rc k rs e) = 0).
Proof. exact scrape_op_l. Qed.

(* "for all signals": an exporter of the PROFILES signal moves no instrument at all, for every
   configuration and history ("No metrics recorded for profiles") ... *)
Theorem exporter_profiles_uncounted : forall o outs ops c,
  o_sig o = Profiles -> is_span_counter c = false -> lget c (s_led (run_exporter o outs ops)) = 0.
Proof. exact (fun o outs ops c H Hc => run_exporter_quiet o H outs ops c Hc). Qed.

(* ... hence the balance clause is false for it as soon as anything is given (by design: no instruments exist) *)
Theorem exporter_balance_profiles_refuted : exists o outs ops,
  o_sig o = Profiles /\ Forall eop_nonneg ops /\
  let st := run_exporter o outs ops in ~ balance o st /\ s_offered st = 5 /\ s_stored st = 0.
Proof. exact profiles_refuted_l. Qed.

(* the decidable clause checker evaluated over every observed case is the Prop-level clause *)
Theorem clause_checker_sound : forall c, prop_ok c = true <-> prop_clause c.
Proof. exact prop_ok_spec. Qed.

(* ---- the model's own observations pass the clause checker ---------------------------------------- *)

(* receiver (every history), metrics scraper controller (every history of well-formed scraper results), processor
   (signals 0..2), pipeline (signals 0..3): the observation built from the MODEL's run the way the harness builds it
   from the implementation's passes prop_ok - the checker demands nothing the model does not deliver *)
Theorem model_passes_checker : forall c, wf_case c -> prop_ok (observe c) = true.
Proof. exact model_passes_checker_l. Qed.

(* the logs scraper controller does not (finding S5): on the witness the checker says false for the model too *)
Theorem model_scraper_logs_fails_checker :
  scr_ok 1 [([(14, (0, (0, 0)))], false)] (vec (scr_run true KLogs (scr_ops [([(14, (0, (0, 0)))], false)]))) = false.
Proof. exact model_scr_logs_fails. Qed.

(* exporter, clause by clause: the capacity clause of the checker for every configuration ... *)
Theorem model_exporter_capacity_clause : forall cfg, gauge_capacity (eopts_of cfg) = cfg_capacity cfg.
Proof. exact model_exp_capacity. Qed.

(* ... and "no other instrument moves" for every configuration, script and history (ledger level) *)
Theorem model_exporter_only_own_counters : forall o outs ops c,
  is_span_counter c = false -> c <> ExpSent (o_sig o) -> c <> ExpFailed (o_sig o) -> c <> ExpEnqFailed (o_sig o) ->
  lget c (s_led (run_exporter o outs ops)) = 0.
Proof. exact run_only_own. Qed.

(* ... the gauge-range clause: EVERY reading of the size gauge, in every history of non-negative item counts under
   every configuration with a non-negative capacity, lies within [0, configured capacity] (no bound above when the
   queue has none: batcher-only) - first as a statement about the model, then in the checker's own form *)
Theorem exporter_gauges_in_range : forall o outs ops,
  o_sig o <> Profiles -> le_cap o 0 -> Forall eop_nonneg ops ->
  Forall (fun g => 0 <= g /\ le_cap o g) (s_gauges (run_exporter o outs ops)).
Proof. exact (fun o outs ops Hs Hc F => gauges_in_range_l o Hs Hc outs ops F). Qed.

Theorem model_exporter_gauge_range_clause : forall cfg outs ops,
  sig_of_Z (nth 0 cfg 0) <> Profiles -> Forall eop_nonneg (map eop_of ops) ->
  (zb (nth 1 cfg 0) = true -> 0 <= nth 4 cfg 0) ->
  Forall (fun g => 0 <= g /\ (zb (nth 1 cfg 0) = true -> g <= nth 4 cfg 0)) (s_gauges (exp_run cfg outs ops)).
Proof. exact model_exp_gauges_l. Qed.

(* ---- translator obligations: hand-written pieces = what T1 generates from the current source ------ *)

Theorem to_num_items_is_translated : forall n err,
  to_num_items n err = Generated.C19ExpHelper.toNumItems n (negb err).
Proof. exact to_num_items_is_generated. Qed.

Theorem obs_end_op_is_translated : forall rc s n r, s <> Profiles ->
  lget (ExpSent s) (obs_end_op rc s n r) = fst (Generated.C19ExpHelper.toNumItems n (eres_is_ok r)) /\
  lget (ExpFailed s) (obs_end_op rc s n r) = snd (Generated.C19ExpHelper.toNumItems n (eres_is_ok r)).
Proof. exact obs_end_op_is_generated. Qed.

Theorem batch_validate_is_translated : forall ft mn mx,
  Generated.C19ExpHelper.batch_config_validate false ft mn mx = None <-> batch_validate_ok ft mn mx = true.
Proof. exact batch_validate_is_generated. Qed.

(* the hypothesis valid_batch of the exporter theorems follows from BatchConfig.Validate as the code says now *)
Theorem validated_batch_is_valid_batch : forall o,
  (forall mn mx, batch_cfg o = Some (mn, mx) ->
     exists ft, Generated.C19ExpHelper.batch_config_validate false ft mn mx = None) ->
  valid_batch o.
Proof. exact validated_batch_is_valid. Qed.

(* ---- gauges ----------------------------------------------------------------------------------- *)

(* MEMORY queue: at every operation boundary of every history (any batch / sizer / retry
   configuration) the size field - which is what the size gauge reports - equals the summed size of
   the requests accepted and not yet done: the unread ones plus every live one counted once (a
   not-split request through its single Done reference, a split one through its refCountDone
   cell); and it is 0 after shutdown *)
Theorem gauges_exact_memory : forall o outs ops,
  o_sig o <> Profiles -> valid_batch o -> is_storage o = false ->
  let st := fold_left (step o) ops (init_est outs) in
  s_qsize st = outstanding_size o st /\ s_qsize (shutdown o st) = 0.
Proof. exact mem_size_exact_l. Qed.

(* ... also at the moment a burst's gauge is read (gated Sends done, nothing exported yet) *)
Theorem gauges_exact_memory_burst : forall o outs ops ns,
  o_sig o <> Profiles -> is_storage o = false ->
  let st := fold_left (step o) ops (init_est outs) in
  let st1 := fold_left (fun s n => let s' := offer o s n in pump_closed o (S (length (s_queue s'))) s') ns st in
  s_qsize st1 = outstanding_size o st1.
Proof. exact mem_size_exact_burst_l. Qed.

(* PERSISTENT queue: the same statement is FALSE: when the read index catches up with the write
   index Read sets queueSize = 0 although the request just read (and any other in flight) is not
   done, so the gauge under-counts by the size of the requests in flight at that moment until they
   are done (onDone clamps at 0).  Witness: 3 gated Sends, size field 2, outstanding 3 *)
Theorem gauges_exact_persistent_refuted : exists o st,
  o_sig o <> Profiles /\ is_storage o = true /\ Inv6 o True st /\ s_qsize st = 2 /\ outstanding_size o st = 3.
Proof. exact persistent_size_undercounts_l. Qed.

(* ... but it never OVER-counts: for every history of non-negative item counts, at every operation
   boundary and at every burst reading, 0 <= size field <= summed size of accepted-not-done requests *)
Theorem gauges_persistent_never_overcounts : forall o outs ops ns,
  o_sig o <> Profiles -> le_cap o 0 -> Forall eop_nonneg ops -> Forall (fun n => 0 <= n) ns -> is_storage o = true ->
  let st := fold_left (step o) ops (init_est outs) in
  let st1 := fold_left (fun s n => let s' := offer o s n in pump_closed o (S (length (s_queue s'))) s') ns st in
  0 <= s_qsize st <= outstanding_size o st /\ 0 <= s_qsize st1 <= outstanding_size o st1.
Proof. exact persistent_size_bound_l. Qed.

(* the size gauge reports the queue's size field at the moment of the reading, the capacity gauge
   the configured capacity (math.MaxInt for the queue built around a batcher alone); an accepted
   request never takes the size above the capacity.  (That the size field is the sum of the sizes
   of the requests not yet done is C02's mq_size_exact; here it is tied by the correspondence run.) *)
Theorem gauges_exact_partial : forall o,
  (forall st, s_gauges (gauge st) = s_gauges st ++ [s_qsize st]) /\
  (o_queue o = true -> gauge_capacity o = o_cap o) /\
  (o_queue o = false -> o_batcher o <> None -> gauge_capacity o = 9223372036854775807) /\
  (forall st n c cap, qc o = Some c -> q_cap c = Some cap -> 0 <= n ->
     s_qsize (offer o st n) <= Z.max (s_qsize st) cap).
Proof.
  exact (fun o => conj gauge_reads_size (conj (proj1 (gauge_capacity_configured o))
           (conj (proj2 (gauge_capacity_configured o)) (accept_within_capacity o)))).
Qed.

Print Assumptions receiver_op_balance.
Print Assumptions receiver_balance.
Print Assumptions counters_independent_of_tracing.
Print Assumptions receiver_span_attributes_match.
Print Assumptions exporter_span_attributes_match.
Print Assumptions receiver_balance_scraper_metrics.
Print Assumptions receiver_balance_scraper_refuted.
Print Assumptions scraper_logs_counted_as_metric_points.
Print Assumptions scraper_scraped_errored.
Print Assumptions processor_balance.
Print Assumptions processor_op_balance.
Print Assumptions pipeline_balance.
Print Assumptions pipeline_op_balance.
Print Assumptions pipeline_counts_offered_not_left.
Print Assumptions exporter_accounting_law.
Print Assumptions refused_send_is_counted.
Print Assumptions exporter_balance_partial.
Print Assumptions exporter_balance_persistent_partial.
Print Assumptions exporter_persistent_excess.
Print Assumptions exporter_stored_after_shutdown.
Print Assumptions exporter_balance_persistent_general_partial.
Print Assumptions exporter_persistent_excess_general.
Print Assumptions exporter_drained_after_shutdown.
Print Assumptions exporter_balance_refuted.
Print Assumptions exporter_balance_volatile.
Print Assumptions exporter_wfr_regression.
Print Assumptions gauges_exact_memory.
Print Assumptions gauges_exact_memory_burst.
Print Assumptions gauges_exact_persistent_refuted.
Print Assumptions gauges_persistent_never_overcounts.
Print Assumptions exporter_span_sums_match.
Print Assumptions scrape_op_balance.
Print Assumptions exporter_profiles_uncounted.
Print Assumptions exporter_balance_profiles_refuted.
Print Assumptions clause_checker_sound.
Print Assumptions model_passes_checker.
Print Assumptions model_scraper_logs_fails_checker.
Print Assumptions model_exporter_capacity_clause.
Print Assumptions model_exporter_only_own_counters.
Print Assumptions exporter_gauges_in_range.
Print Assumptions model_exporter_gauge_range_clause.
Print Assumptions to_num_items_is_translated.
Print Assumptions obs_end_op_is_translated.
Print Assumptions batch_validate_is_translated.
Print Assumptions validated_batch_is_valid_batch.
Print Assumptions gauges_exact_partial.
