(* C20/Names.v — hand-written names used by the model's documentation and the harness' messages
   (proof-free); C20/Tie.v proves them equal to what translator T1 reads from the Go source. *)
From Coq Require Import String List.
From Verif Require Import C20.Model.
Import ListNotations.
Local Open Scope string_scope.

(* State.String() *)
Definition phase_name (p : phase) : string :=
  match p with Starting => "Starting" | Running => "Running" | Closing => "Closing" | Closed => "Closed" end.

(* the methods of *Collector, sorted: the ones Model.v models and the one it deliberately does not *)
Definition modelled_methods : list string :=
  [ "DryRun"                          (* not part of a run: validation only, no state change *)
  ; "GetState"                        (* st_phase *)
  ; "Run"                             (* run_step *)
  ; "Shutdown"                        (* LShutdownCall / LShutCheck / LShutClose *)
  ; "reloadConfiguration"             (* to_reload, PReload, PSetup false *)
  ; "setCollectorState"               (* ASetState *)
  ; "setupConfigurationComponents"    (* setup *)
  ; "shutdown"                        (* to_final, PFinal *)
  ; "shutdownService" ].              (* drain: asyncErrorChannel is received and discarded while a service shuts down *)
