(* C20/Witness.v — non-vacuity examples and concrete evaluations (vm_compute). *)
From Verif Require Import Common.Base C20.Model C20.Proofs1 C20.Proofs2 C20.Proofs3 C20.Proofs4 C20.Old C20.ObsCheck C20.Harness.

Definition o1 : oracle :=
  mkOracle (fun g => match g with
                     | 0 => mkCfg 1 1 BOk []
                     | 1 => mkCfg 2 0 BOk [1]
                     | _ => mkCfg 1 2 (BStartFails 2) []
                     end) false.

(* a run: start, reload by SIGHUP, Shutdown() twice, shutdown: ends Closed, returns nil *)
Definition h_ok : list label :=
  [LRun BrWatch; LRun BrWatch; LInjSig SigHup; LRun BrSignal; LRun BrWatch; LRun BrWatch;
   LShutdownCall; LShutdownCall; LRun BrShutdownChan; LRun BrWatch].

Example ex_ok_states :
  states_of (snd (run o1 init h_ok)) = [Starting; Running; Closing; Starting; Running; Closing; Closed].
Proof. vm_compute. reflexivity. Qed.

(* hypothesis of stopped_run_is_closed is satisfiable; the second generation's component 1 fails
   to shut down, so Run returns the accumulated shutdown error *)
Example ex_ok_done :
  st_pc (fst (run o1 init h_ok)) = PDone DStopped /\
  last_opt (snd (run o1 init h_ok)) = Some (AReturn RErrShutdown) /\ no_fatal h_ok.
Proof. split; [vm_compute; reflexivity|split; [vm_compute; reflexivity|]]. intros l H. simpl in H.
  repeat (destruct H as [<-|H]; [reflexivity|]). destruct H. Qed.

(* one_live_service is not vacuous: at the second generation's first Create something WAS live earlier,
   and at that moment nothing is *)
Example ex_overlap_point :
  exists l1 l2, snd (run o1 init h_ok) = l1 ++ ACreate 1 2 :: l2 /\ live_after [] l1 = [] /\
                In (AStart 0 0 true) l1.
Proof.
  exists (firstn 20 (snd (run o1 init h_ok))), (skipn 21 (snd (run o1 init h_ok))). vm_compute. repeat split; auto 12.
Qed.

(* a reload whose new configuration fails to start: Run returns the wrapped error, nothing is live,
   every component that was started (both generations' and the failed one's) is shut down *)
Definition o2 : oracle :=
  mkOracle (fun g => match g with
                     | 0 => mkCfg 1 1 BOk []
                     | 1 => mkCfg 2 0 BOk []
                     | _ => mkCfg 1 2 (BStartFails 2) [3]
                     end) true.

Definition h_reload_fail : list label :=
  [LRun BrWatch; LRun BrWatch; LInjSig SigHup; LRun BrSignal; LRun BrWatch; LRun BrWatch;
   LInjWatch false; LRun BrWatch; LRun BrWatch; LRun BrWatch].

Example ex_reload_fail :
  st_pc (fst (run o2 init h_reload_fail)) = PDone DReloadFail /\
  last_opt (snd (run o2 init h_reload_fail)) = Some (AReturn (RReload RErrStart)) /\
  live_after [] (snd (run o2 init h_reload_fail)) = [] /\
  count (is_start 2 1) (snd (run o2 init h_reload_fail)) = 1 /\
  count (is_shut 2 4) (snd (run o2 init h_reload_fail)) = 1.
Proof. vm_compute. auto. Qed.

(* the retiring service fails to shut down: Run returns, state stays Closing *)
Example ex_retire_fail :
  let r := run o1 init [LRun BrWatch; LRun BrWatch; LInjSig SigHup; LRun BrSignal; LRun BrWatch; LRun BrWatch;
                        LInjWatch false; LRun BrWatch; LRun BrWatch] in
  st_pc (fst r) = PDone DRetireFail /\ st_phase (fst r) = Closing /\ live_after [] (snd r) = [].
Proof. vm_compute. auto. Qed.

(* the initial configuration does not resolve *)
Example ex_init_fail :
  let r := run (mkOracle (fun _ => mkCfg 1 0 BGetFails []) false) init [LShutdownCall; LRun BrWatch; LRun BrWatch] in
  st_pc (fst r) = PDone DInitFail /\ snd r = [ACloseChan; ASetState Starting; AGet 0 false; ASetState Closed; AReturn RErrGet].
Proof. vm_compute. auto. Qed.

(* hypotheses of stop_branch_enters_shutdown / shutdown_section_completes hold on reachable states *)
Example ex_stop_branch :
  let s := fst (run o1 init [LRun BrWatch; LRun BrWatch; LCancel; LInjSig SigTerm; LInjWatch true]) in
  st_pc s = PSelect /\ stop_branch s BrCtx = true /\ stop_branch s BrSignal = true /\ stop_branch s BrWatch = true /\
  stop_branch s BrShutdownChan = false.
Proof. vm_compute. auto. Qed.

Example ex_final_unblocked :
  let s := fst (run o1 init [LRun BrWatch; LRun BrWatch; LCancel; LRun BrCtx]) in
  st_pc s = PFinal true /\ st_live s = Some 0.
Proof. vm_compute. auto. Qed.

(* documented limitation: a Shutdown() that arrives while a reload has the state at Closing is
   dropped — the collector keeps running the new configuration *)
Example ex_shutdown_dropped_during_reload :
  let r := run o1 init [LRun BrWatch; LRun BrWatch; LInjSig SigHup; LRun BrSignal; LShutdownCall; LRun BrWatch; LRun BrWatch] in
  st_pc (fst r) = PSelect /\ st_chan_closed (fst r) = false /\ forall b, enabled (fst r) (LRun b) = false.
Proof. split; [vm_compute; reflexivity|split; [vm_compute; reflexivity|intros []; vm_compute; reflexivity]]. Qed.

(* ... whereas during the Starting part of the same reload it is honoured *)
Example ex_shutdown_during_reload_starting :
  let r := run o1 init [LRun BrWatch; LRun BrWatch; LInjSig SigHup; LRun BrSignal; LRun BrWatch; LShutdownCall; LRun BrWatch;
                        LRun BrShutdownChan; LRun BrWatch] in
  st_pc (fst r) = PDone DStopped /\ st_phase (fst r) = Closed.
Proof. vm_compute. auto. Qed.

(* split Shutdown(): the check sees Running, the close lands after the run is already Closed *)
Example ex_split_shutdown :
  let r := run o1 init [LRun BrWatch; LRun BrWatch; LShutCheck; LInjSig SigInt; LRun BrSignal; LRun BrWatch; LShutClose; LShutClose] in
  st_phase (fst r) = Closed /\ count is_close_chan (snd r) = 1.
Proof. vm_compute. auto. Qed.

(* a fatal error reported while a reload is retiring the service is received and discarded by
   shutdownService: the reload completes, the collector keeps running the new configuration *)
Example ex_fatal_during_reload :
  let r := run refute_oracle init [LRun BrWatch; LRun BrWatch; LInjSig SigHup; LRun BrSignal; LInjAsync (SndFatal 0);
                                   LRun BrWatch; LRun BrWatch] in
  st_pc (fst r) = PSelect /\ st_async (fst r) = [] /\ st_live (fst r) = Some 1.
Proof. vm_compute. auto. Qed.

(* one fatal error while Run is idle in the select stops the collector *)
Example ex_single_fatal_ok :
  let r := run refute_oracle init [LRun BrWatch; LRun BrWatch; LInjAsync (SndFatal 0); LRun BrAsync; LRun BrAsync] in
  st_pc (fst r) = PDone DStopped.
Proof. vm_compute. reflexivity. Qed.

(* ---- REGRESSION: the two fixed findings on the OLD step function (Old.v) ----------------------------- *)
Example ex_deadlock_old :   (* C20-FATAL-DEADLOCK: stuck in Closing, Run never returned *)
  let r := run_old refute_oracle init refute_history in
  st_pc (fst r) = PStuck /\ st_phase (fst r) = Closing /\ count is_return (snd r) = 0.
Proof. vm_compute. auto. Qed.

Example ex_panic_old :      (* C20-WATCH-SEND-ON-CLOSED: the blocked provider goroutine panicked *)
  count is_sender_panic (snd (run_old refute_oracle init panic_history)) = 1.
Proof. vm_compute. reflexivity. Qed.

(* a change and, right behind it, a watch error while Run is busy starting up: the reload for the
   change happens, then the error is still pending and stops the collector *)
Example ex_change_then_watch_error :
  let ls := [LRun BrWatch; LInjWatch false; LInjWatch true; LRun BrWatch; LRun BrWatch; LRun BrWatch; LRun BrWatch] in
  st_watch (fst (run o2 init ls)) = [true] /\ st_pc (fst (run o2 init ls)) = PSelect /\
  st_pc (fst (run o2 init (ls ++ [LRun BrWatch; LRun BrWatch]))) = PDone DStopped.
Proof. vm_compute. auto. Qed.

(* provider level: three URIs on provider 0, an expansion-only provider 1 and an unused provider 2 *)
Example ex_provider_level :
  expand (mkTopo 3 2) [AClose 0; AGet 1 true; AProvShutdown true] =
  [PClose 0 0; PClose 0 1; PClose 0 2; PClose 0 3;
   PRetrieve 1 0 true; PRetrieve 1 1 true; PRetrieve 1 2 true; PRetrieve 1 3 true;
   PShutdown 0 true; PShutdown 1 true; PShutdown 2 true].
Proof. vm_compute. reflexivity. Qed.

(* at most one notification pending at every prefix of h_ok (the old model needed that hypothesis) *)
Example ex_partial_hyp :   (* every prefix of h_ok is some firstn k h_ok *)
  forallb (fun k => Nat.leb (length (st_watch (fst (run o1 init (firstn k h_ok))))) 1) (seq 0 (S (length h_ok))) = true.
Proof. vm_compute. reflexivity. Qed.

Example ex_measure :
  let s := fst (run o1 init [LRun BrWatch; LRun BrWatch; LInjSig SigHup; LInjSig SigHup; LShutdownCall]) in
  mu s = 10 /\ run_enabled o1 s [BrSignal; BrWatch; BrWatch; BrShutdownChan; BrWatch] = true /\
  st_pc (fst (run o1 s (map LRun [BrSignal; BrWatch; BrWatch; BrShutdownChan; BrWatch]))) = PDone DStopped.
Proof. vm_compute. auto. Qed.

(* no_bringup_after_failed_shutdown / failed_run_returns_the_error are about something: the retire
   failure of ex_retire_fail contains a failed Shutdown and returns RErrRetire *)
Example ex_failed_shutdown_present :
  let r := run o1 init [LRun BrWatch; LRun BrWatch; LInjSig SigHup; LRun BrSignal; LRun BrWatch; LRun BrWatch;
                        LInjWatch false; LRun BrWatch; LRun BrWatch] in
  existsb is_failed_shut (snd r) = true /\ last_opt (snd r) = Some (AReturn RErrRetire).
Proof. vm_compute. auto. Qed.

(* the link is not vacuous: the observed form of a model run is a real log (40 entries for h_ok over a
   topology with 2 URIs and an expansion-only provider), it passes the checker, and the checker
   rejects it as soon as one shutdown entry is removed *)
Example ex_link :
  let lg := wire_log (mkTopo 2 1) Starting (snd (run o1 init h_ok)) in
  length lg = 40 /\ obs_verdict 2 lg (ret_of (snd (run o1 init h_ok))) = 0 /\
  obs_verdict 2 (filter (fun e => negb (Nat.eqb (fst e) 82 && Nat.eqb (fst (snd e)) 0 && Nat.eqb (snd (snd e)) 3)) lg)
              (ret_of (snd (run o1 init h_ok))) <> 0.
Proof. vm_compute. repeat split; discriminate. Qed.
