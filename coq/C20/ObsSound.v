(* C20/ObsSound.v — each boolean of ObsCheck.v is equivalent to the Prop-level clause it decides. *)
From Verif Require Import Common.Base C20.Model C20.Proofs1 C20.ObsCheck.

(* clause 1: one live service at a time *)
Definition one_live_clause (acc : list (nat * nat)) (log : list action) : Prop :=
  forall l1 a l2 g, log = l1 ++ a :: l2 -> bringup_gen a = Some g ->
  forall p, In p (live_after acc l1) -> fst p = g.

Lemma no_overlap_iff log : forall acc, no_overlap acc log = true <-> one_live_clause acc log.
Proof.
  induction log as [|x r IH]; intros acc; unfold one_live_clause in *.
  - split; [intros _ l1 a l2 g E; destruct l1; discriminate|reflexivity].
  - cbn [no_overlap]. rewrite andb_true_iff, IH. split.
    + intros [H1 H2] l1 a l2 g E B p Hp. destruct l1 as [|y l1]; cbn in E; inversion E; subst.
      * cbn in Hp. destruct a; cbn in B; inversion B; subst;
          rewrite forallb_forall in H1; apply Nat.eqb_eq; auto.
      * rewrite live_after_cons in Hp. eapply H2; eauto.
    + intros H. split.
      * destruct x; auto; rewrite forallb_forall; intros p Hp; apply Nat.eqb_eq;
          eapply (H [] _ r); eauto; reflexivity.
      * intros l1 a l2 g E B p Hp. apply (H (x :: l1) a l2 g); [cbn; now rewrite E|auto|].
        now rewrite live_after_cons.
Qed.

(* clause 2 *)
Lemma count_pos_ex f (l : list action) : count f l >= 1 -> exists a, In a l /\ f a = true.
Proof.
  induction l as [|x l IH]; [unfold count; simpl; lia|].
  rewrite count_cons. destruct (f x) eqn:E; [intros _; exists x; simpl; auto|].
  intros H. destruct (IH H) as [a [Ha Fa]]. exists a; simpl; auto.
Qed.

Lemma shut_once_iff log : shut_once_b log = true <-> forall g c, count (is_shut g c) log <= 1.
Proof.
  unfold shut_once_b. rewrite forallb_forall. split.
  - intros H g c. destruct (count (is_shut g c) log) as [|n] eqn:E; [lia|].
    destruct (count_pos_ex (is_shut g c) log ltac:(lia)) as [a [Ha Fa]].
    specialize (H a Ha). destruct a; simpl in Fa; try discriminate.
    apply andb_true_iff in Fa as [F1 F2]. apply Nat.eqb_eq in F1, F2. subst.
    apply Nat.leb_le in H. lia.
  - intros H a _. destruct a; auto. apply Nat.leb_le. apply H.
Qed.

(* clause 3 *)
Definition after_failed_clause (log : list action) : Prop :=
  forall l1 g c l2, log = l1 ++ AShutdown g c false :: l2 -> forallb not_bringup l2 = true.

Lemma after_failed_iff log : after_failed_shutdown_b log = true <-> after_failed_clause log.
Proof.
  unfold after_failed_clause. induction log as [|x r IH].
  - split; [intros _ l1 g c l2 E; destruct l1; discriminate|reflexivity].
  - assert (forall l1 g c l2, r = l1 ++ AShutdown g c false :: l2 -> forallb not_bringup r = true -> forallb not_bringup l2 = true) as SUF.
    { intros l1 g c l2 -> H. rewrite forallb_app in H. apply andb_true_iff in H as [_ H]. simpl in H. exact H. }
    destruct x; try (cbn [after_failed_shutdown_b]; rewrite IH; split;
      [intros H l1 gg cc l2 E; destruct l1 as [|y l1]; cbn in E; inversion E; subst; eapply H; eauto
      |intros H l1 gg cc l2 E; eapply (H (_ :: l1) gg cc l2); cbn; now rewrite E]).
    match goal with |- context [after_failed_shutdown_b (AShutdown _ _ ?b :: _)] => destruct b end.
    + cbn [after_failed_shutdown_b]. rewrite IH. split.
      * intros H l1 g0 c0 l2 E. destruct l1 as [|y l1]; cbn in E; inversion E; subst. eapply H; eauto.
      * intros H l1 g0 c0 l2 E. eapply (H (_ :: l1) g0 c0 l2). cbn. now rewrite E.
    + cbn [after_failed_shutdown_b]. split.
      * intros H l1 g0 c0 l2 E. destruct l1 as [|y l1]; cbn in E; inversion E; subst; auto.
        eapply SUF; eauto.
      * intros H. apply (H [] g c r). reflexivity.
Qed.

(* clause 5 *)
Lemma nothing_live_iff log : nothing_live_b log = true <-> live_after [] log = [].
Proof. unfold nothing_live_b. destruct (live_after [] log); split; congruence. Qed.

(* all together: verdict 0 says exactly that every clause holds *)
Theorem obs_verdict_sound nprov lg ret :
  obs_verdict nprov lg ret = 0 <->
  let log := map decode lg in let pl := flat_map decode_p lg in
  one_live_clause [] log /\
  (forall g c, count (is_shut g c) log <= 1) /\
  after_failed_clause log /\
  prov_once_b pl = true /\
  (ret_class ret <> 0 -> live_after [] log = []) /\
  (is_stopped ret = true -> stopped_exact_b nprov log pl = true).
Proof.
  cbv zeta. rewrite <- no_overlap_iff, <- shut_once_iff, <- after_failed_iff, <- nothing_live_iff.
  unfold obs_verdict.
  destruct (no_overlap [] (map decode lg)); simpl; [|split; [discriminate|intros [H _]; discriminate]].
  destruct (shut_once_b (map decode lg)); simpl; [|split; [discriminate|intros [_ [H _]]; discriminate]].
  destruct (after_failed_shutdown_b (map decode lg)); simpl; [|split; [discriminate|intros [_ [_ [H _]]]; discriminate]].
  destruct (prov_once_b (flat_map decode_p lg)); simpl; [|split; [discriminate|intros [_ [_ [_ [H _]]]]; discriminate]].
  destruct (Nat.eqb_spec (ret_class ret) 0) as [E|E]; simpl.
  - destruct (is_stopped ret) eqn:ES; simpl.
    + destruct (stopped_exact_b nprov _ _); simpl; split; try discriminate; intros; repeat split; auto; try congruence.
      destruct H as [_ [_ [_ [_ [_ H]]]]]. specialize (H eq_refl). discriminate.
    + split; intros; repeat split; auto; try congruence.
  - destruct (nothing_live_b (map decode lg)); simpl.
    + destruct (is_stopped ret) eqn:ES; simpl.
      * destruct (stopped_exact_b nprov _ _); simpl; split; try discriminate; intros; repeat split; auto.
        destruct H as [_ [_ [_ [_ [_ H]]]]]. specialize (H eq_refl). discriminate.
      * split; intros; repeat split; auto. discriminate.
    + split; [discriminate|]. intros [_ [_ [_ [_ [H _]]]]]. specialize (H E). discriminate.
Qed.
