(* C20/ObsLink.v — the clause checker linked back to the model: what the MODEL produces, observed
   the way the harness observes the implementation (Harness.wire_log, ret_of), always passes
   ObsCheck.obs_verdict.  So the checker never demands more than the model delivers (no false
   alarm on a run that agrees with the model), and its verdicts and the theorems of Properties.v are
   statements about the same thing. *)
From Verif Require Import Common.Base C20.Model C20.ObsCheck C20.Harness C20.Proofs1 C20.Proofs2 C20.Proofs3 C20.Proofs4 C20.ObsSound.

(* ---- the non-neutral (create / start / shutdown) subsequence --------------------------------------- *)
Definition nn (a : action) : bool := negb (neutral a).
Definition core (l : list action) : list action := filter nn l.

Lemma core_app l1 l2 : core (l1 ++ l2) = core l1 ++ core l2.
Proof. apply filter_app. Qed.

Lemma core_map_neutral {A} (h : A -> action) l : (forall x, neutral (h x) = true) -> core (map h l) = [].
Proof. intros H. induction l as [|x l IH]; auto. simpl. unfold nn at 1. now rewrite H. Qed.

(* decoding the wire form of the model's log gives back its core *)
Lemma decode_wire_core t acts : forall p, core (map decode (wire_log t p acts)) = core acts.
Proof.
  induction acts as [|a acts IH]; intros p; [reflexivity|].
  destruct a; cbn [wire_log]; rewrite ?map_app, ?core_app, ?map_map, ?IH;
    try (cbn [map core filter]; rewrite ?IH; destruct p; reflexivity).
  - (* AClose *) rewrite core_map_neutral by (intros; destruct p; reflexivity). reflexivity.
  - (* AGet *) destruct ok; cbn [wire_log]; rewrite ?map_app, ?core_app, ?map_map, ?IH.
    + rewrite core_map_neutral by (intros; destruct p; reflexivity). reflexivity.
    + cbn [map core filter]. rewrite IH. destruct p; reflexivity.
  - (* AStart *) destruct ok; cbn [wire_log map core filter]; rewrite IH; destruct p; reflexivity.
  - (* AShutdown *) destruct ok; cbn [wire_log map core filter]; rewrite IH; destruct p; reflexivity.
  - (* AProvShutdown *) destruct ctx_live; cbn [wire_log]; rewrite ?map_app, ?core_app, ?map_map, ?IH;
      rewrite core_map_neutral by (intros; destruct p; reflexivity); reflexivity.
Qed.

(* ---- the clauses only look at the core ----------------------------------------------------------------- *)
Lemma neutral_live_step acc a : neutral a = true -> live_step acc a = acc.
Proof. destruct a; simpl; try discriminate; auto. Qed.

Lemma no_overlap_core l : forall acc, no_overlap acc l = no_overlap acc (core l).
Proof.
  induction l as [|a l IH]; intros acc; auto. cbn [core filter]. unfold nn at 1.
  destruct (neutral a) eqn:N; cbn [negb].
  - cbn [no_overlap]. rewrite (neutral_live_step acc a N). rewrite IH.
    destruct a; simpl in N; try discriminate; reflexivity.
  - cbn [no_overlap]. now rewrite IH.
Qed.

Lemma live_after_core l : forall acc, live_after acc l = live_after acc (core l).
Proof.
  induction l as [|a l IH]; intros acc; auto. cbn [core filter]. unfold nn at 1.
  destruct (neutral a) eqn:N; cbn [negb]; rewrite !live_after_cons.
  - rewrite (neutral_live_step acc a N). apply IH.
  - apply IH.
Qed.

Lemma count_core f l : (forall a, neutral a = true -> f a = false) -> count f l = count f (core l).
Proof.
  intros H. induction l as [|a l IH]; auto. cbn [core filter]. unfold nn at 1.
  destruct (neutral a) eqn:N; cbn [negb]; rewrite !count_cons, IH; [now rewrite (H a N)|reflexivity].
Qed.

Lemma shut_neutral g c a : neutral a = true -> is_shut g c a = false.
Proof. destruct a; simpl; try discriminate; auto. Qed.
Lemma start_neutral g c a : neutral a = true -> is_start g c a = false.
Proof. destruct a; simpl; try discriminate; auto. Qed.

Lemma not_bringup_core l : forallb not_bringup l = forallb not_bringup (core l).
Proof.
  induction l as [|a l IH]; auto. cbn [core filter forallb]. unfold nn at 1.
  destruct (neutral a) eqn:N; cbn [negb forallb]; rewrite IH; auto.
  destruct a; simpl in N; try discriminate; reflexivity.
Qed.

Lemma after_failed_core l : after_failed_shutdown_b l = after_failed_shutdown_b (core l).
Proof.
  induction l as [|a l IH]; auto. cbn [core filter]. unfold nn at 1.
  destruct (neutral a) eqn:N; cbn [negb].
  - destruct a; simpl in N; try discriminate; cbn [after_failed_shutdown_b]; exact IH.
  - destruct a; simpl in N; try discriminate; cbn [after_failed_shutdown_b]; try exact IH.
    destruct ok; [exact IH|apply not_bringup_core].
Qed.

Lemma in_core a l : In a (core l) -> In a l.
Proof. unfold core. intros H. apply filter_In in H. tauto. Qed.

Lemma in_core_nn a l : In a l -> neutral a = false -> In a (core l).
Proof. intros H N. apply filter_In. split; auto. unfold nn. now rewrite N. Qed.

(* ---- providers ---------------------------------------------------------------------------------------------- *)
Lemma pcount_decode_p_none q (h : nat -> nat * (nat * nat)) l :
  (forall x, decode_p (h x) = []) -> pcount (is_pshut q) (flat_map decode_p (map h l)) = 0.
Proof. intros H. induction l as [|x l IH]; auto. cbn [map flat_map]. rewrite H. exact IH. Qed.

Lemma wire_provider_count t q acts : forall p,
  pcount (is_pshut q) (flat_map decode_p (wire_log t p acts)) = if q <? 1 + n_aux t then count is_prov_shut acts else 0.
Proof.
  remember (1 + n_aux t) as n eqn:En. remember (q <? n) as d eqn:Ed.
  assert (forall (b : bool) (p : phase), pcount (is_pshut q) (flat_map decode_p (map (fun x => (10 * (if b then 10 else 11) + phase_code p, (x, 0))) (providers t)))
                       = if d then 1 else 0) as PS.
  { intros b p. unfold providers. rewrite <- En, Ed, <- (cnt_seq0 q n).
    induction (seq 0 n) as [|x l IHl]; auto. cbn [map flat_map]. rewrite pcount_app, IHl, cnt_cons.
    destruct b; destruct p; cbn; unfold pcount; cbn; destruct (Nat.eqb q x); reflexivity. }
  clear Ed.
  assert (forall e l, pcount (is_pshut q) (flat_map decode_p (e :: l)) =
                      pcount (is_pshut q) (decode_p e) + pcount (is_pshut q) (flat_map decode_p l)) as CE
    by (intros; cbn [flat_map]; apply pcount_app).
  induction acts as [|a acts IH]; intros p.
  - cbn. destruct d; reflexivity.
  - rewrite count_cons.
    destruct a; cbn [wire_log is_prov_shut].
    all: try (rewrite IH; destruct d; reflexivity).
    all: try (rewrite CE, IH; destruct p; destruct d; reflexivity).
    + rewrite flat_map_app, pcount_app, IH, pcount_decode_p_none by (intros; destruct p; reflexivity). destruct d; reflexivity.
    + destruct ok; cbn [wire_log].
      * rewrite flat_map_app, pcount_app, IH, pcount_decode_p_none by (intros; destruct p; reflexivity). destruct d; reflexivity.
      * rewrite CE, IH; destruct p; destruct d; reflexivity.
    + destruct ok; cbn [wire_log]; rewrite CE, IH; destruct p; destruct d; reflexivity.
    + destruct ok; cbn [wire_log]; rewrite CE, IH; destruct p; destruct d; reflexivity.
    + destruct ctx_live; cbn [wire_log]; rewrite flat_map_app, pcount_app, IH.
      * rewrite (PS true). destruct d; lia.
      * rewrite (PS false). destruct d; lia.
Qed.

(* ---- Run's result as the harness reports it ------------------------------------------------------------ *)
Lemma ret_of_none acts : count is_return acts = 0 -> ret_of acts = 0.
Proof.
  induction acts as [|a acts IH]; auto. rewrite count_cons. destruct a; cbn [is_return ret_of]; intros H; try (apply IH; lia). lia.
Qed.

Lemma ret_of_first l1 e l2 : count is_return l1 = 0 -> ret_of (l1 ++ AReturn e :: l2) = result_code e.
Proof.
  induction l1 as [|a l1 IH]; [reflexivity|]. rewrite count_cons.
  destruct a; cbn [is_return app ret_of]; intros H; try (apply IH; lia). lia.
Qed.

Lemma fail_result_not_stopped e : fail_result e = true -> is_stopped (result_code e) = false.
Proof. destruct e; try discriminate; try reflexivity. destruct e; try discriminate; reflexivity. Qed.

Lemma count_pos_in f a (l : list action) : In a l -> f a = true -> count f l >= 1.
Proof.
  induction l as [|x l IH]; [intros []|]. intros [->|H] F; rewrite count_cons.
  - rewrite F. lia.
  - specialize (IH H F). lia.
Qed.

(* ---- THE LINK ------------------------------------------------------------------------------------------------- *)
Theorem model_passes_clause_checker_l t o ls :
  let acts := snd (run o init ls) in
  obs_verdict (1 + n_aux t) (wire_log t Starting acts) (ret_of acts + 100 * count is_sender_panic acts) = 0.
Proof.
  cbv zeta. destruct (run o init ls) as [s acts] eqn:E. cbn [snd].
  destruct (run_inv o ls s acts E) as [C [L N]].
  assert (count is_sender_panic acts = 0) as NP by (pose proof (no_sender_panic_l o ls init) as X; rewrite E in X; exact X).
  rewrite NP, Nat.mul_0_r, Nat.add_0_r.
  set (lg := wire_log t Starting acts). set (log := map decode lg).
  assert (core log = core acts) as CO by apply decode_wire_core.
  assert (forall g c, count (is_shut g c) log = count (is_shut g c) acts) as CS.
  { intros g c. rewrite (count_core _ log), (count_core _ acts), CO by apply shut_neutral. reflexivity. }
  assert (live_after [] log = live_after [] acts) as LA by (rewrite (live_after_core log), (live_after_core acts), CO; reflexivity).
  assert (forall q, pcount (is_pshut q) (flat_map decode_p lg) = if q <? 1 + n_aux t then count is_prov_shut acts else 0) as PC
    by (intros q; apply wire_provider_count).
  assert (count is_prov_shut acts <= 1) as P1 by (pose proof (provider_once_l o ls) as X; rewrite E in X; exact X).
  apply obs_verdict_sound. cbv zeta. fold lg. fold log.
  split; [|split; [|split; [|split; [|split]]]].
  - (* one live service *)
    apply no_overlap_iff. rewrite (no_overlap_core log), CO, <- (no_overlap_core acts). apply (L_overlap _ _ _ L).
  - (* shutdown at most once *)
    intros g c. rewrite CS. apply (N_shut_le _ _ _ N).
  - (* nothing after a failed shutdown *)
    apply after_failed_iff. rewrite (after_failed_core log), CO, <- (after_failed_core acts).
    pose proof (proj1 (failed_shutdown_global o ls)) as X. rewrite E in X. exact X.
  - (* providers at most once *)
    unfold prov_once_b. apply forallb_forall. intros e _. destruct e; auto. apply Nat.leb_le. rewrite PC.
    destruct (p <? 1 + n_aux t); lia.
  - (* nothing live once Run has returned *)
    intros RC. rewrite LA.
    destruct (count is_return acts) as [|n] eqn:ER.
    + exfalso. apply RC. rewrite (ret_of_none acts ER). reflexivity.
    + pose proof (C_ret _ _ C) as R. rewrite ER in R. destruct (st_pc s) eqn:EP; try discriminate.
      pose proof (finished_run_l o ls s acts k E EP) as [_ [F _]]. exact F.
  - (* a stopped run: everything exactly once *)
    intros ST.
    destruct (count is_return acts) as [|n] eqn:ER; [rewrite (ret_of_none acts ER) in ST; discriminate|].
    pose proof (C_ret _ _ C) as R. rewrite ER in R. destruct (st_pc s) eqn:EP; try discriminate.
    destruct k.
    1-3: exfalso;
      match type of EP with _ = PDone ?kk =>
        pose proof (failed_run_returns_error_l o ls kk) as FR; rewrite E in FR; cbn [fst snd] in FR;
        destruct (FR EP ltac:(discriminate)) as [l1 [e [l2 [EA [FE Z]]]]] end;
      rewrite EA, ret_of_first in ST by (rewrite count_app in Z; lia);
      rewrite (fail_result_not_stopped e FE) in ST; discriminate.
    destruct (stopped_run_l o ls s acts E EP) as [_ [PS [_ [_ [_ EX]]]]].
    unfold stopped_exact_b. apply andb_true_iff. split.
    + apply forallb_forall. intros a Ha. destruct a; auto. apply Nat.eqb_eq. rewrite CS. apply EX.
      assert (In (AStart g c ok) acts) as IA.
      { apply in_core. rewrite <- CO. apply in_core_nn; auto. }
      apply (count_pos_in (is_start g c) _ _ IA). simpl. now rewrite !Nat.eqb_refl.
    + apply forallb_forall. intros q Hq. apply in_seq in Hq. apply Nat.eqb_eq. rewrite PC, PS.
      destruct (Nat.ltb_spec q (1 + n_aux t)); lia.
Qed.
