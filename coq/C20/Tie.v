(* C20/Tie.v — OBLIGATIONS tying hand-written definitions of the model to what translator T1
   (tools/go2coq) reads from the CURRENT Go source (coq/Generated/C20State.v, regenerated on every
   run).  An edit of otelcol/collector.go that renumbers / adds / renames a State, changes
   State.String, makes GetState return something else than the stored word, or adds / removes a
   method of *Collector breaks a named obligation here. *)
From Coq Require Import String.
From Verif Require Import Common.Base Generated.C20State Generated.C20Fatal C20.Model C20.Names.

Definition phase_Z (p : phase) : Z :=
  match p with Starting => StateStarting | Running => StateRunning | Closing => StateClosing | Closed => StateClosed end.

(* the model's numeric codes ARE the Go constants, and there is no other State constant *)
Theorem state_codes_are_the_go_constants :
  (forall p, Z.of_nat (phase_code p) = phase_Z p) /\
  map (fun p => Z.of_nat (phase_code p)) [Starting; Running; Closing; Closed] = all_state_consts.
Proof. split; [intros []; reflexivity|reflexivity]. Qed.

(* State.String on every state of the model; any other value prints UNKNOWN *)
Theorem state_names_are_the_go_strings :
  (forall p, state_string (Z.of_nat (phase_code p)) = phase_name p) /\
  (forall z, ~ In z all_state_consts -> state_string z = "UNKNOWN"%string).
Proof.
  split; [intros []; reflexivity|].
  intros z H. unfold state_string.
  destruct (Z.eqb_spec z 0) as [->|]; [exfalso; apply H; simpl; auto|].
  destruct (Z.eqb_spec z 1) as [->|]; [exfalso; apply H; simpl; auto|].
  destruct (Z.eqb_spec z 2) as [->|]; [exfalso; apply H; simpl; auto|].
  destruct (Z.eqb_spec z 3) as [->|]; [exfalso; apply H; simpl; auto 6|]. reflexivity.
Qed.

(* GetState() returns the stored state word unchanged: sampling GetState() is reading st_phase *)
Theorem observed_state_is_the_stored_word : forall z, get_state z = z.
Proof. reflexivity. Qed.

(* the method set of *Collector is exactly the one the model was written after *)
Theorem collector_api_is_the_modelled_one : collector_methods = modelled_methods.
Proof. reflexivity. Qed.

(* every component status event that can be built (status, carries an error value?), in the order of
   the dumped table *)
Definition all_event_points : list (Z * bool) :=
  [ (0, false); (1, false); (2, false); (3, false); (3, true); (4, false); (4, true);
    (5, false); (5, true); (6, false); (7, false) ]%Z.

(* Host.NotifyComponentStatusChange, RUN on every point by the check (Generated/C20Fatal.v), forwards
   exactly what the model says: StatusFatalError, with or without an error value, and nothing else;
   the points are all statuses the Go source has now. *)
Theorem fatal_forwarding_is_the_go_table :
  fatal_forward_table = map (fun p => (p, forwards_async (fst p) (snd p))) all_event_points /\
  (forall s e, forwards_async s e = Z.eqb s StatusFatalError) /\
  all_status_consts = [0; 1; 2; 3; 4; 5; 6; 7]%Z.
Proof. split; [reflexivity|split; [reflexivity|reflexivity]]. Qed.
