(* C20/Model.v — executable model of the collector run loop.  No proofs in this file.

   Code modelled (opentelemetry-collector, pinned tree):
     otelcol/collector.go     NewCollector (initial state), Run, setupConfigurationComponents,
                              reloadConfiguration, shutdown, Shutdown, setCollectorState/GetState
     otelcol/configprovider.go, confmap/resolver.go
                              Get = Resolve (closeIfNeeded of the previous retrieval, then Retrieve),
                              Watch (the 1-slot watcher channel), Shutdown (closeIfNeeded, providers)
     service/service.go       New (graph components are created first, extensions after them),
                              Start (extensions, then pipelines), Shutdown (NotifyPipelineNotReady,
                              pipelines, extensions)
     service/internal/graph   StartAll (stops at the first failing Start), ShutdownAll (every
                              component, errors accumulated), Host.NotifyComponentStatusChange (a fatal
                              status is SENT on the unbuffered asyncErrorChannel from inside the status
                              reporter's critical section)
     service/extensions       Start / Shutdown order

   The run is a labelled transition system.  One label is one atomic section:
     - the environment puts an event into one of the channels the select loop reads,
     - some goroutine calls Shutdown() (atomic, or split in its two halves check / close),
     - the goroutine that executes Run does its next section ([LRun]): the sections are cut
       where the collector state changes, because Shutdown() reads that state.
   At the select the label names the ready branch that is taken (Go chooses at random among the
   ready ones; theorems quantify over all label sequences, hence over all choices).

   What each generation of the configuration does when it is brought up / shut down is an ORACLE
   ([gencfg], a function of the generation number): the theorems quantify over all oracles, the
   correspondence run realises them with a scripted provider and instrumented components. *)
From Verif Require Import Common.Base.

(* ---- collector state (otelcol.State) ------------------------------------------------------ *)
Inductive phase := Starting | Running | Closing | Closed.

Definition phase_eqb (a b : phase) : bool :=
  match a, b with
  | Starting, Starting | Running, Running | Closing, Closing | Closed, Closed => true
  | _, _ => false
  end.

(* the numeric value of otelcol.State (what GetState() returns); C20/Tie.v proves these equal to the
   constants translator T1 reads from the current Go source *)
Definition phase_code (p : phase) : nat :=
  match p with Starting => 0 | Running => 1 | Closing => 2 | Closed => 3 end.

Inductive sig := SigHup | SigTerm | SigInt.

(* ---- oracle: what generation g of the configuration does ------------------------------------
   A service has n_ext extensions and one traces pipeline receiver -> n_proc processors -> exporter.
   Components are numbered in START order:
     0 .. n_ext-1                      extensions (each depends on the previous one)
     n_ext                             exporter
     n_ext+1 .. n_ext+n_proc           processors, last of the chain first
     n_ext+n_proc+1                    receiver                                                    *)
Inductive bringup :=
| BOk
| BGetFails                 (* the provider's Retrieve fails: "failed to get config" *)
| BInvalid                  (* the configuration resolves but does not validate *)
| BBuildFails (c : nat)     (* the factory of component c returns an error: service.New fails *)
| BStartFails (c : nat).    (* component c's Start returns an error: service.Start fails *)

Record gencfg := mkCfg {
  n_ext : nat;
  n_proc : nat;
  outcome : bringup;
  shut_fail : list nat        (* components whose Shutdown returns an error *)
}.

Record oracle := mkOracle {
  cfg_of : nat -> gencfg;
  prov_shut_fails : bool      (* the provider's Shutdown returns an error *)
}.

Definition ncomp (c : gencfg) : nat := n_ext c + n_proc c + 2.
Definition start_order (c : gencfg) : list nat := seq 0 (ncomp c).
(* Graph.ShutdownAll walks the topological order (receiver first), Extensions.Shutdown walks
   extensionIDs backwards, pipelines before extensions: the exact reverse of the start order. *)
Definition shut_order (c : gencfg) : list nat := rev (seq 0 (ncomp c)).
(* service.New: initGraph (reverse topological order, as StartAll) before initExtensions. *)
Definition create_order (c : gencfg) : list nat := seq (n_ext c) (n_proc c + 2) ++ seq 0 (n_ext c).

(* ---- results of Run (error classes) -------------------------------------------------------- *)
Inductive result :=
| RNil
| RErrGet | RErrInvalid | RErrBuild | RErrStart      (* setupConfigurationComponents *)
| RErrRetire                                          (* "failed to shutdown the retiring config" *)
| RErrShutdown                                        (* errors accumulated by shutdown() *)
| RReload (r : result).                               (* "failed to setup configuration components: r" *)

(* the numeric class of Run's result as the harness reports it (error-message classes; +10 when
   wrapped by "failed to setup configuration components") *)
Fixpoint result_code (r : result) : nat :=
  match r with
  | RNil => 1 | RErrGet => 2 | RErrInvalid => 3 | RErrBuild => 4 | RErrStart => 5
  | RErrRetire => 6 | RErrShutdown => 7 | RReload r' => 10 + result_code r'
  end.

(* the results with which a run that was NOT stopped returns *)
Definition fail_result (r : result) : bool :=
  match r with
  | RErrGet | RErrInvalid | RErrBuild | RErrStart | RErrRetire => true
  | RReload (RErrGet | RErrInvalid | RErrBuild | RErrStart) => true
  | _ => false
  end.

(* ---- actions: what the run does to the outside world, in order ------------------------------ *)
Inductive action :=
| ASetState (p : phase)
| AClose (g : nat)                       (* Retrieved.Close of generation g (resolver.closeIfNeeded) *)
| AGet (g : nat) (ok : bool)             (* provider.Retrieve for generation g *)
| ACreate (g c : nat)                    (* factory created component c of generation g *)
| AStart (g c : nat) (ok : bool)         (* component Start returned (ok = nil error) *)
| ANotReady (g : nat)                    (* service.Shutdown began: extensions told "pipeline not ready" *)
| AShutdown (g c : nat) (ok : bool)      (* component Shutdown returned *)
| AProvShutdown (ctx_live : bool)        (* provider.Shutdown; was the context it got still live? *)
| ACloseChan                             (* close(shutdownChan) succeeded *)
| ASenderPanic                           (* pre-repair only (Old.v): a provider goroutine blocked sending a notification panicked; never produced by run_step *)
| ARecovered                             (* close of the already closed channel panicked; Shutdown()'s deferred recover swallowed it *)
| AReturn (r : result).

(* ---- program counter of the goroutine executing Run ---------------------------------------- *)
Inductive done_kind :=
| DInitFail       (* the initial configuration could not be brought up *)
| DReloadFail     (* a reloaded configuration could not be brought up *)
| DRetireFail     (* the retiring service failed to shut down during a reload *)
| DStopped.       (* left the loop through a stop branch and finished shutdown() *)

Inductive pc :=
| PInit                       (* Run not called yet *)
| PSetup (initial : bool)     (* inside setupConfigurationComponents, state Starting *)
| PSelect                     (* blocked in / about to enter the select, state Running *)
| PReload                     (* reloadConfiguration: state Closing, retiring service not yet shut down *)
| PFinal (bg : bool)          (* shutdown(): state Closing; bg = called with context.Background() *)
| PStuck                      (* pre-repair only (Old.v): blocked for ever on the status reporter's mutex; never reached by run_step *)
| PDone (k : done_kind).      (* Run has returned *)

Inductive branch := BrWatch | BrAsync | BrSignal | BrShutdownChan | BrCtx.

(* graph.Host.NotifyComponentStatusChange: which component status events are forwarded to the
   collector's asynchronous error channel — exactly those whose status is StatusFatalError (5),
   whether or not the event carries an error value (NewEvent(StatusFatalError) and
   NewFatalErrorEvent(nil) are fatal too: the status machine records FatalError, which is terminal).
   Tie.v proves this equal to the table dumped by running the current code on every event a
   component can build (Generated/C20Fatal.v). *)
Definition forwards_async (status : Z) (has_err : bool) : bool := Z.eqb status 5.

(* who is blocked sending on asyncErrorChannel: a plain sender (e.g. the telemetry factory, which
   is handed the channel itself), or a component of generation g that has not reported a fatal
   error before, reporting an event with [forwards_async] = true (any error value, or none), (FatalError is terminal in the component's status machine: a repeated report is
   refused and sends nothing) reporting StatusFatalError — the latter sends from inside
   reporter.ReportStatus, i.e. while holding the mutex of generation g's status reporter.  A
   second fatal reporter of the same service really waits for that mutex rather than in the
   channel's queue; it gets it when the first has been received, which is when it reaches the
   head of [st_async]: for what Run observes the FIFO queue is the same thing. *)
Inductive sender := SndPlain | SndFatal (g : nat).

Inductive label :=
| LInjWatch (err : bool)      (* a provider calls the watcher function *)
| LInjSig (s : sig)           (* a signal is delivered to signalsChannel (dropped when full) *)
| LInjAsync (who : sender)    (* somebody starts sending on asyncErrorChannel *)
| LCancel                     (* Run's context is cancelled *)
| LShutdownCall               (* Shutdown(), both halves without interruption *)
| LShutCheck                  (* first half of Shutdown(): read the state *)
| LShutClose                  (* second half: close the channel under recover *)
| LRun (b : branch).          (* next section of Run; b is read at the select only *)

Record cstate := mkState {
  st_phase : phase;
  st_pc : pc;
  st_live : option nat;        (* generation of col.service while it is started *)
  st_gen : nat;                (* number of configProvider.Get calls so far = next generation *)
  st_open : option nat;        (* generation whose Retrieved is still open in the resolver *)
  st_chan_closed : bool;       (* shutdownChan *)
  st_closers : nat;            (* goroutines between the two halves of Shutdown() *)
  st_sigs : list sig;          (* signalsChannel, FIFO, capacity 3 *)
  st_watch : list bool;        (* resolver.watcher: buffered value, then blocked senders; true = error *)
  st_async : list sender;      (* senders blocked on asyncErrorChannel, FIFO *)
  st_ctx_done : bool;
  st_prov_shut : nat           (* number of ConfigProvider.Shutdown calls *)
}.

Definition init : cstate :=
  mkState Starting PInit None 0 None false 0 [] [] [] false 0.

(* ---- the service --------------------------------------------------------------------------- *)
(* elements of l strictly before c, and whether c occurs *)
Fixpoint upto (c : nat) (l : list nat) : list nat * bool :=
  match l with
  | [] => ([], false)
  | x :: r => if Nat.eqb x c then ([], true) else let '(a, b) := upto c r in (x :: a, b)
  end.

Definition memb (c : nat) (l : list nat) : bool := existsb (Nat.eqb c) l.

(* service.New *)
Definition svc_new (g : nat) (c : gencfg) : list action * bool :=
  match outcome c with
  | BBuildFails k => let '(pre, found) := upto k (create_order c) in (map (ACreate g) pre, negb found)
  | _ => (map (ACreate g) (create_order c), true)
  end.

(* service.Start *)
Definition svc_start (g : nat) (c : gencfg) : list action * bool :=
  match outcome c with
  | BStartFails k =>
      let '(pre, found) := upto k (start_order c) in
      (map (fun x => AStart g x true) pre ++ (if found then [AStart g k false] else []), negb found)
  | _ => (map (fun x => AStart g x true) (start_order c), true)
  end.

(* service.Shutdown: every component, whatever happened before; errors are accumulated *)
Definition svc_shutdown (g : nat) (c : gencfg) : list action * bool :=
  (ANotReady g :: map (fun x => AShutdown g x (negb (memb x (shut_fail c)))) (shut_order c),
   forallb (fun x => negb (memb x (shut_fail c))) (shut_order c)).

Definition sender_eqb (a b : sender) : bool :=
  match a, b with
  | SndPlain, SndPlain => true
  | SndFatal g, SndFatal h => Nat.eqb g h
  | _, _ => false
  end.

(* Collector.shutdownService: while service.Shutdown runs, a goroutine of the collector keeps
   receiving from asyncErrorChannel and discards what it gets (the service is going away): every
   sender blocked there — plain, or a component holding its status reporter's mutex — is released
   before service.Shutdown needs that mutex.  (Before commit 98f2ce3d0 nobody received and the
   shutdown deadlocked: Old.v.) *)
Definition drain (s : cstate) : cstate :=
  mkState (st_phase s) (st_pc s) (st_live s) (st_gen s) (st_open s) (st_chan_closed s) (st_closers s)
          (st_sigs s) (st_watch s) [] (st_ctx_done s) (st_prov_shut s).

(* setupConfigurationComponents after setCollectorState(StateStarting): actions, and the error
   class if it fails.  [open] = generation whose retrieval the resolver still holds open. *)
Definition setup (o : oracle) (g : nat) (open : option nat) : list action * option result * option nat :=
  let c := cfg_of o g in
  let closes := match open with Some h => [AClose h] | None => [] end in
  match outcome c with
  | BGetFails => (closes ++ [AGet g false], Some RErrGet, None)
  | BInvalid => (closes ++ [AGet g true], Some RErrInvalid, Some g)
  | _ =>
      let '(cr, ok1) := svc_new g c in
      if negb ok1 then (closes ++ AGet g true :: cr, Some RErrBuild, Some g)
      else
        let '(sa, ok2) := svc_start g c in
        if negb ok2 then (closes ++ AGet g true :: cr ++ sa ++ fst (svc_shutdown g c), Some RErrStart, Some g)
        else (closes ++ AGet g true :: cr ++ sa, None, Some g)
  end.

(* ---- steps ---------------------------------------------------------------------------------- *)
Definition set_phase (s : cstate) (p : phase) : cstate :=
  mkState p (st_pc s) (st_live s) (st_gen s) (st_open s) (st_chan_closed s) (st_closers s)
          (st_sigs s) (st_watch s) (st_async s) (st_ctx_done s) (st_prov_shut s).
Definition set_pc (s : cstate) (p : pc) : cstate :=
  mkState (st_phase s) p (st_live s) (st_gen s) (st_open s) (st_chan_closed s) (st_closers s)
          (st_sigs s) (st_watch s) (st_async s) (st_ctx_done s) (st_prov_shut s).
Definition set_live (s : cstate) (l : option nat) : cstate :=
  mkState (st_phase s) (st_pc s) l (st_gen s) (st_open s) (st_chan_closed s) (st_closers s)
          (st_sigs s) (st_watch s) (st_async s) (st_ctx_done s) (st_prov_shut s).
Definition set_gen (s : cstate) (g : nat) (open : option nat) : cstate :=
  mkState (st_phase s) (st_pc s) (st_live s) g open (st_chan_closed s) (st_closers s)
          (st_sigs s) (st_watch s) (st_async s) (st_ctx_done s) (st_prov_shut s).
Definition set_chan (s : cstate) (b : bool) (n : nat) : cstate :=
  mkState (st_phase s) (st_pc s) (st_live s) (st_gen s) (st_open s) b n
          (st_sigs s) (st_watch s) (st_async s) (st_ctx_done s) (st_prov_shut s).
Definition set_sigs (s : cstate) (l : list sig) : cstate :=
  mkState (st_phase s) (st_pc s) (st_live s) (st_gen s) (st_open s) (st_chan_closed s) (st_closers s)
          l (st_watch s) (st_async s) (st_ctx_done s) (st_prov_shut s).
Definition set_watch (s : cstate) (l : list bool) : cstate :=
  mkState (st_phase s) (st_pc s) (st_live s) (st_gen s) (st_open s) (st_chan_closed s) (st_closers s)
          (st_sigs s) l (st_async s) (st_ctx_done s) (st_prov_shut s).
Definition set_async (s : cstate) (l : list sender) : cstate :=
  mkState (st_phase s) (st_pc s) (st_live s) (st_gen s) (st_open s) (st_chan_closed s) (st_closers s)
          (st_sigs s) (st_watch s) l (st_ctx_done s) (st_prov_shut s).
Definition set_ctx (s : cstate) : cstate :=
  mkState (st_phase s) (st_pc s) (st_live s) (st_gen s) (st_open s) (st_chan_closed s) (st_closers s)
          (st_sigs s) (st_watch s) (st_async s) true (st_prov_shut s).
Definition set_prov (s : cstate) (n : nat) (open : option nat) : cstate :=
  mkState (st_phase s) (st_pc s) (st_live s) (st_gen s) open (st_chan_closed s) (st_closers s)
          (st_sigs s) (st_watch s) (st_async s) (st_ctx_done s) n.

(* Shutdown(): "if state == Running || state == Starting { defer recover(); close(shutdownChan) }" *)
Definition shut_check (s : cstate) : cstate :=
  match st_phase s with
  | Running | Starting => set_chan s (st_chan_closed s) (S (st_closers s))
  | _ => s
  end.

(* closing a closed channel panics; the panic is recovered by the deferred function: nothing
   happens to the collector — the event is kept in the log as ARecovered, because a Shutdown()
   WITHOUT that guard would crash the process exactly there (checking "is it closed?" first does not
   help: the check and the close of two callers interleave) *)
Definition shut_close (s : cstate) : cstate * list action :=
  match st_closers s with
  | 0 => (s, [])
  | S n => if st_chan_closed s then (set_chan s true n, [ARecovered]) else (set_chan s true n, [ACloseChan])
  end.

(* leaving the loop: break LOOP / the ctx.Done() case; both start shutdown() by setting Closing *)
Definition to_final (s : cstate) (bg : bool) : cstate * list action :=
  (set_pc (set_phase s Closing) (PFinal bg), [ASetState Closing]).

(* reloadConfiguration begins: setCollectorState(StateClosing) *)
Definition to_reload (s : cstate) : cstate * list action :=
  (set_pc (set_phase s Closing) PReload, [ASetState Closing]).

Definition is_ready (s : cstate) (b : branch) : bool :=
  match b with
  | BrWatch => match st_watch s with [] => false | _ => true end
  | BrAsync => match st_async s with [] => false | _ => true end
  | BrSignal => match st_sigs s with [] => false | _ => true end
  | BrShutdownChan => st_chan_closed s
  | BrCtx => st_ctx_done s
  end.

(* one iteration of the select with ready branch b *)
Definition take (s : cstate) (b : branch) : cstate * list action :=
  match b with
  | BrWatch =>
      match st_watch s with
      | [] => (s, [])
      | e :: r => if e then to_final (set_watch s r) false else to_reload (set_watch s r)
      end
  | BrAsync =>
      match st_async s with
      | [] => (s, [])
      | _ :: r => to_final (set_async s r) false
      end
  | BrSignal =>
      match st_sigs s with
      | [] => (s, [])
      | SigHup :: r => to_reload (set_sigs s r)
      | _ :: r => to_final (set_sigs s r) false
      end
  | BrShutdownChan => if st_chan_closed s then to_final s false else (s, [])
  | BrCtx => if st_ctx_done s then to_final s true else (s, [])
  end.

(* Resolver.Shutdown: close(done) releases every provider goroutine still blocked in onChange behind
   the buffered notification (their notifications are dropped: nobody is going to re-fetch), then —
   under the exclusive lock, so with no sender inside onChange — close(mr.watcher); then
   closeIfNeeded closes the open retrieval.  (Before commit bc929f066 the blocked senders panicked
   with "send on closed channel": Old.v; the action ASenderPanic is kept in the type for that
   documentation and for the theorem that the current step function never produces it.) *)
Definition final_prefix (s : cstate) : list action :=
  match st_open s with Some h => [AClose h] | None => [] end.

Definition live_gen (s : cstate) : nat := match st_live s with Some g => g | None => 0 end.

Definition run_step (o : oracle) (s : cstate) (b : branch) : cstate * list action :=
  match st_pc s with
  | PInit =>
      (* Run -> setupConfigurationComponents -> setCollectorState(StateStarting) *)
      (set_pc (set_phase s Starting) (PSetup true), [ASetState Starting])
  | PSetup initial =>
      let g := st_gen s in
      let '(acts, err, open) := setup o g (st_open s) in
      let s1 := set_gen s (S g) open in
      match err with
      | None => (set_pc (set_live (set_phase s1 Running) (Some g)) PSelect, acts ++ [ASetState Running])
      | Some e =>
          (* a failed Start is cleaned up through shutdownService: pending async senders are drained *)
          let s2 := match e with RErrStart => drain s1 | _ => s1 end in
          if initial
          then (set_pc (set_phase s2 Closed) (PDone DInitFail), acts ++ [ASetState Closed; AReturn e])
          else (set_pc s2 (PDone DReloadFail), acts ++ [AReturn (RReload e)])
      end
  | PSelect => take s b
  | PReload =>
      let g := live_gen s in
      let s0 := drain s in
      let '(acts, ok) := svc_shutdown g (cfg_of o g) in
      if ok
      then (set_pc (set_live (set_phase s0 Starting) None) (PSetup false), acts ++ [ASetState Starting])
      else (set_pc (set_live s0 None) (PDone DRetireFail), acts ++ [AReturn RErrRetire])
  | PFinal bg =>
      let g := live_gen s in
      let pa := final_prefix s ++ [AProvShutdown (bg || negb (st_ctx_done s))] in
      let s1 := set_watch (set_prov (drain s) (S (st_prov_shut s)) None) (firstn 1 (st_watch s)) in
      let '(acts, ok) := svc_shutdown g (cfg_of o g) in
      let r := if ok && negb (prov_shut_fails o) then RNil else RErrShutdown in
      (set_pc (set_live (set_phase s1 Closed) None) (PDone DStopped),
       pa ++ acts ++ [ASetState Closed; AReturn r])
  | PStuck => (s, [])
  | PDone _ => (s, [])
  end.

Definition step (o : oracle) (s : cstate) (l : label) : cstate * list action :=
  match l with
  | LInjWatch e =>
      (* providers must not notify after their Shutdown; the resolver's channel is closed then *)
      if Nat.eqb (st_prov_shut s) 0 then (set_watch s (st_watch s ++ [e]), []) else (s, [])
  | LInjSig x =>
      if Nat.ltb (length (st_sigs s)) 3 then (set_sigs s (st_sigs s ++ [x]), []) else (s, [])
  | LInjAsync w =>
      (* a component can report StatusFatalError only while its service is the started one: before
         Start there is no component, after Shutdown its state machine refuses the transition *)
      match w with
      | SndPlain => (set_async s (st_async s ++ [w]), [])
      | SndFatal g =>
          if option_eqb Nat.eqb (st_live s) (Some g) then (set_async s (st_async s ++ [w]), []) else (s, [])
      end
  | LCancel => (set_ctx s, [])
  | LShutCheck => (shut_check s, [])
  | LShutClose => shut_close s
  | LShutdownCall =>
      match st_phase s with
      | Running | Starting => shut_close (shut_check s)
      | _ => (s, [])
      end
  | LRun b => run_step o s b
  end.

Fixpoint run (o : oracle) (s : cstate) (ls : list label) : cstate * list action :=
  match ls with
  | [] => (s, [])
  | l :: r => let '(s1, a1) := step o s l in let '(s2, a2) := run o s1 r in (s2, a1 ++ a2)
  end.

(* is the label able to do anything in this state?  (the correspondence run only produces
   enabled labels: a disabled one in a recorded history is a disagreement) *)
Definition enabled (s : cstate) (l : label) : bool :=
  match l with
  | LRun b =>
      match st_pc s with
      | PSelect => is_ready s b
      | PStuck | PDone _ => false
      | _ => true
      end
  | LShutClose => negb (Nat.eqb (st_closers s) 0)
  | _ => true
  end.

(* ---- observers used by the property statements ---------------------------------------------- *)
(* components that have been started and not yet shut down (a failed Start does not count) *)
Definition pair_remove (g c : nat) (l : list (nat * nat)) : list (nat * nat) :=
  filter (fun p => negb (Nat.eqb g (fst p) && Nat.eqb c (snd p))) l.

Definition live_step (acc : list (nat * nat)) (a : action) : list (nat * nat) :=
  match a with
  | AStart g c true => acc ++ [(g, c)]
  | AShutdown g c _ => pair_remove g c acc
  | _ => acc
  end.

Definition live_after (acc : list (nat * nat)) (log : list action) : list (nat * nat) :=
  fold_left live_step log acc.

(* whenever a component of generation g is created or started, everything live is of generation g *)
Fixpoint no_overlap (acc : list (nat * nat)) (log : list action) : bool :=
  match log with
  | [] => true
  | a :: r =>
      match a with
      | ACreate g _ | AStart g _ _ => forallb (fun p => Nat.eqb (fst p) g) acc
      | _ => true
      end && no_overlap (live_step acc a) r
  end.

Definition states_of (log : list action) : list phase :=
  flat_map (fun a => match a with ASetState p => [p] | _ => [] end) log.

Definition count (f : action -> bool) (log : list action) : nat := length (filter f log).

Definition is_start (g c : nat) (a : action) : bool :=
  match a with AStart g' c' _ => Nat.eqb g g' && Nat.eqb c c' | _ => false end.
Definition is_shut (g c : nat) (a : action) : bool :=
  match a with AShutdown g' c' _ => Nat.eqb g g' && Nat.eqb c c' | _ => false end.
Definition is_prov_shut (a : action) : bool := match a with AProvShutdown _ => true | _ => false end.
Definition is_close_chan (a : action) : bool := match a with ACloseChan => true | _ => false end.
Definition is_sender_panic (a : action) : bool := match a with ASenderPanic => true | _ => false end.
Definition is_recovered (a : action) : bool := match a with ARecovered => true | _ => false end.
Definition is_close (g : nat) (a : action) : bool := match a with AClose g' => Nat.eqb g g' | _ => false end.
Definition is_return (a : action) : bool := match a with AReturn _ => true | _ => false end.

(* the state-change word: Starting (Closed | Running (Closing Starting Running)* (eps | Closing (eps | Closed | Starting))) *)
Inductive pstate := QStart | QStarting0 | QRunning | QClosing | QStartingN | QClosed | QBad.

Definition pdelta (q : pstate) (p : phase) : pstate :=
  match q, p with
  | QStart, Starting => QStarting0
  | QStarting0, Running => QRunning
  | QStarting0, Closed => QClosed          (* the initial configuration could not be brought up *)
  | QRunning, Closing => QClosing
  | QClosing, Starting => QStartingN       (* reload: the retiring service is down *)
  | QClosing, Closed => QClosed
  | QStartingN, Running => QRunning
  | _, _ => QBad
  end.

Definition phase_word (l : list phase) : pstate := fold_left pdelta l QStart.

(* the history contains no component reporting StatusFatalError *)
Definition is_fatal_label (l : label) : bool :=
  match l with LInjAsync (SndFatal _) => true | _ => false end.
Definition no_fatal (ls : list label) : Prop := forall l, In l ls -> is_fatal_label l = false.

Definition stop_branch (s : cstate) (b : branch) : bool :=
  match b with
  | BrWatch => match st_watch s with true :: _ => true | _ => false end
  | BrAsync => match st_async s with _ :: _ => true | _ => false end
  | BrSignal => match st_sigs s with SigTerm :: _ | SigInt :: _ => true | _ => false end
  | BrShutdownChan => st_chan_closed s
  | BrCtx => st_ctx_done s
  end.

(* ---- the provider level ----------------------------------------------------------------------
   The resolver is built over a TOPOLOGY: n_uri configuration URIs (all served by registered
   provider 0) and n_aux further registered providers — provider 1, if present, serves exactly one
   ${scheme:...} expansion inside the configuration and no URI; provider 2 serves nothing at all.
   [AGet], [AClose] and [AProvShutdown] of the run-loop model stand for the resolver's loops:
     Resolve      retrieves every URI in order, then the expansion (a failing first URI ends it),
     closeIfNeeded closes every retrieval of the previous Resolve, in the order they were made,
     Shutdown     calls Shutdown on EVERY REGISTERED provider (a Go map: order canonicalised by id),
                  whether it served a URI, an expansion or nothing.                                   *)
Record topo := mkTopo { n_uri : nat; n_aux : nat }.

Definition retrievals (t : topo) : list nat := seq 0 (n_uri t + (if Nat.leb 1 (n_aux t) then 1 else 0)).
Definition providers (t : topo) : list nat := seq 0 (1 + n_aux t).

Inductive pevent :=
| PRetrieve (g u : nat) (ok : bool)
| PClose (g u : nat)
| PShutdown (p : nat) (ctx_live : bool).

Definition expand1 (t : topo) (a : action) : list pevent :=
  match a with
  | AGet g true => map (fun u => PRetrieve g u true) (retrievals t)
  | AGet g false => [PRetrieve g 0 false]
  | AClose g => map (PClose g) (retrievals t)
  | AProvShutdown b => map (fun p => PShutdown p b) (providers t)
  | _ => []
  end.

Definition expand (t : topo) (log : list action) : list pevent := flat_map (expand1 t) log.

Definition is_pshut (p : nat) (e : pevent) : bool := match e with PShutdown q _ => Nat.eqb p q | _ => false end.
Definition pcount (f : pevent -> bool) (l : list pevent) : nat := length (filter f l).

(* ---- a ranking function for Run's own activity ------------------------------------------------
   Every section Run executes strictly decreases [mu]: taking a queued event shortens a queue,
   everything else moves the program counter towards the end; an external label raises it by at
   most 4.  So Run executes at most mu s + 4 * (later injections) sections: it cannot be busy for
   ever on finitely many events. *)
Definition pc_weight (p : pc) : nat :=
  match p with PInit => 6 | PReload => 5 | PSetup _ => 4 | PSelect => 2 | PFinal _ => 1 | PStuck | PDone _ => 0 end.
Definition pending_count (s : cstate) : nat := length (st_sigs s) + length (st_watch s) + length (st_async s).
Definition mu (s : cstate) : nat := 4 * pending_count s + pc_weight (st_pc s).

(* a sequence of sections of Run, each enabled when it is executed *)
Fixpoint run_enabled (o : oracle) (s : cstate) (bs : list branch) : bool :=
  match bs with
  | [] => true
  | b :: r => enabled s (LRun b) && run_enabled o (fst (step o s (LRun b))) r
  end.
