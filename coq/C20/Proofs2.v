(* C20/Proofs2.v — invariants of the run loop, by induction over the label sequence. *)
From Verif Require Import Common.Base C20.Model C20.Proofs1.

Definition q_of_pc (p : pc) : pstate :=
  match p with
  | PInit => QStart
  | PSetup true => QStarting0
  | PSetup false => QStartingN
  | PSelect => QRunning
  | PReload | PFinal _ | PStuck => QClosing
  | PDone DInitFail | PDone DStopped => QClosed
  | PDone DReloadFail => QStartingN
  | PDone DRetireFail => QClosing
  end.

Definition ph_of_pc (p : pc) : phase :=
  match p with
  | PInit | PSetup _ => Starting
  | PSelect => Running
  | PReload | PFinal _ | PStuck => Closing
  | PDone DInitFail | PDone DStopped => Closed
  | PDone DReloadFail => Starting
  | PDone DRetireFail => Closing
  end.

Definition pc_has_live (p : pc) : bool :=
  match p with PSelect | PReload | PFinal _ | PStuck => true | _ => false end.

(* ---- control invariant ---------------------------------------------------------------------- *)
Record InvC (s : cstate) (log : list action) : Prop := {
  C_word : phase_word (states_of log) = q_of_pc (st_pc s);
  C_phase : st_phase s = ph_of_pc (st_pc s);
  C_live1 : pc_has_live (st_pc s) = true -> exists g, st_live s = Some g;
  C_live0 : pc_has_live (st_pc s) = false -> st_live s = None;
  C_prov : count is_prov_shut log = st_prov_shut s;
  C_prov_pc : match st_pc s with
              | PDone DStopped => st_prov_shut s = 1
              | PStuck => st_prov_shut s <= 1
              | _ => st_prov_shut s = 0
              end;
  C_chan : count is_close_chan log = if st_chan_closed s then 1 else 0;
  C_ret : count is_return log = match st_pc s with PDone _ => 1 | _ => 0 end
}.

Lemma InvC_same s s' log :
  st_pc s' = st_pc s -> st_phase s' = st_phase s -> st_live s' = st_live s ->
  st_prov_shut s' = st_prov_shut s -> st_chan_closed s' = st_chan_closed s ->
  InvC s log -> InvC s' log.
Proof.
  intros E1 E2 E3 E4 E5 [H1 H2 H3 H4 H5 H6 H7 H8].
  constructor; rewrite ?E1, ?E2, ?E3, ?E4, ?E5; auto.
Qed.

Lemma count_snoc_other f log a : f a = false -> count f (log ++ [a]) = count f log.
Proof. intros H. rewrite count_app, count_cons, H, count_nil. lia. Qed.

Lemma states_of_snoc_other log a : not_setstate a = true -> states_of (log ++ [a]) = states_of log.
Proof. intros H. rewrite states_of_app. destruct a; simpl in *; try discriminate; now rewrite app_nil_r. Qed.

(* the close of shutdownChan *)
Lemma InvC_close s log s' a :
  shut_close s = (s', a) -> InvC s log -> InvC s' (log ++ a).
Proof.
  unfold shut_close. destruct (st_closers s) as [|n].
  - intros H; inversion H; subst. now rewrite app_nil_r.
  - destruct (st_chan_closed s) eqn:EC; intros H I; inversion H; subst.
    + destruct I as [H1 H2 H3 H4 H5 H6 H7 H8].
      constructor; simpl; rewrite ?states_of_snoc_other, ?count_snoc_other by reflexivity; auto.
      now rewrite H7, EC.
    + destruct I as [H1 H2 H3 H4 H5 H6 H7 H8].
      constructor; simpl; rewrite ?states_of_snoc_other, ?count_snoc_other by reflexivity; auto.
      rewrite count_app, H7, EC. reflexivity.
Qed.

Lemma InvC_check s log : InvC s log -> InvC (shut_check s) log.
Proof.
  intros I. unfold shut_check. destruct (st_phase s); auto; (eapply InvC_same; [..|exact I]; reflexivity).
Qed.

Ltac invc_env I := eapply InvC_same; [..|exact I]; reflexivity.

Lemma closes_states open : states_of (closes_of open) = [].
Proof. destruct open; reflexivity. Qed.

Lemma closes_count f open : (forall h, f (AClose h) = false) -> count f (closes_of open) = 0.
Proof. intros H. destruct open; simpl; auto. rewrite count_cons, H. reflexivity. Qed.

Lemma setup_block_C o g open acts err open' :
  setup o g open = (acts, err, open') ->
  states_of acts = [] /\ count is_prov_shut acts = 0 /\ count is_close_chan acts = 0 /\ count is_return acts = 0.
Proof.
  intros E. apply setup_cases in E as [body [-> SH]].
  rewrite states_of_app, !count_app, closes_states, (shape_states _ _ _ _ SH).
  rewrite !closes_count by reflexivity.
  rewrite !(shape_misc _ _ _ _ SH) by (try (intros [] ; simpl; congruence); reflexivity).
  auto.
Qed.

Lemma fprefix_is_closes s : final_prefix s = closes_of (st_open s).
Proof. reflexivity. Qed.

Lemma fprefix_states s : states_of (final_prefix s) = [].
Proof. rewrite fprefix_is_closes. apply closes_states. Qed.

Lemma fprefix_count f s : (forall h, f (AClose h) = false) -> count f (final_prefix s) = 0.
Proof. intros H1. rewrite fprefix_is_closes. apply closes_count; auto. Qed.

Lemma fprefix_neutral s : forallb neutral (final_prefix s) = true.
Proof. rewrite fprefix_is_closes. destruct (st_open s); reflexivity. Qed.

Ltac solve_word H1 :=
  rewrite ?states_of_app, ?phase_word_app; try rewrite H1; try reflexivity.

Local Opaque svc_shutdown.

Lemma InvC_run o s log b s' a : InvC s log -> run_step o s b = (s', a) -> InvC s' (log ++ a).
Proof.
  intros I ST. unfold run_step in ST.
  destruct (st_pc s) eqn:EPC.
  - (* PInit *)
    inversion ST; subst. destruct I as [H1 H2 H3 H4 H5 H6 H7 H8]. rewrite EPC in *.
    constructor; simpl; rewrite ?count_snoc_other by reflexivity; auto;
      try (rewrite states_of_app, phase_word_app, H1; reflexivity); try discriminate.
  - (* PSetup *)
    destruct (setup o (st_gen s) (st_open s)) as [[acts err] open'] eqn:ES.
    apply setup_block_C in ES as [S1 [S2 [S3 S4]]].
    destruct I as [H1 H2 H3 H4 H5 H6 H7 H8]. rewrite EPC in *. simpl in *.
    destruct err as [e|].
    + destruct initial; destruct e; inversion ST; subst; constructor; simpl;
        rewrite ?app_assoc, ?states_of_app, ?phase_word_app, ?count_app, ?S1, ?S2, ?S3, ?S4, ?app_nil_r, ?H1; simpl;
        rewrite ?count_cons, ?count_nil; simpl; auto; try lia; try discriminate.
    + inversion ST; subst; constructor; simpl;
        rewrite ?app_assoc, ?states_of_app, ?phase_word_app, ?count_app, ?S1, ?S2, ?S3, ?S4, ?app_nil_r, ?H1; simpl;
        rewrite ?count_cons, ?count_nil; simpl; auto; try lia; try discriminate.
      * destruct initial; reflexivity.
      * eauto.
  - (* PSelect *)
    assert (forall s0 bg, st_pc s0 = PSelect -> st_phase s0 = Running -> st_live s0 = st_live s ->
                          st_prov_shut s0 = st_prov_shut s -> st_chan_closed s0 = st_chan_closed s ->
                          InvC (fst (to_final s0 bg)) (log ++ snd (to_final s0 bg))) as TF.
    { intros s0 bg E1 E2 E3 E4 E5. destruct I as [H1 H2 H3 H4 H5 H6 H7 H8]. rewrite EPC in *.
      constructor; simpl; rewrite ?count_snoc_other by reflexivity; rewrite ?E3, ?E4, ?E5; auto;
        try (rewrite states_of_app, phase_word_app, H1; reflexivity); try discriminate. }
    assert (forall s0, st_pc s0 = PSelect -> st_phase s0 = Running -> st_live s0 = st_live s ->
                       st_prov_shut s0 = st_prov_shut s -> st_chan_closed s0 = st_chan_closed s ->
                       InvC (fst (to_reload s0)) (log ++ snd (to_reload s0))) as TR.
    { intros s0 E1 E2 E3 E4 E5. destruct I as [H1 H2 H3 H4 H5 H6 H7 H8]. rewrite EPC in *.
      constructor; simpl; rewrite ?count_snoc_other by reflexivity; rewrite ?E3, ?E4, ?E5; auto;
        try (rewrite states_of_app, phase_word_app, H1; reflexivity); try discriminate. }
    pose proof (C_phase _ _ I) as HP. rewrite EPC in HP. simpl in HP.
    assert (InvC s (log ++ [])) as I0 by now rewrite app_nil_r.
    unfold take in ST. destruct b.
    + destruct (st_watch s) as [|e r]; [inversion ST; subst; exact I0|].
      destruct e.
      * specialize (TF (set_watch s r) false). rewrite ST in TF. apply TF; auto.
      * specialize (TR (set_watch s r)). rewrite ST in TR. apply TR; auto.
    + destruct (st_async s) as [|e r]; [inversion ST; subst; exact I0|].
      specialize (TF (set_async s r) false). rewrite ST in TF. apply TF; auto.
    + destruct (st_sigs s) as [|e r]; [inversion ST; subst; exact I0|].
      destruct e.
      * specialize (TR (set_sigs s r)). rewrite ST in TR. apply TR; auto.
      * specialize (TF (set_sigs s r) false). rewrite ST in TF. apply TF; auto.
      * specialize (TF (set_sigs s r) false). rewrite ST in TF. apply TF; auto.
    + destruct (st_chan_closed s) eqn:ECC; [|inversion ST; subst; exact I0].
      specialize (TF s false). rewrite ST in TF. apply TF; auto.
    + destruct (st_ctx_done s) eqn:ECD; [|inversion ST; subst; exact I0].
      specialize (TF s true). rewrite ST in TF. apply TF; auto.
  - (* PReload *)
    destruct I as [H1 H2 H3 H4 H5 H6 H7 H8]. rewrite EPC in *. simpl in H1, H2, H3, H4, H5, H6, H7, H8.
    destruct (svc_shutdown (live_gen s) (cfg_of o (live_gen s))) as [acts ok] eqn:ESW.
    assert (acts = fst (svc_shutdown (live_gen s) (cfg_of o (live_gen s)))) as EA by now rewrite ESW.
    assert (states_of acts = []) as S1 by (rewrite EA; apply sweep_states).
    assert (forall f, (forall a, neutral a = false -> f a = false) -> (forall gg, f (ANotReady gg) = false) -> count f acts = 0) as S2
        by (intros; rewrite EA; apply sweep_misc; auto).
    destruct ok; inversion ST; subst; constructor; simpl;
      rewrite ?app_assoc, ?states_of_app, ?phase_word_app, ?count_app, ?S1, ?app_nil_r, ?H1; simpl;
      rewrite ?S2 by (try (intros []; simpl; congruence); reflexivity);
      rewrite ?count_cons, ?count_nil; simpl; auto; try lia; try discriminate.
  - (* PFinal *)
    destruct I as [H1 H2 H3 H4 H5 H6 H7 H8]. rewrite EPC in *. simpl in H1, H2, H3, H4, H5, H6, H7, H8.
    try fold (final_prefix s) in ST.
    destruct (svc_shutdown (live_gen s) (cfg_of o (live_gen s))) as [acts ok] eqn:ESW.
    assert (acts = fst (svc_shutdown (live_gen s) (cfg_of o (live_gen s)))) as EA by now rewrite ESW.
    assert (states_of acts = []) as S1 by (rewrite EA; apply sweep_states).
    assert (forall f, (forall a, neutral a = false -> f a = false) -> (forall gg, f (ANotReady gg) = false) -> count f acts = 0) as S2
        by (intros; rewrite EA; apply sweep_misc; auto).
    inversion ST; subst; constructor; simpl;
      rewrite ?app_assoc, ?states_of_app, ?phase_word_app, ?count_app, ?fprefix_states, ?S1, ?app_nil_r, ?H1; simpl;
      rewrite ?fprefix_count by reflexivity;
      rewrite ?S2 by (try (intros []; simpl; congruence); reflexivity);
      rewrite ?count_cons, ?count_nil; simpl; auto; try lia; try discriminate.
  - inversion ST; subst. now rewrite app_nil_r.
  - inversion ST; subst. now rewrite app_nil_r.
Qed.

(* counting over a block appended to the log *)
Lemma InvC_step o s log l s' a : InvC s log -> step o s l = (s', a) -> InvC s' (log ++ a).
Proof.
  intros I ST. destruct l; simpl in ST.
  - (* watch *) destruct (Nat.eqb (st_prov_shut s) 0); inversion ST; subst; rewrite app_nil_r; auto. invc_env I.
  - destruct (Nat.ltb _ 3); inversion ST; subst; rewrite app_nil_r; auto. invc_env I.
  - destruct who.
    + inversion ST; subst; rewrite app_nil_r. invc_env I.
    + destruct (option_eqb _ _ _); inversion ST; subst; rewrite app_nil_r; auto. invc_env I.
  - inversion ST; subst; rewrite app_nil_r. invc_env I.
  - (* ShutdownCall *)
    destruct (st_phase s) eqn:EP; try (inversion ST; subst; rewrite app_nil_r; exact I).
    + eapply InvC_close; eauto. apply InvC_check; auto.
    + eapply InvC_close; eauto. apply InvC_check; auto.
  - inversion ST; subst. rewrite app_nil_r. apply InvC_check; auto.
  - eapply InvC_close; eauto.
  - eapply InvC_run; eauto.
Qed.

Lemma InvC_init : InvC init [].
Proof. constructor; simpl; auto. discriminate. Qed.

Lemma reach_InvC o P s log : reach o P s log -> InvC s log.
Proof. induction 1; [apply InvC_init|eapply InvC_step; eauto]. Qed.


(* ---- live components / no overlap ------------------------------------------------------------ *)
Definition live_list (o : oracle) (s : cstate) : list (nat * nat) :=
  match st_live s with Some g => map (pair g) (start_order (cfg_of o g)) | None => [] end.

Record InvL (o : oracle) (s : cstate) (log : list action) : Prop := {
  L_live : live_after [] log = live_list o s;
  L_overlap : no_overlap [] log = true
}.

Lemma InvL_app o s log a s' :
  live_after (live_list o s) a = live_list o s' -> no_overlap (live_list o s) a = true ->
  InvL o s log -> InvL o s' (log ++ a).
Proof.
  intros H1 H2 [L1 L2]. constructor.
  - now rewrite live_after_app, L1.
  - now rewrite no_overlap_app, L2, L1.
Qed.

Lemma neutral_block a acc : forallb neutral a = true -> live_after acc a = acc /\ no_overlap acc a = true.
Proof. intros H. split; [apply live_after_neutral|apply no_overlap_neutral]; auto. Qed.

Lemma InvL_neutral o s log a s' :
  st_live s' = st_live s -> forallb neutral a = true -> InvL o s log -> InvL o s' (log ++ a).
Proof.
  intros E N I. destruct (neutral_block a (live_list o s) N) as [N1 N2].
  eapply InvL_app; eauto. rewrite N1. unfold live_list. now rewrite E.
Qed.

Lemma closes_neutral open : forallb neutral (closes_of open) = true.
Proof. destruct open; reflexivity. Qed.

Transparent svc_shutdown.
Lemma sweep_from_live o g tail :
  forallb neutral tail = true ->
  live_after (map (pair g) (start_order (cfg_of o g))) (fst (svc_shutdown g (cfg_of o g)) ++ tail) = []
  /\ no_overlap (map (pair g) (start_order (cfg_of o g))) (fst (svc_shutdown g (cfg_of o g)) ++ tail) = true.
Proof.
  intros N. rewrite live_after_app, no_overlap_app, sweep_no_overlap.
  rewrite sweep_live by apply incl_refl.
  destruct (neutral_block tail [] N) as [N1 N2]. now rewrite N1, N2.
Qed.
Opaque svc_shutdown.

Lemma InvL_run o s log b s' a : InvC s log -> InvL o s log -> run_step o s b = (s', a) -> InvL o s' (log ++ a).
Proof.
  intros C I ST. unfold run_step in ST.
  destruct (st_pc s) eqn:EPC.
  - inversion ST; subst. (eapply (InvL_neutral o s); [reflexivity|try reflexivity|exact I]).
  - (* PSetup *)
    pose proof (C_live0 _ _ C) as HL. rewrite EPC in HL. specialize (HL eq_refl).
    destruct (setup o (st_gen s) (st_open s)) as [[acts err] open'] eqn:ES.
    apply setup_cases in ES as [body [-> SH]].
    destruct (shape_live _ _ _ _ SH) as [SL SO].
    assert (forall tail, forallb neutral tail = true ->
              live_after [] ((closes_of (st_open s) ++ body) ++ tail) =
                match err with None => map (pair (st_gen s)) (start_order (cfg_of o (st_gen s))) | Some _ => [] end
              /\ no_overlap [] ((closes_of (st_open s) ++ body) ++ tail) = true) as B.
    { intros tail N. destruct (neutral_block _ [] (closes_neutral (st_open s))) as [N1 N2].
      destruct (neutral_block tail (match err with None => map (pair (st_gen s)) (start_order (cfg_of o (st_gen s))) | Some _ => [] end) N) as [N3 N4].
      rewrite !no_overlap_app, !live_after_app, N1, N2, SL, SO, N3, N4. auto. }
    destruct err as [e|].
    + destruct initial; destruct e; inversion ST; subst;
        match goal with |- InvL _ _ (_ ++ _ ++ ?t) => destruct (B t eq_refl) as [B1 B2] end;
        (eapply (InvL_app o s); eauto; unfold live_list; simpl; rewrite HL; auto).
    + inversion ST; subst. destruct (B [ASetState Running] eq_refl) as [B1 B2].
      eapply (InvL_app o s); eauto; unfold live_list; simpl; rewrite HL; auto.
  - (* PSelect *)
    unfold take in ST. destruct b.
    + destruct (st_watch s) as [|e r]; [inversion ST; subst; first [rewrite app_nil_r; assumption | (eapply InvL_neutral; [| |eassumption]; reflexivity)]|].
      destruct e; inversion ST; subst; first [rewrite app_nil_r; assumption | (eapply InvL_neutral; [| |eassumption]; reflexivity)].
    + destruct (st_async s) as [|e r]; inversion ST; subst; first [rewrite app_nil_r; assumption | (eapply InvL_neutral; [| |eassumption]; reflexivity)].
    + destruct (st_sigs s) as [|e r]; [inversion ST; subst; first [rewrite app_nil_r; assumption | (eapply InvL_neutral; [| |eassumption]; reflexivity)]|].
      destruct e; inversion ST; subst; first [rewrite app_nil_r; assumption | (eapply InvL_neutral; [| |eassumption]; reflexivity)].
    + destruct (st_chan_closed s); inversion ST; subst; first [rewrite app_nil_r; assumption | (eapply InvL_neutral; [| |eassumption]; reflexivity)].
    + destruct (st_ctx_done s); inversion ST; subst; first [rewrite app_nil_r; assumption | (eapply InvL_neutral; [| |eassumption]; reflexivity)].
  - (* PReload *)
    pose proof (C_live1 _ _ C) as HL. rewrite EPC in HL. destruct (HL eq_refl) as [g Hg].
    unfold live_gen in ST. rewrite Hg in ST.
    destruct (svc_shutdown g (cfg_of o g)) as [acts ok] eqn:ESW.
    assert (acts = fst (svc_shutdown g (cfg_of o g))) as EA by now rewrite ESW.
    destruct ok; inversion ST; subst.
    * destruct (sweep_from_live o g [ASetState Starting] eq_refl) as [B1 B2].
      eapply (InvL_app o s); eauto; unfold live_list; simpl; rewrite Hg; auto.
    * destruct (sweep_from_live o g [AReturn RErrRetire] eq_refl) as [B1 B2].
      eapply (InvL_app o s); eauto; unfold live_list; simpl; rewrite Hg; auto.
  - (* PFinal *)
    pose proof (C_live1 _ _ C) as HL. rewrite EPC in HL. destruct (HL eq_refl) as [g Hg].
    unfold live_gen in ST. rewrite Hg in ST. try fold (final_prefix s) in ST.
    destruct (svc_shutdown g (cfg_of o g)) as [acts ok] eqn:ESW.
    assert (acts = fst (svc_shutdown g (cfg_of o g))) as EA by now rewrite ESW.
    inversion ST; subst.
    match goal with |- InvL _ _ (_ ++ ?p ++ _ ++ ?t) => 
      destruct (sweep_from_live o g t eq_refl) as [B1 B2];
      assert (forallb neutral p = true) as NP by (rewrite forallb_app, fprefix_neutral; reflexivity);
      destruct (neutral_block p (live_list o s) NP) as [N1 N2]
    end.
    eapply (InvL_app o s); eauto.
    * rewrite live_after_app, N1. unfold live_list at 1. rewrite Hg. rewrite B1. reflexivity.
    * rewrite no_overlap_app, N2, N1. unfold live_list. rewrite Hg. exact B2.
  - inversion ST; subst. now rewrite app_nil_r.
  - inversion ST; subst. now rewrite app_nil_r.
Qed.

Lemma shut_close_shape s s' a :
  shut_close s = (s', a) ->
  (a = [] \/ a = [ACloseChan] \/ a = [ARecovered]) /\ st_live s' = st_live s /\ st_gen s' = st_gen s /\ st_pc s' = st_pc s
  /\ st_async s' = st_async s.
Proof.
  unfold shut_close. destruct (st_closers s); [|destruct (st_chan_closed s)];
    intros H; inversion H; subst; simpl; auto.
Qed.

Lemma shut_check_shape s :
  st_live (shut_check s) = st_live s /\ st_gen (shut_check s) = st_gen s /\ st_pc (shut_check s) = st_pc s
  /\ st_async (shut_check s) = st_async s.
Proof. unfold shut_check. destruct (st_phase s); simpl; auto. Qed.

(* environment labels: the log grows by nothing or by ACloseChan; live/gen/pc unchanged *)
Definition is_run (l : label) : bool := match l with LRun _ => true | _ => false end.

Lemma env_step_shape o s l s' a :
  step o s l = (s', a) -> is_run l = false ->
  (a = [] \/ a = [ACloseChan] \/ a = [ARecovered]) /\ st_live s' = st_live s /\ st_gen s' = st_gen s /\ st_pc s' = st_pc s.
Proof.
  intros ST NR. destruct l; simpl in ST.
  - destruct (Nat.eqb _ 0); inversion ST; subst; simpl; auto.
  - destruct (Nat.ltb _ 3); inversion ST; subst; simpl; auto.
  - destruct who; [|destruct (option_eqb _ _ _)]; inversion ST; subst; simpl; auto.
  - inversion ST; subst; simpl; auto.
  - destruct (st_phase s) eqn:EP; try (inversion ST; subst; simpl; now auto);
      apply shut_close_shape in ST as [H1 [H2 [H3 [H4 _]]]];
      destruct (shut_check_shape s) as [K1 [K2 [K3 _]]]; rewrite H2, H3, H4; auto.
  - inversion ST; subst. destruct (shut_check_shape s) as [K1 [K2 [K3 _]]]. auto.
  - apply shut_close_shape in ST as [H1 [H2 [H3 [H4 _]]]]. auto.
  - discriminate.
Qed.

Lemma InvL_step o s log l s' a : InvC s log -> InvL o s log -> step o s l = (s', a) -> InvL o s' (log ++ a).
Proof.
  intros C I ST.
  destruct l; try (destruct (env_step_shape o s _ s' a ST eq_refl) as [[->|[->| ->]] [E1 _]];
                    eapply (InvL_neutral o s); eauto; fail).
  simpl in ST. eapply InvL_run; eauto.
Qed.

Lemma InvL_init o : InvL o init [].
Proof. constructor; reflexivity. Qed.

Lemma reach_InvL o P s log : reach o P s log -> InvL o s log.
Proof.
  induction 1; [apply InvL_init|]. eapply InvL_step; eauto. eapply reach_InvC; eauto.
Qed.

(* ---- counting: every component is shut down at most once, and exactly once when retired ------ *)
Record InvN (o : oracle) (s : cstate) (log : list action) : Prop := {
  N_lt : forall g, st_live s = Some g -> g < st_gen s;
  N_future : forall g c, st_gen s <= g -> count (is_start g c) log = 0 /\ count (is_shut g c) log = 0;
  N_shut_le : forall g c, count (is_shut g c) log <= 1;
  N_start_le : forall g c, count (is_start g c) log <= 1;
  N_live_noshut : forall g c, st_live s = Some g -> count (is_shut g c) log = 0;
  N_retired : forall g c, st_live s <> Some g -> count (is_start g c) log >= 1 -> count (is_shut g c) log = 1;
  N_start_lt : forall g c, count (is_start g c) log >= 1 -> c < ncomp (cfg_of o g)
}.

Lemma InvN_neutral o s log a s' :
  st_live s' = st_live s -> st_gen s' = st_gen s ->
  (forall g c, count (is_start g c) a = 0 /\ count (is_shut g c) a = 0) ->
  InvN o s log -> InvN o s' (log ++ a).
Proof.
  intros E1 E2 Z [H1 H2 H3 H4 H5 H6 H7].
  constructor; intros; rewrite ?count_app in *;
    try (destruct (Z g c) as [Z1 Z2]; rewrite ?Z1, ?Z2 in *; rewrite ?Nat.add_0_r in *);
    rewrite ?E1, ?E2 in *; auto.
Qed.

Lemma neutral_counts a : forallb neutral a = true -> forall g c, count (is_start g c) a = 0 /\ count (is_shut g c) a = 0.
Proof.
  intros N g c. induction a as [|x a IH]; [split; reflexivity|].
  simpl in N. apply andb_true_iff in N as [N1 N2]. destruct (IH N2) as [I1 I2].
  rewrite !count_cons, I1, I2. destruct x; simpl in *; try discriminate; auto.
Qed.

(* a sweep of the live generation g0 *)
Lemma InvN_sweep o s log a s' g0 :
  st_live s = Some g0 -> st_live s' = None -> st_gen s' = st_gen s ->
  (forall g c, count (is_start g c) a = 0) ->
  (forall g c, count (is_shut g c) a = if Nat.eqb g g0 then (if c <? ncomp (cfg_of o g0) then 1 else 0) else 0) ->
  InvN o s log -> InvN o s' (log ++ a).
Proof.
  intros L0 L1 E2 ZS ZH [H1 H2 H3 H4 H5 H6 H7].
  pose proof (H1 _ L0) as LT.
  constructor; intros; rewrite ?count_app, ?ZS, ?ZH, ?Nat.add_0_r in *; rewrite ?E2 in *; auto.
  - rewrite L1 in H. discriminate.
  - destruct (H2 g c H) as [F1 F2]. split; auto.
    destruct (Nat.eqb_spec g g0); [lia|]. lia.
  - destruct (Nat.eqb_spec g g0) as [->|NE].
    + rewrite (H5 g0 c L0). destruct (c <? _); lia.
    + pose proof (H3 g c). lia.
  - rewrite L1 in H. discriminate.
  - destruct (Nat.eqb_spec g g0) as [->|NE].
    + rewrite (H5 g0 c L0). pose proof (H7 g0 c H0) as LC. apply Nat.ltb_lt in LC. now rewrite LC.
    + rewrite Nat.add_0_r. apply H6; auto. rewrite L0. congruence.
Qed.

Lemma sweep_tail_counts o g tail :
  forallb neutral tail = true ->
  (forall g' c, count (is_start g' c) (fst (svc_shutdown g (cfg_of o g)) ++ tail) = 0) /\
  (forall g' c, count (is_shut g' c) (fst (svc_shutdown g (cfg_of o g)) ++ tail) =
                if Nat.eqb g' g then (if c <? ncomp (cfg_of o g) then 1 else 0) else 0).
Proof.
  intros N. split; intros g' c; destruct (neutral_counts tail N g' c) as [T1 T2];
    rewrite count_app, ?T1, ?T2, ?sweep_start, ?sweep_shut; lia.
Qed.

Lemma InvN_run o s log b s' a : InvC s log -> InvN o s log -> run_step o s b = (s', a) -> InvN o s' (log ++ a).
Proof.
  intros C I ST. unfold run_step in ST.
  destruct (st_pc s) eqn:EPC.
  - inversion ST; subst. eapply (InvN_neutral o s); eauto; apply neutral_counts; reflexivity.
  - (* PSetup *)
    pose proof (C_live0 _ _ C) as HL. rewrite EPC in HL. specialize (HL eq_refl).
    destruct (setup o (st_gen s) (st_open s)) as [[acts err] open'] eqn:ES.
    apply setup_cases in ES as [body [-> SH]].
    set (g0 := st_gen s) in *.
    assert (forall tail g c, forallb neutral tail = true ->
              count (is_start g c) ((closes_of (st_open s) ++ body) ++ tail) = count (is_start g c) body /\
              count (is_shut g c) ((closes_of (st_open s) ++ body) ++ tail) = count (is_shut g c) body) as B.
    { intros tail g c N. destruct (neutral_counts tail N g c) as [T1 T2].
      destruct (neutral_counts _ (closes_neutral (st_open s)) g c) as [T3 T4].
      rewrite !count_app, T1, T2, T3, T4. lia. }
    destruct I as [H1 H2 H3 H4 H5 H6 H7].
    assert (forall s1 tail, forallb neutral tail = true -> st_gen s1 = S g0 ->
              st_live s1 = match err with None => Some g0 | Some _ => None end ->
              InvN o s1 (log ++ (closes_of (st_open s) ++ body) ++ tail)) as K.
    { intros s1 tail N EG EL.
      constructor; intros; rewrite ?(count_app _ log) in *.
      - rewrite EL in H. destruct err; inversion H; subst. lia.
      - rewrite EG in H. destruct (B tail g c N) as [B1 B2]. rewrite B1, B2.
        destruct (shape_other _ _ _ _ SH g c ltac:(lia)) as [O1 O2].
        destruct (H2 g c ltac:(unfold g0 in *; lia)) as [F1 F2]. rewrite O1, O2, F1, F2. auto.
      - destruct (B tail g c N) as [B1 B2]. rewrite B2.
        destruct (Nat.eq_dec g g0) as [->|NE].
        + destruct (H2 g0 c (le_n _)) as [F1 F2]. rewrite F2.
          destruct err as [e|].
          * destruct (shape_own_shut_fail _ _ _ _ SH c ltac:(discriminate)). lia.
          * rewrite (shape_own_shut_ok _ _ _ _ SH c eq_refl). lia.
        + destruct (shape_other _ _ _ _ SH g c NE) as [O1 O2]. rewrite O2. pose proof (H3 g c). lia.
      - destruct (B tail g c N) as [B1 B2]. rewrite B1.
        destruct (Nat.eq_dec g g0) as [->|NE].
        + destruct (H2 g0 c (le_n _)) as [F1 F2]. rewrite F1.
          destruct (shape_own_start _ _ _ _ SH c). lia.
        + destruct (shape_other _ _ _ _ SH g c NE) as [O1 O2]. rewrite O1. pose proof (H4 g c). lia.
      - rewrite EL in H. destruct err; inversion H; subst.
        destruct (B tail g0 c N) as [B1 B2]. rewrite B2.
        destruct (H2 g0 c (le_n _)) as [F1 F2]. rewrite F2, (shape_own_shut_ok _ _ _ _ SH c eq_refl). reflexivity.
      - destruct (B tail g c N) as [B1 B2]. rewrite B1 in H0. rewrite B2.
        destruct (Nat.eq_dec g g0) as [->|NE].
        + destruct (H2 g0 c (le_n _)) as [F1 F2]. rewrite F1 in H0. rewrite F2.
          destruct err as [e|].
          * destruct (shape_own_shut_fail _ _ _ _ SH c ltac:(discriminate)) as [_ X]. simpl in *. rewrite X; lia.
          * exfalso. apply H. now rewrite EL.
        + destruct (shape_other _ _ _ _ SH g c NE) as [O1 O2]. rewrite O1 in H0. rewrite O2.
          rewrite Nat.add_0_r in *. apply H6; auto. rewrite HL. discriminate.
      - destruct (B tail g c N) as [B1 B2]. rewrite B1 in H.
        destruct (Nat.eq_dec g g0) as [->|NE].
        + destruct (H2 g0 c (le_n _)) as [F1 F2]. rewrite F1 in H.
          destruct (shape_own_start _ _ _ _ SH c) as [_ X]. apply X. lia.
        + destruct (shape_other _ _ _ _ SH g c NE) as [O1 O2]. rewrite O1 in H. apply H7. lia. }
    destruct err as [e|].
    + destruct initial; destruct e; inversion ST; subst; apply K; auto.
    + inversion ST; subst. apply K; auto.
  - (* PSelect *)
    assert (InvN o s (log ++ [])) as I0 by now rewrite app_nil_r.
    unfold take in ST. destruct b.
    + destruct (st_watch s) as [|e r]; [inversion ST; subst; assumption|].
      destruct e; inversion ST; subst; (eapply (InvN_neutral o s); [| | |eassumption]; try reflexivity; apply neutral_counts; reflexivity).
    + destruct (st_async s) as [|e r]; [inversion ST; subst; assumption|].
      inversion ST; subst; (eapply (InvN_neutral o s); [| | |eassumption]; try reflexivity; apply neutral_counts; reflexivity).
    + destruct (st_sigs s) as [|e r]; [inversion ST; subst; assumption|].
      destruct e; inversion ST; subst; (eapply (InvN_neutral o s); [| | |eassumption]; try reflexivity; apply neutral_counts; reflexivity).
    + destruct (st_chan_closed s); [|inversion ST; subst; assumption].
      inversion ST; subst; (eapply (InvN_neutral o s); [| | |eassumption]; try reflexivity; apply neutral_counts; reflexivity).
    + destruct (st_ctx_done s); [|inversion ST; subst; assumption].
      inversion ST; subst; (eapply (InvN_neutral o s); [| | |eassumption]; try reflexivity; apply neutral_counts; reflexivity).
  - (* PReload *)
    pose proof (C_live1 _ _ C) as HL. rewrite EPC in HL. destruct (HL eq_refl) as [g Hg].
    unfold live_gen in ST. rewrite Hg in ST.
    destruct (svc_shutdown g (cfg_of o g)) as [acts ok] eqn:ESW.
    assert (acts = fst (svc_shutdown g (cfg_of o g))) as EA by now rewrite ESW.
    destruct ok; inversion ST; subst.
    * destruct (sweep_tail_counts o g [ASetState Starting] eq_refl) as [B1 B2].
      eapply (InvN_sweep o s); eauto.
    * destruct (sweep_tail_counts o g [AReturn RErrRetire] eq_refl) as [B1 B2].
      eapply (InvN_sweep o s); eauto.
  - (* PFinal *)
    pose proof (C_live1 _ _ C) as HL. rewrite EPC in HL. destruct (HL eq_refl) as [g Hg].
    unfold live_gen in ST. rewrite Hg in ST. try fold (final_prefix s) in ST.
    destruct (svc_shutdown g (cfg_of o g)) as [acts ok] eqn:ESW.
    assert (acts = fst (svc_shutdown g (cfg_of o g))) as EA by now rewrite ESW.
    inversion ST; subst.
    match goal with |- InvN _ _ (_ ++ ?p ++ _ ++ ?t) =>
      destruct (sweep_tail_counts o g t eq_refl) as [B1 B2];
      assert (forallb neutral p = true) as NP by (rewrite forallb_app, fprefix_neutral; reflexivity);
      pose proof (neutral_counts p NP) as NC
    end.
    eapply (InvN_sweep o s); eauto.
    * intros g' c. destruct (NC g' c) as [X1 X2]. rewrite count_app, X1, B1. reflexivity.
    * intros g' c. destruct (NC g' c) as [X1 X2]. rewrite count_app, X2, B2. reflexivity.
  - inversion ST; subst. now rewrite app_nil_r.
  - inversion ST; subst. now rewrite app_nil_r.
Qed.

Lemma InvN_step o s log l s' a : InvC s log -> InvN o s log -> step o s l = (s', a) -> InvN o s' (log ++ a).
Proof.
  intros C I ST.
  destruct l; try (destruct (env_step_shape o s _ s' a ST eq_refl) as [[->|[->| ->]] [E1 [E2 _]]];
                    eapply (InvN_neutral o s); eauto; apply neutral_counts; reflexivity).
  simpl in ST. eapply InvN_run; eauto.
Qed.

Lemma InvN_init o : InvN o init [].
Proof. constructor; simpl; intros; try discriminate; try (split; reflexivity); unfold count in *; simpl in *; lia. Qed.

Lemma reach_InvN o P s log : reach o P s log -> InvN o s log.
Proof.
  induction 1; [apply InvN_init|]. eapply InvN_step; eauto. eapply reach_InvC; eauto.
Qed.
