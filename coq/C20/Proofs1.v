(* C20/Proofs1.v — list / counting lemmas and the facts about the action blocks of the service
   (svc_new, svc_start, svc_shutdown, setup). *)
From Verif Require Import Common.Base C20.Model.

(* ---- run ------------------------------------------------------------------------------------ *)
Lemma run_app o s l1 l2 :
  run o s (l1 ++ l2) =
  let '(s1, a1) := run o s l1 in let '(s2, a2) := run o s1 l2 in (s2, a1 ++ a2).
Proof.
  revert s. induction l1 as [|l l1 IH]; intros s; simpl.
  - destruct (run o s l2); reflexivity.
  - destruct (step o s l) as [s1 a1]. rewrite IH.
    destruct (run o s1 l1) as [s2 a2]. destruct (run o s2 l2) as [s3 a3].
    now rewrite app_assoc.
Qed.

(* reachable (state, log) pairs through labels satisfying P *)
Inductive reach (o : oracle) (P : label -> Prop) : cstate -> list action -> Prop :=
| reach_init : reach o P init []
| reach_step s log l s' a :
    reach o P s log -> P l -> step o s l = (s', a) -> reach o P s' (log ++ a).

Lemma run_reach_from o (P : label -> Prop) ls :
  forall s log, reach o P s log -> (forall l, In l ls -> P l) ->
  reach o P (fst (run o s ls)) (log ++ snd (run o s ls)).
Proof.
  induction ls as [|l ls IH]; intros s log R HP; simpl.
  - now rewrite app_nil_r.
  - destruct (step o s l) as [s1 a1] eqn:E.
    specialize (IH s1 (log ++ a1)).
    destruct (run o s1 ls) as [s2 a2] eqn:E2. simpl in *.
    rewrite app_assoc. apply IH.
    + eapply reach_step; eauto.
    + intros; apply HP; auto.
Qed.

Lemma run_reach o (P : label -> Prop) ls :
  (forall l, In l ls -> P l) -> reach o P (fst (run o init ls)) (snd (run o init ls)).
Proof. intros H. apply (run_reach_from o P ls init [] (reach_init o P) H). Qed.

Lemma reach_weaken o (P Q : label -> Prop) s log :
  (forall l, P l -> Q l) -> reach o P s log -> reach o Q s log.
Proof. intros H R. induction R; econstructor; eauto. Qed.

(* ---- counting ------------------------------------------------------------------------------- *)
Lemma count_app f l1 l2 : count f (l1 ++ l2) = count f l1 + count f l2.
Proof. unfold count. now rewrite filter_app, app_length. Qed.

Lemma count_nil f : count f [] = 0. Proof. reflexivity. Qed.

Lemma count_cons f a l : count f (a :: l) = (if f a then 1 else 0) + count f l.
Proof. unfold count; simpl. destruct (f a); reflexivity. Qed.

Lemma count_map_none {A} f (h : A -> action) l :
  (forall x, f (h x) = false) -> count f (map h l) = 0.
Proof. intros H. induction l as [|x l IH]; auto. simpl. rewrite count_cons, H, IH. reflexivity. Qed.

Definition cnt (c : nat) (l : list nat) : nat := length (filter (Nat.eqb c) l).

Lemma cnt_app c l1 l2 : cnt c (l1 ++ l2) = cnt c l1 + cnt c l2.
Proof. unfold cnt. now rewrite filter_app, app_length. Qed.

Lemma cnt_cons c x l : cnt c (x :: l) = (if Nat.eqb c x then 1 else 0) + cnt c l.
Proof. unfold cnt; simpl. destruct (Nat.eqb c x); reflexivity. Qed.

Lemma cnt_seq c n : forall a, cnt c (seq a n) = if (a <=? c) && (c <? a + n) then 1 else 0.
Proof.
  induction n as [|n IH]; intros a.
  - unfold cnt; cbn [seq filter length].
    destruct (Nat.leb_spec a c); destruct (Nat.ltb_spec c (a + 0)); cbn [andb]; auto; lia.
  - cbn [seq]. rewrite cnt_cons, IH.
    destruct (Nat.eqb_spec c a); destruct (Nat.leb_spec (S a) c); destruct (Nat.ltb_spec c (S a + n));
      destruct (Nat.leb_spec a c); destruct (Nat.ltb_spec c (a + S n)); cbn [andb]; auto; lia.
Qed.

Lemma cnt_rev c l : cnt c (rev l) = cnt c l.
Proof. induction l as [|x l IH]; auto. cbn [rev]. rewrite cnt_app, IH, !cnt_cons. change (cnt c []) with 0. lia. Qed.

Lemma cnt_seq0 c n : cnt c (seq 0 n) = if c <? n then 1 else 0.
Proof. rewrite cnt_seq. simpl. reflexivity. Qed.

Lemma cnt_le_1_seq c a n : cnt c (seq a n) <= 1.
Proof. rewrite cnt_seq. destruct (_ && _); lia. Qed.

Lemma cnt_pos_In c l : cnt c l >= 1 -> In c l.
Proof.
  induction l as [|x l IH]; simpl; [unfold cnt; simpl; lia|].
  rewrite cnt_cons. destruct (Nat.eqb c x) eqn:E.
  - apply Nat.eqb_eq in E. auto.
  - intros H. right. apply IH. simpl in H. exact H.
Qed.

Lemma upto_cnt k l c : cnt c (fst (upto k l)) <= cnt c l.
Proof.
  induction l as [|x l IH]; simpl; auto.
  destruct (Nat.eqb x k) eqn:E; simpl.
  - unfold cnt at 1. simpl. lia.
  - destruct (upto k l) as [a b]. simpl in *. rewrite !cnt_cons. lia.
Qed.

Lemma upto_incl k l : incl (fst (upto k l)) l.
Proof.
  induction l as [|x l IH]; simpl; [intros y []|].
  destruct (Nat.eqb x k); simpl; [intros y []|].
  destruct (upto k l) as [a b]. simpl in *. intros y [<-|H]; [now left|right; auto].
Qed.

Lemma upto_not_k k l : cnt k (fst (upto k l)) = 0.
Proof.
  induction l as [|x l IH]; simpl; auto.
  destruct (Nat.eqb x k) eqn:E; simpl; auto.
  destruct (upto k l) as [a b]. simpl in *. rewrite cnt_cons.
  rewrite Nat.eqb_sym, E. simpl. exact IH.
Qed.

Lemma upto_found k l : snd (upto k l) = true -> In k l.
Proof.
  induction l as [|x l IH]; simpl; [discriminate|].
  destruct (Nat.eqb x k) eqn:E; simpl.
  - apply Nat.eqb_eq in E. auto.
  - destruct (upto k l) as [a b]. simpl in *. auto.
Qed.

Lemma upto_notfound k l : snd (upto k l) = false -> fst (upto k l) = l.
Proof.
  induction l as [|x l IH]; simpl; auto.
  destruct (Nat.eqb x k) eqn:E; simpl; [discriminate|].
  destruct (upto k l) as [a b]. simpl in *. intros H. now rewrite IH.
Qed.

(* counts of start / shutdown actions in mapped lists *)
Lemma count_start_map g c g' (h : nat -> bool) l :
  count (is_start g c) (map (fun x => AStart g' x (h x)) l) = if Nat.eqb g g' then cnt c l else 0.
Proof.
  induction l as [|x l IH]; simpl.
  - destruct (Nat.eqb g g'); reflexivity.
  - rewrite count_cons, IH. simpl. destruct (Nat.eqb g g'); simpl; auto. rewrite cnt_cons. reflexivity.
Qed.

Lemma count_shut_map g c g' (h : nat -> bool) l :
  count (is_shut g c) (map (fun x => AShutdown g' x (h x)) l) = if Nat.eqb g g' then cnt c l else 0.
Proof.
  induction l as [|x l IH]; simpl.
  - destruct (Nat.eqb g g'); reflexivity.
  - rewrite count_cons, IH. simpl. destruct (Nat.eqb g g'); simpl; auto. rewrite cnt_cons. reflexivity.
Qed.

(* ---- states_of ------------------------------------------------------------------------------ *)
Lemma states_of_app l1 l2 : states_of (l1 ++ l2) = states_of l1 ++ states_of l2.
Proof. unfold states_of. apply flat_map_app. Qed.

Definition not_setstate (a : action) : bool := match a with ASetState _ => false | _ => true end.

Lemma states_of_none l : forallb not_setstate l = true -> states_of l = [].
Proof.
  induction l as [|a l IH]; simpl; auto. intros H. apply andb_true_iff in H as [H1 H2].
  destruct a; simpl in *; try discriminate; auto.
Qed.

Lemma forallb_map {A B} (f : B -> bool) (h : A -> B) l : (forall x, f (h x) = true) -> forallb f (map h l) = true.
Proof. intros H. induction l; simpl; auto. now rewrite H, IHl. Qed.

Lemma phase_word_app l1 l2 : phase_word (l1 ++ l2) = fold_left pdelta l2 (phase_word l1).
Proof. unfold phase_word. apply fold_left_app. Qed.

(* ---- live_after / no_overlap ------------------------------------------------------------------ *)
Lemma live_after_app acc l1 l2 : live_after acc (l1 ++ l2) = live_after (live_after acc l1) l2.
Proof. unfold live_after. apply fold_left_app. Qed.

Lemma live_after_cons acc a l : live_after acc (a :: l) = live_after (live_step acc a) l.
Proof. reflexivity. Qed.

Lemma live_after_nil acc : live_after acc [] = acc.
Proof. reflexivity. Qed.

Lemma no_overlap_app l1 : forall acc l2,
  no_overlap acc (l1 ++ l2) = no_overlap acc l1 && no_overlap (live_after acc l1) l2.
Proof.
  induction l1 as [|a l1 IH]; intros acc l2; simpl; auto.
  rewrite IH. now rewrite andb_assoc.
Qed.

Definition neutral (a : action) : bool :=
  match a with ACreate _ _ | AStart _ _ _ | AShutdown _ _ _ => false | _ => true end.

Lemma live_after_neutral l : forall acc, forallb neutral l = true -> live_after acc l = acc.
Proof.
  induction l as [|a l IH]; intros acc H; simpl; auto.
  simpl in H. apply andb_true_iff in H as [H1 H2].
  unfold live_after in *. simpl. rewrite IH; auto. destruct a; simpl in *; try discriminate; auto.
Qed.

Lemma no_overlap_neutral l : forall acc, forallb neutral l = true -> no_overlap acc l = true.
Proof.
  induction l as [|a l IH]; intros acc H; simpl; auto.
  simpl in H. apply andb_true_iff in H as [H1 H2].
  rewrite IH; auto. destruct a; simpl in *; try discriminate; auto.
Qed.

Lemma live_after_creates g l acc : live_after acc (map (ACreate g) l) = acc.
Proof. induction l; simpl; auto. Qed.

Lemma no_overlap_creates g l acc :
  forallb (fun p => Nat.eqb (fst p) g) acc = true -> no_overlap acc (map (ACreate g) l) = true.
Proof. intros H. induction l; simpl; auto. now rewrite H, IHl. Qed.

Lemma live_after_starts g l : forall acc,
  live_after acc (map (fun x => AStart g x true) l) = acc ++ map (pair g) l.
Proof.
  induction l as [|x l IH]; intros acc; simpl; [now rewrite app_nil_r|].
  unfold live_after in *. simpl. rewrite IH. now rewrite <- app_assoc.
Qed.

Lemma forallb_app' {A} (f : A -> bool) l1 l2 : forallb f (l1 ++ l2) = forallb f l1 && forallb f l2.
Proof. apply forallb_app. Qed.

Lemma no_overlap_starts g l : forall acc,
  forallb (fun p => Nat.eqb (fst p) g) acc = true ->
  no_overlap acc (map (fun x => AStart g x true) l) = true.
Proof.
  induction l as [|x l IH]; intros acc H; simpl; auto.
  rewrite H. simpl. apply IH. rewrite forallb_app, H. simpl. now rewrite Nat.eqb_refl.
Qed.

(* a sweep of shutdowns removes exactly the swept components of that generation *)
Lemma live_after_shuts g (h : nat -> bool) l : forall acc,
  live_after acc (map (fun x => AShutdown g x (h x)) l) =
  filter (fun p => negb (Nat.eqb g (fst p) && memb (snd p) l)) acc.
Proof.
  induction l as [|x l IH]; intros acc; simpl.
  - unfold live_after. simpl. induction acc as [|p acc IHa]; simpl; auto.
    rewrite andb_false_r. simpl. now rewrite <- IHa.
  - unfold live_after in *. simpl. rewrite IH. unfold pair_remove.
    induction acc as [|p acc IHa]; simpl; auto.
    destruct (Nat.eqb g (fst p)) eqn:E1; simpl.
    + rewrite (Nat.eqb_sym (snd p) x). destruct (Nat.eqb x (snd p)) eqn:E2; simpl; auto.
      rewrite E1. simpl. destruct (memb (snd p) l); simpl; auto. now rewrite IHa.
    + rewrite E1. simpl. now rewrite IHa.
Qed.

Lemma no_overlap_shuts g (h : nat -> bool) l : forall acc,
  no_overlap acc (map (fun x => AShutdown g x (h x)) l) = true.
Proof. induction l as [|x l IH]; intros acc; simpl; auto. Qed.

Lemma memb_In c l : memb c l = true <-> In c l.
Proof.
  unfold memb. rewrite existsb_exists. split.
  - intros [x [H1 H2]]. apply Nat.eqb_eq in H2. now subst.
  - intros H. exists c. split; auto. apply Nat.eqb_refl.
Qed.

Lemma filter_all_false {A} (f : A -> bool) l : (forall x, In x l -> f x = false) -> filter f l = [].
Proof.
  induction l as [|x l IH]; simpl; auto. intros H.
  rewrite (H x (or_introl eq_refl)). apply IH. intros; apply H; auto.
Qed.

(* sweeping all of [l] empties a live set made of generation-g components drawn from [l] *)
Lemma live_after_sweep_empty g (h : nat -> bool) l pre :
  incl pre l ->
  live_after (map (pair g) pre) (map (fun x => AShutdown g x (h x)) l) = [].
Proof.
  intros HI. rewrite live_after_shuts. apply filter_all_false.
  intros p Hp. apply in_map_iff in Hp as [x [<- Hx]]. simpl.
  rewrite Nat.eqb_refl. simpl. apply HI in Hx. apply memb_In in Hx. now rewrite Hx.
Qed.

Lemma forallb_pair_gen g l : forallb (fun p : nat * nat => Nat.eqb (fst p) g) (map (pair g) l) = true.
Proof. induction l; simpl; auto. now rewrite Nat.eqb_refl. Qed.

(* ---- the shape of a bring-up block --------------------------------------------------------- *)
Definition closes_of (open : option nat) : list action :=
  match open with Some h => [AClose h] | None => [] end.

Inductive setup_shape (o : oracle) (g : nat) : list action -> option result -> Prop :=
| shape_early getok cr e :            (* failed before service.Start: nothing started *)
    setup_shape o g (AGet g getok :: map (ACreate g) cr) (Some e)
| shape_ok :
    setup_shape o g (AGet g true :: map (ACreate g) (create_order (cfg_of o g))
                       ++ map (fun x => AStart g x true) (start_order (cfg_of o g))) None
| shape_startfail pre k :
    incl pre (start_order (cfg_of o g)) -> In k (start_order (cfg_of o g)) ->
    cnt k pre = 0 -> (forall c, cnt c pre <= 1) ->
    setup_shape o g (AGet g true :: map (ACreate g) (create_order (cfg_of o g))
                       ++ (map (fun x => AStart g x true) pre ++ [AStart g k false])
                       ++ fst (svc_shutdown g (cfg_of o g))) (Some RErrStart).

Lemma setup_cases o g open acts err open' :
  setup o g open = (acts, err, open') ->
  exists body, acts = closes_of open ++ body /\ setup_shape o g body err.
Proof.
  unfold setup. fold (closes_of open).
  destruct (outcome (cfg_of o g)) eqn:EO.
  - (* BOk *)
    unfold svc_new, svc_start. rewrite EO. simpl. intros H. inversion H; subst.
    eexists; split; [reflexivity|]. apply shape_ok.
  - intros H. inversion H; subst. eexists; split; [reflexivity|]. apply (shape_early o g false []).
  - intros H. inversion H; subst. eexists; split; [reflexivity|]. apply (shape_early o g true []).
  - (* BBuildFails *)
    unfold svc_new, svc_start. rewrite EO.
    destruct (upto c (create_order (cfg_of o g))) as [pre found] eqn:EU.
    destruct found; simpl; intros H; inversion H; subst.
    + eexists; split; [reflexivity|]. apply shape_early.
    + eexists; split; [reflexivity|].
      assert (pre = create_order (cfg_of o g)) as ->.
      { pose proof (upto_notfound c (create_order (cfg_of o g))) as HN. rewrite EU in HN. simpl in HN. auto. }
      apply shape_ok.
  - (* BStartFails *)
    unfold svc_new, svc_start. rewrite EO.
    destruct (upto c (start_order (cfg_of o g))) as [pre found] eqn:EU.
    destruct found; simpl; intros H; inversion H; subst.
    + eexists; split; [reflexivity|].
      pose proof (upto_incl c (start_order (cfg_of o g))) as HI.
      pose proof (upto_found c (start_order (cfg_of o g))) as HF.
      pose proof (upto_not_k c (start_order (cfg_of o g))) as HK.
      rewrite EU in *. simpl in *.
      apply shape_startfail; auto.
      intros c0. pose proof (upto_cnt c (start_order (cfg_of o g)) c0) as HC. rewrite EU in HC. simpl in HC.
      unfold start_order in *. pose proof (cnt_le_1_seq c0 0 (ncomp (cfg_of o g))). lia.
    + eexists; split; [reflexivity|].
      assert (pre = start_order (cfg_of o g)) as ->.
      { pose proof (upto_notfound c (start_order (cfg_of o g))) as HN. rewrite EU in HN. simpl in HN. auto. }
      rewrite app_nil_r. apply shape_ok.
Qed.

Lemma setup_open o g open acts err open' :
  setup o g open = (acts, err, open') ->
  open' = match outcome (cfg_of o g) with BGetFails => None | _ => Some g end.
Proof.
  unfold setup. destruct (outcome (cfg_of o g)) eqn:EO; try (intros H; inversion H; reflexivity).
  - unfold svc_new, svc_start. rewrite EO. simpl. intros H; inversion H; reflexivity.
  - destruct (svc_new g (cfg_of o g)) as [cr ok1]. destruct (negb ok1).
    + intros H; inversion H; reflexivity.
    + destruct (svc_start g (cfg_of o g)) as [sa ok2]. destruct (negb ok2); intros H; inversion H; reflexivity.
  - destruct (svc_new g (cfg_of o g)) as [cr ok1]. destruct (negb ok1).
    + intros H; inversion H; reflexivity.
    + destruct (svc_start g (cfg_of o g)) as [sa ok2]. destruct (negb ok2); intros H; inversion H; reflexivity.
Qed.

(* ---- facts about the blocks ------------------------------------------------------------------ *)
Ltac cnt_simpl :=
  repeat (rewrite ?count_app, ?count_cons, ?count_start_map, ?count_shut_map, ?count_nil);
  rewrite ?count_map_none by (intros; reflexivity);
  cbn [is_start is_shut is_prov_shut is_close_chan is_return is_close].

Lemma sweep_unfold g c :
  fst (svc_shutdown g c) = ANotReady g :: map (fun x => AShutdown g x (negb (memb x (shut_fail c)))) (shut_order c).
Proof. reflexivity. Qed.

Lemma sweep_states g c : states_of (fst (svc_shutdown g c)) = [].
Proof. rewrite sweep_unfold. apply states_of_none. simpl. apply forallb_map. reflexivity. Qed.

Lemma sweep_misc g c f :
  (forall a, neutral a = false -> f a = false) -> f (ANotReady g) = false ->
  count f (fst (svc_shutdown g c)) = 0.
Proof.
  intros H H0. rewrite sweep_unfold, count_cons, H0. simpl. apply count_map_none. intros; apply H; reflexivity.
Qed.

Lemma sweep_start g c g' c' : count (is_start g' c') (fst (svc_shutdown g c)) = 0.
Proof. rewrite sweep_unfold. cnt_simpl. reflexivity. Qed.

Lemma sweep_shut g c g' c' :
  count (is_shut g' c') (fst (svc_shutdown g c)) = if Nat.eqb g' g then (if c' <? ncomp c then 1 else 0) else 0.
Proof.
  rewrite sweep_unfold. cnt_simpl. simpl. destruct (Nat.eqb g' g); auto.
  unfold shut_order. now rewrite cnt_rev, cnt_seq0.
Qed.

Lemma sweep_live g c pre :
  incl pre (start_order c) -> live_after (map (pair g) pre) (fst (svc_shutdown g c)) = [].
Proof.
  intros HI. rewrite sweep_unfold. unfold live_after. simpl. fold (live_after (map (pair g) pre)).
  apply live_after_sweep_empty. unfold shut_order, start_order in *. intros x Hx. apply in_rev. rewrite rev_involutive. auto.
Qed.

Lemma sweep_no_overlap g c acc : no_overlap acc (fst (svc_shutdown g c)) = true.
Proof. rewrite sweep_unfold. simpl. apply no_overlap_shuts. Qed.

Section Shape.
Variable o : oracle.
Variable g : nat.
Variables (body : list action) (err : option result).
Hypothesis SH : setup_shape o g body err.

Lemma shape_states : states_of body = [].
Proof.
  destruct SH; apply states_of_none; simpl; rewrite ?forallb_app; simpl;
    rewrite ?forallb_map by reflexivity; auto.
Qed.

Lemma shape_misc f :
  (forall a, neutral a = false -> f a = false) -> (forall gg b, f (AGet gg b) = false) ->
  (forall gg, f (ANotReady gg) = false) -> count f body = 0.
Proof.
  intros H HG HN.
  destruct SH; rewrite ?count_cons, ?count_app, ?HG; simpl;
    rewrite ?count_map_none by (intros; apply H; reflexivity); auto.
  rewrite count_cons, count_nil, (H (AStart g k false) eq_refl). simpl.
  apply sweep_misc; auto.
Qed.

Lemma shape_other g' c : g' <> g -> count (is_start g' c) body = 0 /\ count (is_shut g' c) body = 0.
Proof.
  intros NE. apply Nat.eqb_neq in NE.
  destruct SH; cnt_simpl; rewrite ?sweep_start, ?sweep_shut, ?NE; simpl; auto.
Qed.

Lemma shape_own_start c :
  count (is_start g c) body <= 1 /\ (count (is_start g c) body >= 1 -> c < ncomp (cfg_of o g)).
Proof.
  destruct SH; cnt_simpl; rewrite ?sweep_start, ?Nat.eqb_refl; simpl.
  - split; lia.
  - unfold start_order. rewrite cnt_seq0. destruct (Nat.ltb_spec c (ncomp (cfg_of o g))); split; lia.
  - destruct (Nat.eqb_spec c k) as [->|NE].
    + rewrite H1. split; [lia|]. intros _. unfold start_order in H0. apply in_seq in H0. lia.
    + pose proof (H2 c). split; [lia|]. intros HP.
      assert (In c pre) as HI by (apply cnt_pos_In; lia).
      apply H in HI. unfold start_order in HI. apply in_seq in HI. lia.
Qed.

Lemma shape_own_shut_ok c : err = None -> count (is_shut g c) body = 0.
Proof. intros E. destruct SH; try discriminate. cnt_simpl. reflexivity. Qed.

Lemma shape_own_start_ok c : err = None -> c < ncomp (cfg_of o g) -> count (is_start g c) body = 1.
Proof.
  intros E HC. destruct SH; try discriminate. cnt_simpl. rewrite Nat.eqb_refl. unfold start_order.
  rewrite cnt_seq0. apply Nat.ltb_lt in HC. now rewrite HC.
Qed.

Lemma shape_own_shut_fail c :
  err <> None -> count (is_shut g c) body <= 1 /\ (count (is_start g c) body >= 1 -> count (is_shut g c) body = 1).
Proof.
  intros E. pose proof (shape_own_start c) as [_ HS].
  destruct SH; try congruence.
  - cnt_simpl. split; lia.
  - revert HS. cnt_simpl. rewrite sweep_start, sweep_shut, !Nat.eqb_refl. simpl.
    intros HS. destruct (Nat.ltb_spec c (ncomp (cfg_of o g))); split; try lia.
Qed.

Lemma shape_live :
  live_after [] body = match err with None => map (pair g) (start_order (cfg_of o g)) | Some _ => [] end
  /\ no_overlap [] body = true.
Proof.
  destruct SH.
  - split.
    + rewrite live_after_cons. cbn [live_step]. apply live_after_creates.
    + cbn [no_overlap live_step andb]. apply no_overlap_creates. reflexivity.
  - split.
    + rewrite live_after_cons. cbn [live_step]. rewrite live_after_app, live_after_creates.
      apply (live_after_starts g _ []).
    + cbn [no_overlap live_step andb]. rewrite no_overlap_app, live_after_creates, no_overlap_creates by reflexivity.
      cbn [andb]. apply no_overlap_starts. reflexivity.
  - split.
    + rewrite live_after_cons. cbn [live_step].
      rewrite live_after_app, live_after_creates, live_after_app, live_after_app, live_after_starts.
      cbn [app]. rewrite (live_after_cons _ (AStart g k false)). cbn [live_step]. rewrite live_after_nil.
      apply sweep_live; auto.
    + cbn [no_overlap live_step andb]. rewrite no_overlap_app, live_after_creates, no_overlap_creates by reflexivity.
      cbn [andb].
      rewrite no_overlap_app, sweep_no_overlap, andb_true_r.
      rewrite no_overlap_app, no_overlap_starts by reflexivity. cbn [andb].
      rewrite live_after_starts. cbn [app no_overlap]. rewrite forallb_pair_gen. reflexivity.
Qed.

End Shape.
