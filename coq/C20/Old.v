(* C20/Old.v — DOCUMENTATION ONLY: the pre-repair behaviour of the pinned tree before commits
   98f2ce3d0 (collector keeps receiving asynchronous errors while it shuts the service down) and
   bc929f066 (resolver no longer closes the watch channel under a blocked provider notification),
   i.e. the faithful model of findings C20-FATAL-DEADLOCK and C20-WATCH-SEND-ON-CLOSED as it stood in
   Model.v until then.  Model.v follows the code as it is now; nothing in Properties.v depends on
   this file except the two regression Examples at its end, which show on the old step function the
   histories that the correspondence run keeps replaying on the implementation (v20Scripts). *)
From Verif Require Import Common.Base C20.Model.

(* a component's fatal status was SENT from inside the status reporter's critical section and nobody
   received while Run was shutting a service down: the first status report of service.Shutdown then
   blocked for ever *)
Definition svc_blocked_old (g : nat) (s : cstate) : bool := existsb (sender_eqb (SndFatal g)) (st_async s).


(* Resolver.Shutdown began with close(mr.watcher): every provider goroutine still blocked in onChange
   behind the buffered notification panicked with "send on closed channel" *)
Definition final_prefix_old (s : cstate) : list action :=
  repeat ASenderPanic (pred (length (st_watch s))) ++
  match st_open s with Some h => [AClose h] | None => [] end.


Definition run_step_old (o : oracle) (s : cstate) (b : branch) : cstate * list action :=
  match st_pc s with
  | PInit =>
      (* Run -> setupConfigurationComponents -> setCollectorState(StateStarting) *)
      (set_pc (set_phase s Starting) (PSetup true), [ASetState Starting])
  | PSetup initial =>
      let g := st_gen s in
      let '(acts, err, open) := setup o g (st_open s) in
      let s1 := set_gen s (S g) open in
      match err with
      | None => (set_pc (set_live (set_phase s1 Running) (Some g)) PSelect, acts ++ [ASetState Running])
      | Some e =>
          if initial
          then (set_pc (set_phase s1 Closed) (PDone DInitFail), acts ++ [ASetState Closed; AReturn e])
          else (set_pc s1 (PDone DReloadFail), acts ++ [AReturn (RReload e)])
      end
  | PSelect => take s b
  | PReload =>
      let g := live_gen s in
      if svc_blocked_old g s then (set_pc s PStuck, [ANotReady g])
      else
        let '(acts, ok) := svc_shutdown g (cfg_of o g) in
        if ok
        then (set_pc (set_live (set_phase s Starting) None) (PSetup false), acts ++ [ASetState Starting])
        else (set_pc (set_live s None) (PDone DRetireFail), acts ++ [AReturn RErrRetire])
  | PFinal bg =>
      let g := live_gen s in
      let pa := final_prefix_old s ++ [AProvShutdown (bg || negb (st_ctx_done s))] in
      let s1 := set_watch (set_prov s (S (st_prov_shut s)) None) (firstn 1 (st_watch s)) in
      if svc_blocked_old g s then (set_pc s1 PStuck, pa ++ [ANotReady g])
      else
        let '(acts, ok) := svc_shutdown g (cfg_of o g) in
        let r := if ok && negb (prov_shut_fails o) then RNil else RErrShutdown in
        (set_pc (set_live (set_phase s1 Closed) None) (PDone DStopped),
         pa ++ acts ++ [ASetState Closed; AReturn r])
  | PStuck => (s, [])
  | PDone _ => (s, [])
  end.


Definition step_old (o : oracle) (s : cstate) (l : label) : cstate * list action :=
  match l with
  | LInjWatch e =>
      (* providers must not notify after their Shutdown; the resolver's channel is closed then *)
      if Nat.eqb (st_prov_shut s) 0 then (set_watch s (st_watch s ++ [e]), []) else (s, [])
  | LInjSig x =>
      if Nat.ltb (length (st_sigs s)) 3 then (set_sigs s (st_sigs s ++ [x]), []) else (s, [])
  | LInjAsync w =>
      (* a component can report StatusFatalError only while its service is the started one: before
         Start there is no component, after Shutdown its state machine refuses the transition *)
      match w with
      | SndPlain => (set_async s (st_async s ++ [w]), [])
      | SndFatal g =>
          if option_eqb Nat.eqb (st_live s) (Some g) then (set_async s (st_async s ++ [w]), []) else (s, [])
      end
  | LCancel => (set_ctx s, [])
  | LShutCheck => (shut_check s, [])
  | LShutClose => shut_close s
  | LShutdownCall =>
      match st_phase s with
      | Running | Starting => shut_close (shut_check s)
      | _ => (s, [])
      end
  | LRun b => run_step_old o s b
  end.


Fixpoint run_old (o : oracle) (s : cstate) (ls : list label) : cstate * list action :=
  match ls with
  | [] => (s, [])
  | l :: r => let '(s1, a1) := step_old o s l in let '(s2, a2) := run_old o s1 r in (s2, a1 ++ a2)
  end.

