(* C20/ObsCheck.v — a decidable checker of the property's clauses over the OBSERVED behaviour of the
   implementation (the event log the harness recorded, Run's result class), independent of the
   model's step function.  Executable, proof-free; C20/ObsSound.v proves each boolean equivalent to
   the Prop-level clause it stands for.  The check driver evaluates [obs_verdict] on EVERY recorded
   case: a non-zero verdict is a failing input for the named clause. *)
From Verif Require Import Common.Base C20.Model.

(* an observed log entry (10*kind + state, (a, b)) read back as the action it records; entries that
   carry no component / provider event become the neutral ANotReady *)
Definition decode (e : nat * (nat * nat)) : action :=
  let '(k, (a, b)) := e in
  match k / 10 with
  | 4 => ACreate a b
  | 5 => AStart a b true
  | 6 => AStart a b false
  | 8 => AShutdown a b true
  | 9 => AShutdown a b false
  | _ => ANotReady a
  end.

Definition decode_p (e : nat * (nat * nat)) : list pevent :=
  let '(k, (a, b)) := e in
  match k / 10 with
  | 10 => [PShutdown a true]
  | 11 => [PShutdown a false]
  | _ => []
  end.

Definition bringup_gen (a : action) : option nat :=
  match a with ACreate g _ | AStart g _ _ => Some g | _ => None end.

Definition not_bringup (a : action) : bool := match bringup_gen a with Some _ => false | None => true end.

(* clause 2: no component is shut down twice *)
Definition shut_once_b (log : list action) : bool :=
  forallb (fun a => match a with AShutdown g c _ => Nat.leb (count (is_shut g c) log) 1 | _ => true end) log.

(* clause 3: once a component has failed to shut down nothing is created or started any more *)
Fixpoint after_failed_shutdown_b (log : list action) : bool :=
  match log with
  | [] => true
  | AShutdown _ _ false :: r => forallb not_bringup r
  | _ :: r => after_failed_shutdown_b r
  end.

(* clause 4: no registered provider is shut down twice *)
Definition prov_once_b (pl : list pevent) : bool :=
  forallb (fun e => match e with PShutdown p _ => Nat.leb (pcount (is_pshut p) pl) 1 | _ => true end) pl.

(* clause 5: when Run has returned nothing is left started *)
Definition nothing_live_b (log : list action) : bool :=
  match live_after [] log with [] => true | _ => false end.

(* clause 6: after a stopped run every started component was shut down exactly once and every
   registered provider exactly once *)
Definition stopped_exact_b (nprov : nat) (log : list action) (pl : list pevent) : bool :=
  forallb (fun a => match a with AStart g c _ => Nat.eqb (count (is_shut g c) log) 1 | _ => true end) log &&
  forallb (fun p => Nat.eqb (pcount (is_pshut p) pl) 1) (seq 0 nprov).

(* result classes: 0 not returned | 1 nil | 7 shutdown errors — the two ways a STOPPED run returns *)
Definition ret_class (ret : nat) : nat := ret mod 100.
Definition is_stopped (ret : nat) : bool := Nat.eqb (ret_class ret) 1 || Nat.eqb (ret_class ret) 7.

(* 0 = every clause holds; otherwise the number of the first violated clause *)
Definition obs_verdict (nprov : nat) (lg : list (nat * (nat * nat))) (ret : nat) : nat :=
  let log := map decode lg in
  let pl := flat_map decode_p lg in
  if negb (no_overlap [] log) then 1
  else if negb (shut_once_b log) then 2
  else if negb (after_failed_shutdown_b log) then 3
  else if negb (prov_once_b pl) then 4
  else if negb (Nat.eqb (ret_class ret) 0) && negb (nothing_live_b log) then 5
  else if is_stopped ret && negb (stopped_exact_b nprov log pl) then 6
  else 0.
