(* C20/Proofs3.v — the property statements derived from the invariants. *)
From Verif Require Import Common.Base C20.Model C20.Proofs1 C20.Proofs2.

Local Opaque svc_shutdown.

Definition anyl (l : label) : Prop := True.
Definition nofatal (l : label) : Prop := is_fatal_label l = false.

Lemma run_inv o ls s log :
  run o init ls = (s, log) -> InvC s log /\ InvL o s log /\ InvN o s log.
Proof.
  intros E. pose proof (run_reach o anyl ls (fun _ _ => I)) as R. rewrite E in R. simpl in R.
  split; [|split]; [eapply reach_InvC|eapply reach_InvL|eapply reach_InvN]; eauto.
Qed.

(* ---- phase_order ------------------------------------------------------------------------------ *)
Lemma q_of_pc_not_bad p : q_of_pc p <> QBad.
Proof. destruct p as [| [] | | | | | []]; discriminate. Qed.

Lemma phase_order_l o ls : phase_word (states_of (snd (run o init ls))) <> QBad.
Proof.
  destruct (run o init ls) as [s log] eqn:E. destruct (run_inv o ls s log E) as [C _].
  simpl. rewrite (C_word _ _ C). apply q_of_pc_not_bad.
Qed.

Lemma bad_absorbing l : fold_left pdelta l QBad = QBad.
Proof. induction l; simpl; auto. Qed.

Definition edge (a b : phase) : bool :=
  match a, b with
  | Starting, Running | Starting, Closed | Running, Closing | Closing, Starting | Closing, Closed => true
  | _, _ => false
  end.

Lemma word_edges l : forall q, fold_left pdelta l q <> QBad ->
  forall l1 a b l2, l = l1 ++ a :: b :: l2 -> edge a b = true.
Proof.
  induction l as [|x l IH]; intros q H l1 a b l2 E.
  - destruct l1; discriminate.
  - destruct l1 as [|y l1]; simpl in E; inversion E; subst.
    + simpl in H. destruct (pdelta (pdelta q a) b) eqn:EB;
        try (destruct q, a, b; simpl in *; try reflexivity; discriminate).
      rewrite bad_absorbing in H. congruence.
    + simpl in H. eapply IH; eauto.
Qed.

Lemma word_first l : phase_word l <> QBad -> match l with [] => True | p :: _ => p = Starting end.
Proof.
  destruct l as [|p l]; auto. unfold phase_word. simpl. intros H.
  destruct p; auto; simpl in H; rewrite bad_absorbing in H; congruence.
Qed.

(* Starting -> Closed happens only for the initial configuration (positions 0,1) *)
Lemma word_start_closed l : phase_word l <> QBad ->
  forall l1 l2, l = l1 ++ Starting :: Closed :: l2 -> l1 = [].
Proof.
  unfold phase_word. intros H l1 l2 E. subst.
  rewrite fold_left_app in H. simpl in H.
  destruct (fold_left pdelta l1 QStart) eqn:EQ; simpl in H; try (rewrite bad_absorbing in H; congruence).
  destruct l1 as [|x l1]; auto. exfalso.
  (* after at least one letter the automaton is never back in QStart *)
  assert (forall l q, q <> QStart -> fold_left pdelta l q <> QStart) as NS.
  { induction l as [|y l IHl]; intros q Hq; simpl; auto. apply IHl. destruct q, y; simpl; congruence. }
  simpl in EQ. apply (NS l1 (pdelta QStart x)); auto. destruct x; simpl; congruence.
Qed.

Lemma closed_is_last l : phase_word l <> QBad -> forall l1 l2, l = l1 ++ Closed :: l2 -> l2 = [].
Proof.
  intros H l1 l2 E. destruct l2 as [|x l2]; auto. exfalso.
  pose proof (word_edges l QStart H l1 Closed x l2 E) as HE. destruct x; discriminate.
Qed.

(* ---- one_live_service -------------------------------------------------------------------------- *)
Lemma no_overlap_create acc l1 g c l2 :
  no_overlap acc (l1 ++ ACreate g c :: l2) = true ->
  forall p, In p (live_after acc l1) -> fst p = g.
Proof.
  rewrite no_overlap_app. intros H p Hp. apply andb_true_iff in H as [_ H]. simpl in H.
  apply andb_true_iff in H as [H _]. rewrite forallb_forall in H. apply Nat.eqb_eq. auto.
Qed.

Lemma no_overlap_start acc l1 g c ok l2 :
  no_overlap acc (l1 ++ AStart g c ok :: l2) = true ->
  forall p, In p (live_after acc l1) -> fst p = g.
Proof.
  rewrite no_overlap_app. intros H p Hp. apply andb_true_iff in H as [_ H]. simpl in H.
  apply andb_true_iff in H as [H _]. rewrite forallb_forall in H. apply Nat.eqb_eq. auto.
Qed.

Lemma one_live_service_l o ls l1 a l2 :
  snd (run o init ls) = l1 ++ a :: l2 ->
  forall g' c', (a = ACreate g' c' \/ exists ok, a = AStart g' c' ok) ->
  forall g c, In (g, c) (live_after [] l1) -> g = g'.
Proof.
  destruct (run o init ls) as [s log] eqn:E. destruct (run_inv o ls s log E) as [_ [L _]].
  simpl. intros -> g' c' [->|[ok ->]] g c HI.
  - apply (no_overlap_create [] l1 g' c' l2 (L_overlap _ _ _ L) (g, c) HI).
  - apply (no_overlap_start [] l1 g' c' ok l2 (L_overlap _ _ _ L) (g, c) HI).
Qed.

Lemma live_one_generation_l o ls :
  forall p q, In p (live_after [] (snd (run o init ls))) -> In q (live_after [] (snd (run o init ls))) -> fst p = fst q.
Proof.
  destruct (run o init ls) as [s log] eqn:E. destruct (run_inv o ls s log E) as [_ [L _]].
  simpl. rewrite (L_live _ _ _ L). unfold live_list. destruct (st_live s); [|intros ? ? []].
  intros p q Hp Hq. apply in_map_iff in Hp as [x [<- _]]. apply in_map_iff in Hq as [y [<- _]]. reflexivity.
Qed.

(* ---- ends_closed -------------------------------------------------------------------------------- *)
Lemma stopped_run_l o ls s log :
  run o init ls = (s, log) -> st_pc s = PDone DStopped ->
  st_phase s = Closed /\ count is_prov_shut log = 1 /\ count is_return log = 1 /\
  live_after [] log = [] /\
  (forall g c, count (is_shut g c) log <= 1) /\
  (forall g c, count (is_start g c) log >= 1 -> count (is_shut g c) log = 1).
Proof.
  intros E EP. destruct (run_inv o ls s log E) as [C [L N]].
  pose proof (C_phase _ _ C) as H1. pose proof (C_prov _ _ C) as H2. pose proof (C_prov_pc _ _ C) as H3.
  pose proof (C_ret _ _ C) as H4. pose proof (C_live0 _ _ C) as H5. rewrite EP in *. simpl in *.
  specialize (H5 eq_refl).
  repeat split; auto; try lia.
  - rewrite (L_live _ _ _ L). unfold live_list. now rewrite H5.
  - apply (N_shut_le _ _ _ N).
  - intros g c. apply (N_retired _ _ _ N). rewrite H5. discriminate.
Qed.

(* any finished run: nothing is left started *)
Lemma finished_run_l o ls s log k :
  run o init ls = (s, log) -> st_pc s = PDone k ->
  count is_return log = 1 /\ live_after [] log = [] /\
  (forall g c, count (is_shut g c) log <= 1) /\
  (forall g c, count (is_start g c) log >= 1 -> count (is_shut g c) log = 1) /\
  (k <> DStopped -> count is_prov_shut log = 0 /\ st_phase s <> Running).
Proof.
  intros E EP. destruct (run_inv o ls s log E) as [C [L N]].
  pose proof (C_phase _ _ C) as H1. pose proof (C_prov _ _ C) as H2. pose proof (C_prov_pc _ _ C) as H3.
  pose proof (C_ret _ _ C) as H4. pose proof (C_live0 _ _ C) as H5. rewrite EP in *. simpl in *.
  specialize (H5 eq_refl).
  repeat split; auto.
  - rewrite (L_live _ _ _ L). unfold live_list. now rewrite H5.
  - apply (N_shut_le _ _ _ N).
  - intros g c. apply (N_retired _ _ _ N). rewrite H5. discriminate.
  - destruct k; try congruence; lia.
  - destruct k; simpl in H1; congruence.
Qed.

(* the provider is never shut down twice, whatever happens *)
Lemma provider_once_l o ls : count is_prov_shut (snd (run o init ls)) <= 1.
Proof.
  destruct (run o init ls) as [s log] eqn:E. destruct (run_inv o ls s log E) as [C _]. simpl.
  rewrite (C_prov _ _ C). pose proof (C_prov_pc _ _ C) as H. destruct (st_pc s) as [| | | | | |[]]; lia.
Qed.

Lemma shut_once_l o ls g c : count (is_shut g c) (snd (run o init ls)) <= 1.
Proof.
  destruct (run o init ls) as [s log] eqn:E. destruct (run_inv o ls s log E) as [_ [_ N]]. apply (N_shut_le _ _ _ N).
Qed.

(* at the select a ready stop branch leads to shutdown() *)
Lemma stop_branch_final_l o s b :
  st_pc s = PSelect -> stop_branch s b = true ->
  exists bg, st_pc (fst (step o s (LRun b))) = PFinal bg /\ st_phase (fst (step o s (LRun b))) = Closing.
Proof.
  intros EP SB. simpl. unfold run_step. rewrite EP. unfold take, stop_branch in *.
  destruct b.
  - destruct (st_watch s) as [|[] r]; try discriminate. eexists; split; reflexivity.
  - destruct (st_async s) as [|e r]; try discriminate. eexists; split; reflexivity.
  - destruct (st_sigs s) as [|[] r]; try discriminate; eexists; split; reflexivity.
  - rewrite SB. eexists; split; reflexivity.
  - rewrite SB. eexists; split; reflexivity.
Qed.

(* shutdown(): one more section and Run has returned, Closed — always (the service shutdown cannot
   be blocked any more: shutdownService drains asyncErrorChannel) *)
Lemma final_step_l o s bg b :
  st_pc s = PFinal bg ->
  st_pc (fst (step o s (LRun b))) = PDone DStopped /\ st_phase (fst (step o s (LRun b))) = Closed /\
  exists pre r, snd (step o s (LRun b)) = pre ++ [ASetState Closed; AReturn r].
Proof.
  intros EP. simpl. unfold run_step. rewrite EP.
  destruct (svc_shutdown (live_gen s) (cfg_of o (live_gen s))) as [acts ok]. simpl. split; auto. split; auto.
  eexists. eexists. rewrite app_assoc. reflexivity.
Qed.

(* the retirement of the old service in a reload always completes too *)
Lemma reload_step_l o s b :
  st_pc s = PReload ->
  st_pc (fst (step o s (LRun b))) = PSetup false \/ st_pc (fst (step o s (LRun b))) = PDone DRetireFail.
Proof.
  intros EP. simpl. unfold run_step. rewrite EP.
  destruct (svc_shutdown _ _) as [acts ok]. destruct ok; simpl; auto.
Qed.

(* the failing sections return an error *)
Lemma failure_returns_error_l o s b k :
  (forall k0, st_pc s <> PDone k0) -> st_pc (fst (step o s (LRun b))) = PDone k -> k <> DStopped ->
  exists pre e, snd (step o s (LRun b)) = pre ++ [AReturn e] /\ fail_result e = true.
Proof.
  intros ND HP KN. change (step o s (LRun b)) with (run_step o s b) in *. unfold run_step in *.
  destruct (st_pc s) eqn:EP; try (simpl in HP; rewrite ?EP in HP; discriminate HP).
  - destruct (setup o (st_gen s) (st_open s)) as [[acts err] open'] eqn:ES.
    assert (forall e, err = Some e -> fail_result e = true /\ fail_result (RReload e) = true) as NE.
    { intros e ->. unfold setup in ES. destruct (outcome (cfg_of o (st_gen s)));
        try (inversion ES; split; reflexivity);
        destruct (svc_new _ _) as [cr ok1]; destruct (negb ok1); try (inversion ES; split; reflexivity);
        destruct (svc_start _ _) as [sa ok2]; destruct (negb ok2); inversion ES; split; reflexivity. }
    destruct err as [e|]; [|simpl in *; discriminate HP].
    destruct initial; simpl in *.
    + exists (acts ++ [ASetState Closed]), e. split; [now rewrite <- app_assoc|apply NE; auto].
    + exists acts, (RReload e). split; auto. apply NE; auto.
  - exfalso. unfold take in HP. destruct b;
      repeat match type of HP with context [match ?x with _ => _ end] => destruct x end; simpl in HP; try rewrite EP in HP; discriminate HP.
  - destruct (svc_shutdown _ _) as [acts ok]. destruct ok; simpl in *; try discriminate HP.
    exists acts, RErrRetire. split; auto.
  - destruct (svc_shutdown _ _) as [acts ok]. simpl in *. inversion HP; subst. congruence.
  - exfalso. eapply ND; eauto.
Qed.

(* ---- Run is never blocked -------------------------------------------------------------------------- *)
Lemma run_step_not_stuck o s b : st_pc s <> PStuck -> st_pc (fst (run_step o s b)) <> PStuck.
Proof.
  intros NS. unfold run_step. destruct (st_pc s) eqn:EP; simpl; try discriminate; try congruence.
  all: try (destruct (setup o (st_gen s) (st_open s)) as [[acts err] open']; destruct err as [[]|]; try destruct initial; simpl; discriminate).
  all: try (unfold take; destruct b;
      repeat match goal with |- context [match ?x with _ => _ end] => destruct x end; simpl; congruence).
  all: try (destruct (svc_shutdown _ _) as [acts ok]; try destruct ok; simpl; discriminate).
Qed.

Lemma never_stuck_l o ls : forall s, st_pc s <> PStuck -> st_pc (fst (run o s ls)) <> PStuck.
Proof.
  induction ls as [|l r IH]; intros s NS; simpl; auto.
  assert (st_pc (fst (step o s l)) <> PStuck) as N1.
  { destruct (is_run l) eqn:ER.
    - destruct l; try discriminate. apply run_step_not_stuck; auto.
    - destruct (step o s l) as [s1 a1] eqn:E1. destruct (env_step_shape o s l s1 a1 E1 ER) as [_ [_ [_ K]]]. simpl. now rewrite K. }
  destruct (step o s l) as [s1 a1]. simpl in N1. specialize (IH s1 N1).
  destruct (run o s1 r) as [s2 a2]. exact IH.
Qed.

(* ---- Shutdown() --------------------------------------------------------------------------------- *)
Lemma close_once_l o ls : count is_close_chan (snd (run o init ls)) <= 1.
Proof.
  destruct (run o init ls) as [s log] eqn:E. destruct (run_inv o ls s log E) as [C _]. simpl.
  rewrite (C_chan _ _ C). destruct (st_chan_closed s); lia.
Qed.

Lemma shutdown_noop_l o s :
  st_phase s = Closed \/ st_phase s = Closing -> step o s LShutdownCall = (s, []).
Proof. intros [H|H]; simpl; rewrite H; reflexivity. Qed.

Lemma shutdown_accepted_l o s :
  st_phase s = Running \/ st_phase s = Starting -> st_chan_closed (fst (step o s LShutdownCall)) = true.
Proof.
  intros [H|H]; simpl; rewrite H; unfold shut_close, shut_check; rewrite H; simpl;
    destruct (st_chan_closed s); reflexivity.
Qed.

Lemma shutdown_idempotent_l o s :
  let s1 := fst (step o s LShutdownCall) in
  fst (step o s1 LShutdownCall) = s1 /\ count is_close_chan (snd (step o s1 LShutdownCall)) = 0.
Proof.
  destruct s as [ph p lv g op cc cl sg w asy cx pv]. simpl.
  destruct ph; simpl; auto; unfold shut_close, shut_check; simpl; destruct cc; simpl; auto.
Qed.

(* the recover() in Shutdown() is load-bearing: two callers that both pass the state check before
   either closes (or simply two calls one after the other while Running) make the second close hit
   a closed channel *)
Lemma recover_exercised_l :
  (exists o ls, ls = [LShutCheck; LShutCheck; LShutClose; LShutClose] /\
                count is_recovered (snd (run o init ls)) = 1 /\ count is_close_chan (snd (run o init ls)) = 1) /\
  (forall o s, (st_phase s = Running \/ st_phase s = Starting) -> st_chan_closed s = true ->
               snd (step o s LShutdownCall) = [ARecovered]).
Proof.
  split.
  - exists (mkOracle (fun _ => mkCfg 1 0 BOk []) false). eexists; split; [reflexivity|]. vm_compute. auto.
  - intros o s [H|H] C; simpl; rewrite H; unfold shut_close, shut_check; rewrite H; simpl; rewrite C; reflexivity.
Qed.

Lemma shutdown_only_closes_l o s :
  let s1 := fst (step o s LShutdownCall) in
  st_pc s1 = st_pc s /\ st_phase s1 = st_phase s /\ st_live s1 = st_live s /\ st_gen s1 = st_gen s /\
  st_sigs s1 = st_sigs s /\ st_watch s1 = st_watch s /\ st_async s1 = st_async s /\ st_ctx_done s1 = st_ctx_done s /\
  st_prov_shut s1 = st_prov_shut s /\ st_closers s1 = st_closers s.
Proof.
  destruct s as [ph p lv g op cc cl sg w asy cx pv]. simpl.
  destruct ph; simpl; auto 12; unfold shut_close, shut_check; simpl; destruct cc; simpl; auto 12.
Qed.

(* a closed channel / a cancelled context stay so: the stop request cannot be lost *)
Lemma sticky_step o s l :
  (st_chan_closed s = true -> st_chan_closed (fst (step o s l)) = true) /\
  (st_ctx_done s = true -> st_ctx_done (fst (step o s l)) = true).
Proof.
  destruct s as [ph p lv g op cc cl sg w asy cx pv].
  destruct l; simpl.
  - destruct (Nat.eqb _ 0); simpl; auto.
  - destruct (Nat.ltb _ 3); simpl; auto.
  - destruct who; [|destruct (option_eqb _ _ _)]; simpl; auto.
  - auto.
  - destruct ph; simpl; auto; unfold shut_close, shut_check; simpl; destruct cc; simpl; auto.
  - unfold shut_check. destruct ph; simpl; auto.
  - unfold shut_close. simpl. destruct cl; [|destruct cc]; simpl; auto.
  - unfold run_step. simpl. destruct p; simpl; auto.
    all: try (match goal with |- context [setup ?a ?b ?c] => destruct (setup a b c) as [[acts err] open'] end;
      destruct err as [[]|]; try destruct initial; simpl; auto).
    all: try (unfold take; simpl; destruct b;
        repeat match goal with |- context [match ?x with _ => _ end] => destruct x eqn:? end; simpl; auto).
    all: try (destruct (svc_shutdown _ _) as [acts ok]; try destruct ok; simpl; auto).
Qed.

Lemma sticky_l o ls : forall s,
  (st_chan_closed s = true -> st_chan_closed (fst (run o s ls)) = true) /\
  (st_ctx_done s = true -> st_ctx_done (fst (run o s ls)) = true).
Proof.
  induction ls as [|l r IH]; intros s; simpl; auto.
  destruct (step o s l) as [s1 a1] eqn:E1. destruct (sticky_step o s l) as [K1 K2]. rewrite E1 in *. simpl in *.
  destruct (IH s1) as [J1 J2]. destruct (run o s1 r) as [s2 a2]. simpl in *. split; auto.
Qed.

Definition refute_oracle : oracle := mkOracle (fun _ => mkCfg 1 1 BOk []) false.
(* REGRESSION history of finding C20-FATAL-DEADLOCK (fixed by 98f2ce3d0): two components of the running
   service report a fatal error at about the same time.  Old.v: the old step function got stuck in
   Closing for ever; now the second sender is drained while the service shuts down. *)
Definition refute_history : list label :=
  [LRun BrWatch; LRun BrWatch; LInjAsync (SndFatal 0); LInjAsync (SndFatal 0); LRun BrAsync; LRun BrAsync].

Lemma deadlock_history_now_closes_l :
  let r := run refute_oracle init refute_history in
  st_pc (fst r) = PDone DStopped /\ st_phase (fst r) = Closed /\ st_async (fst r) = [] /\
  last_opt (snd r) = Some (AReturn RNil).
Proof. vm_compute. auto. Qed.

(* a run that ends by a failed reload is not Closed and its providers are not shut down *)
Lemma reload_failure_not_closed_l :
  exists o ls, let s := fst (run o init ls) in let log := snd (run o init ls) in
    st_pc s = PDone DReloadFail /\ count is_return log = 1 /\ st_phase s = Starting /\ count is_prov_shut log = 0.
Proof.
  exists (mkOracle (fun g => match g with 0 => mkCfg 1 0 BOk [] | _ => mkCfg 1 0 (BStartFails 1) [] end) false),
         [LRun BrWatch; LRun BrWatch; LInjSig SigHup; LRun BrSignal; LRun BrWatch; LRun BrWatch].
  vm_compute. auto.
Qed.

(* ---- nothing that was sent on the watcher / async-error channel is ever dropped -------------------- *)
(* One label either leaves the queue of pending watcher notifications alone, appends to it, or —
   only when Run sits in the select and takes the Watch() branch — removes its head, and then acts
   on it: an error enters shutdown(), a change starts the reload. *)
Lemma watch_fifo_l o s l :
  let s' := fst (step o s l) in
  (exists x, st_watch s' = st_watch s ++ x) \/
  (l = LRun BrWatch /\ st_pc s = PSelect /\
   exists e, st_watch s = e :: st_watch s' /\ st_pc s' = (if e then PFinal false else PReload)) \/
  (exists b bg, l = LRun b /\ st_pc s = PFinal bg /\ st_watch s' = firstn 1 (st_watch s)).
Proof.
  destruct s as [ph p lv g op cc cl sg w asy cx pv].
  assert (forall wl : list bool, exists x, wl = wl ++ x) as SAME by (intros wl; exists []; now rewrite app_nil_r).
  destruct l; simpl.
  - destruct (Nat.eqb _ 0); simpl; [left; eexists; reflexivity|left; apply SAME].
  - destruct (Nat.ltb _ 3); simpl; left; apply SAME.
  - destruct who; [|destruct (option_eqb _ _ _)]; simpl; left; apply SAME.
  - left; apply SAME.
  - destruct ph; simpl; try (left; apply SAME); unfold shut_close, shut_check; simpl; destruct cc; simpl; left; apply SAME.
  - unfold shut_check. destruct ph; simpl; left; apply SAME.
  - unfold shut_close. simpl. destruct cl; [|destruct cc]; simpl; left; apply SAME.
  - unfold run_step. simpl. destruct p; simpl; try (left; apply SAME).
    + match goal with |- context [setup ?a ?b ?c] => destruct (setup a b c) as [[acts err] open'] end.
      destruct err as [[]|]; try destruct initial; simpl; left; apply SAME.
    + unfold take. simpl. destruct b.
      * destruct w as [|e r]; simpl; [left; apply SAME|].
        right; left. split; [reflexivity|split; [reflexivity|]]. exists e. destruct e; simpl; auto.
      * destruct asy; simpl; left; apply SAME.
      * destruct sg as [|[] r]; simpl; left; apply SAME.
      * destruct cc; simpl; left; apply SAME.
      * destruct cx; simpl; left; apply SAME.
    + destruct (svc_shutdown _ _) as [acts ok]; destruct ok; simpl; left; apply SAME.
    + right; right. exists b, bg. split; [reflexivity|split; [reflexivity|]].
      destruct (svc_shutdown _ _) as [acts ok]; simpl; auto.
Qed.

(* asynchronous-error senders: FIFO, the head is removed only by Run taking that branch in the select;
   apart from that the whole queue is received and discarded exactly while Run shuts a service down
   (shutdownService: retirement in a reload, shutdown(), clean-up after a failed Start) *)
Lemma async_fifo_l o s l :
  let s' := fst (step o s l) in
  (exists x, st_async s' = st_async s ++ x) \/
  (l = LRun BrAsync /\ st_pc s = PSelect /\ exists e, st_async s = e :: st_async s' /\ st_pc s' = PFinal false) \/
  (exists b, l = LRun b /\ st_async s' = [] /\
     (st_pc s = PReload \/ (exists bg, st_pc s = PFinal bg) \/ (exists i k, st_pc s = PSetup i /\ st_pc s' = PDone k))).
Proof.
  destruct s as [ph p lv g op cc cl sg w asy cx pv].
  assert (forall wl : list sender, exists x, wl = wl ++ x) as SAME by (intros wl; exists []; now rewrite app_nil_r).
  destruct l; simpl.
  - destruct (Nat.eqb _ 0); simpl; left; apply SAME.
  - destruct (Nat.ltb _ 3); simpl; left; apply SAME.
  - destruct who; [|destruct (option_eqb _ _ _)]; simpl; try (left; eexists; reflexivity); left; apply SAME.
  - left; apply SAME.
  - destruct ph; simpl; try (left; apply SAME); unfold shut_close, shut_check; simpl; destruct cc; simpl; left; apply SAME.
  - unfold shut_check. destruct ph; simpl; left; apply SAME.
  - unfold shut_close. simpl. destruct cl; [|destruct cc]; simpl; left; apply SAME.
  - unfold run_step. simpl. destruct p; simpl; try (left; apply SAME).
    + match goal with |- context [setup ?a ?b ?c] => destruct (setup a b c) as [[acts err] open'] end.
      destruct err as [[]|]; try destruct initial; simpl; try (left; apply SAME);
        (right; right; exists b; split; [reflexivity|split; [reflexivity|]]; right; right; eexists; eexists; split; reflexivity).
    + unfold take. simpl. destruct b.
      * destruct w as [|[] r]; simpl; left; apply SAME.
      * destruct asy as [|e r]; simpl; [left; apply SAME|].
        right; left. split; [reflexivity|split; [reflexivity|]]. exists e. auto.
      * destruct sg as [|[] r]; simpl; left; apply SAME.
      * destruct cc; simpl; left; apply SAME.
      * destruct cx; simpl; left; apply SAME.
    + right; right. exists b. destruct (svc_shutdown _ _) as [acts ok]; destruct ok; simpl; auto.
    + right; right. exists b. destruct (svc_shutdown _ _) as [acts ok]; simpl. split; auto. split; auto. right; left; eauto.
Qed.

(* ---- provider level: every REGISTERED provider is shut down exactly as often as the resolver ------- *)
Lemma pcount_app f l1 l2 : pcount f (l1 ++ l2) = pcount f l1 + pcount f l2.
Proof. unfold pcount. now rewrite filter_app, app_length. Qed.

Lemma pcount_shut_map p b l : pcount (is_pshut p) (map (fun q => PShutdown q b) l) = cnt p l.
Proof.
  induction l as [|x l IH]; auto. simpl. unfold pcount in *. simpl. rewrite cnt_cons.
  destruct (Nat.eqb p x); simpl; rewrite IH; reflexivity.
Qed.

Lemma pcount_none p (h : nat -> pevent) l : (forall x, is_pshut p (h x) = false) -> pcount (is_pshut p) (map h l) = 0.
Proof. intros H. induction l as [|x l IH]; auto. unfold pcount in *. simpl. now rewrite H. Qed.

Lemma expand_provider_count t p log :
  pcount (is_pshut p) (expand t log) = if p <? 1 + n_aux t then count is_prov_shut log else 0.
Proof.
  remember (1 + n_aux t) as n eqn:En.
  induction log as [|a log IH].
  - change (pcount (is_pshut p) (expand t [])) with 0. change (count is_prov_shut []) with 0. destruct (p <? n); reflexivity.
  - change (expand t (a :: log)) with (expand1 t a ++ expand t log).
    rewrite pcount_app, IH, count_cons.
    assert (pcount (is_pshut p) (expand1 t a) = if is_prov_shut a then (if p <? n then 1 else 0) else 0) as ->.
    { destruct a; try reflexivity.
      - cbn [expand1 is_prov_shut]. apply pcount_none. reflexivity.
      - cbn [expand1 is_prov_shut]. destruct ok; [apply pcount_none; reflexivity|reflexivity].
      - cbn [expand1 is_prov_shut]. rewrite pcount_shut_map. unfold providers. rewrite <- En. apply cnt_seq0. }
    destruct (is_prov_shut a); destruct (p <? n); lia.
Qed.

Lemma each_provider_once_l t o ls :
  (forall p, pcount (is_pshut p) (expand t (snd (run o init ls))) <= 1) /\
  (forall s log, run o init ls = (s, log) -> st_pc s = PDone DStopped ->
     forall p, pcount (is_pshut p) (expand t log) = if p <? 1 + n_aux t then 1 else 0) /\
  (forall s log k, run o init ls = (s, log) -> st_pc s = PDone k -> k <> DStopped ->
     forall p, pcount (is_pshut p) (expand t log) = 0).
Proof.
  split; [|split].
  - intros p. rewrite expand_provider_count. pose proof (provider_once_l o ls). destruct (p <? _); lia.
  - intros s log E EP p. rewrite expand_provider_count.
    destruct (stopped_run_l o ls s log E EP) as [_ [H _]]. now rewrite H.
  - intros s log k E EP NK p. rewrite expand_provider_count.
    destruct (finished_run_l o ls s log k E EP) as [_ [_ [_ [_ H]]]]. destruct (H NK) as [H0 _]. rewrite H0.
    destruct (p <? _); reflexivity.
Qed.

(* ---- no provider goroutine panics: the watcher channel is closed only after the blocked senders
   have been released (bc929f066) ------------------------------------------------------------------ *)
Lemma step_no_panic o s l : count is_sender_panic (snd (step o s l)) = 0.
Proof.
  destruct (is_run l) eqn:ER.
  - destruct l; try discriminate. simpl. unfold run_step.
    destruct (st_pc s) eqn:EP; simpl; auto.
    + destruct (setup o (st_gen s) (st_open s)) as [[acts err] open'] eqn:ES.
      assert (count is_sender_panic acts = 0) as Z.
      { apply setup_cases in ES as [body [-> SH]]. rewrite count_app, closes_count by reflexivity.
        rewrite (shape_misc _ _ _ _ SH) by (try (intros []; simpl; congruence); reflexivity). reflexivity. }
      destruct err as [[]|]; try destruct initial; simpl; rewrite count_app, Z; reflexivity.
    + unfold take. destruct b;
        repeat match goal with |- context [match ?x with _ => _ end] => destruct x end; simpl; reflexivity.
    + destruct (svc_shutdown (live_gen s) (cfg_of o (live_gen s))) as [acts ok] eqn:ESW.
      assert (count is_sender_panic acts = 0) as Z.
      { replace acts with (fst (svc_shutdown (live_gen s) (cfg_of o (live_gen s)))) by now rewrite ESW.
        apply sweep_misc; [intros []; simpl; congruence|reflexivity]. }
      destruct ok; simpl; rewrite count_app, Z; reflexivity.
    + destruct (svc_shutdown (live_gen s) (cfg_of o (live_gen s))) as [acts ok] eqn:ESW.
      assert (count is_sender_panic acts = 0) as Z.
      { replace acts with (fst (svc_shutdown (live_gen s) (cfg_of o (live_gen s)))) by now rewrite ESW.
        apply sweep_misc; [intros []; simpl; congruence|reflexivity]. }
      simpl. rewrite !count_app, fprefix_count, Z by reflexivity. simpl. rewrite !count_cons, count_nil. reflexivity.
  - destruct (step o s l) as [s1 a1] eqn:E1.
    destruct (env_step_shape o s l s1 a1 E1 ER) as [[->|[->| ->]] _]; reflexivity.
Qed.

Lemma no_sender_panic_l o ls : forall s, count is_sender_panic (snd (run o s ls)) = 0.
Proof.
  induction ls as [|l r IH]; intros s; simpl; auto.
  pose proof (step_no_panic o s l) as Z. destruct (step o s l) as [s1 a1]. specialize (IH s1).
  destruct (run o s1 r) as [s2 a2]. simpl in *. rewrite count_app. lia.
Qed.

(* REGRESSION history of finding C20-WATCH-SEND-ON-CLOSED (fixed by bc929f066): a provider sends a
   change and, right behind it, a second notification while Run is busy; a shutdown request is taken
   before the change.  Old.v: the blocked provider goroutine panicked; now it is released and its
   notification dropped. *)
Definition panic_history : list label :=
  [LRun BrWatch; LInjWatch false; LInjWatch true; LShutdownCall; LRun BrWatch; LRun BrShutdownChan; LRun BrWatch].

Lemma panic_history_now_orderly_l :
  let r := run refute_oracle init panic_history in
  st_pc (fst r) = PDone DStopped /\ st_phase (fst r) = Closed /\ count is_sender_panic (snd r) = 0 /\
  st_watch (fst r) = [false].
Proof. vm_compute. auto. Qed.

Lemma initial_failure_closed_l o ls :
  st_pc (fst (run o init ls)) = PDone DInitFail -> st_phase (fst (run o init ls)) = Closed.
Proof.
  destruct (run o init ls) as [s log] eqn:E. destruct (run_inv o ls s log E) as [C _]. simpl.
  intros EP. rewrite (C_phase _ _ C), EP. reflexivity.
Qed.

Lemma fatal_reaches_loop_l :
  (forall has_err, forwards_async 5 has_err = true) /\
  (forall st has_err, forwards_async st has_err = true -> st = 5%Z) /\
  (forall o s g, st_live s = Some g ->
     st_async (fst (step o s (LInjAsync (SndFatal g)))) = st_async s ++ [SndFatal g] /\
     stop_branch (fst (step o s (LInjAsync (SndFatal g)))) BrAsync = true).
Proof.
  split; [reflexivity|split].
  - intros st e H. unfold forwards_async in H. apply Z.eqb_eq in H. exact H.
  - intros o s g L. simpl. rewrite L. simpl. rewrite Nat.eqb_refl. simpl. split; auto.
    destruct (st_async s); reflexivity.
Qed.
