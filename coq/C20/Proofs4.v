(* C20/Proofs4.v — ranking argument: Run's own activity terminates, and with a sticky stop request
   pending it can only terminate with Run returned (or deadlocked, finding C20-FATAL-DEADLOCK). *)
From Verif Require Import Common.Base C20.Model C20.Proofs1 C20.Proofs2 C20.Proofs3.

Local Opaque svc_shutdown Nat.mul.

Lemma firstn1_le {A} (l : list A) : length (firstn 1 l) <= length l.
Proof. destruct l as [|x [|y r]]; simpl; lia. Qed.

Lemma run_step_decreases o s b :
  enabled s (LRun b) = true -> mu (fst (step o s (LRun b))) < mu s.
Proof.
  destruct s as [ph p lv g op cc cl sg w asy cx pv].
  unfold enabled, mu, pending_count. simpl. unfold run_step. simpl.
  destruct p; simpl; try discriminate; intros E.
  - lia.
  - match goal with |- context [setup ?a ?b ?c] => destruct (setup a b c) as [[acts err] open'] end.
    destruct err; [destruct initial|]; simpl; lia.
  - unfold take, is_ready in *. simpl in *. destruct b.
    + destruct w as [|[] r]; try discriminate; simpl; lia.
    + destruct asy as [|e r]; try discriminate; simpl; lia.
    + destruct sg as [|[] r]; try discriminate; simpl; lia.
    + rewrite E. simpl. lia.
    + rewrite E. simpl. lia.
  - destruct (svc_blocked _ _); simpl; [lia|].
    destruct (svc_shutdown _ _) as [acts ok]; destruct ok; simpl; lia.
  - destruct (svc_blocked _ _); simpl.
    + destruct w as [|x [|y r]]; simpl; lia.
    + destruct (svc_shutdown _ _) as [acts ok]; simpl. destruct w as [|x [|y r]]; simpl; lia.
Qed.

Lemma env_step_raises_by_4 o s l : is_run l = false -> mu (fst (step o s l)) <= mu s + 4.
Proof.
  destruct s as [ph p lv g op cc cl sg w asy cx pv].
  unfold mu, pending_count. destruct l; simpl; try discriminate; intros _.
  - destruct (Nat.eqb _ 0); simpl; rewrite ?app_length; simpl; lia.
  - destruct (Nat.ltb _ 3); simpl; rewrite ?app_length; simpl; lia.
  - destruct who; [|destruct (option_eqb _ _ _)]; simpl; rewrite ?app_length; simpl; lia.
  - lia.
  - destruct ph; simpl; try lia; unfold shut_close, shut_check; simpl; destruct cc; simpl; lia.
  - unfold shut_check. destruct ph; simpl; lia.
  - unfold shut_close. simpl. destruct cl; [|destruct cc]; simpl; lia.
Qed.

Lemma run_enabled_bound o bs : forall s,
  run_enabled o s bs = true -> length bs + mu (fst (run o s (map LRun bs))) <= mu s.
Proof.
  induction bs as [|b r IH]; intros s H.
  - simpl. lia.
  - cbn [run_enabled] in H. apply andb_true_iff in H as [H1 H2].
    pose proof (run_step_decreases o s b H1) as D.
    cbn [map run length].
    destruct (step o s (LRun b)) as [s1 a1] eqn:E1. cbn [fst] in *.
    specialize (IH s1 H2). destruct (run o s1 (map LRun r)) as [s2 a2]. cbn [fst] in *. lia.
Qed.

(* where can Run be when none of its sections is enabled? *)
Lemma terminal_states s :
  (forall b, enabled s (LRun b) = false) ->
  (exists k, st_pc s = PDone k) \/ st_pc s = PStuck \/
  (st_pc s = PSelect /\ st_chan_closed s = false /\ st_ctx_done s = false /\
   st_sigs s = [] /\ st_watch s = [] /\ st_async s = []).
Proof.
  intros H. unfold enabled in H. destruct (st_pc s) eqn:EP;
    try (specialize (H BrWatch); discriminate); eauto.
  right; right. split; auto.
  pose proof (H BrShutdownChan) as H1. pose proof (H BrCtx) as H2.
  pose proof (H BrSignal) as H3. pose proof (H BrWatch) as H4. pose proof (H BrAsync) as H5.
  unfold is_ready in *.
  destruct (st_sigs s); [|discriminate]. destruct (st_watch s); [|discriminate]. destruct (st_async s); [|discriminate].
  auto.
Qed.

Lemma stop_pending_ends_run_l o s bs :
  st_chan_closed s = true \/ st_ctx_done s = true ->
  run_enabled o s bs = true ->
  let s' := fst (run o s (map LRun bs)) in
  length bs <= mu s /\
  ((forall b, enabled s' (LRun b) = false) -> (exists k, st_pc s' = PDone k) \/ st_pc s' = PStuck).
Proof.
  intros ST RE. cbv zeta. split.
  - pose proof (run_enabled_bound o bs s RE). lia.
  - intros T. destruct (terminal_states _ T) as [K|[K|[_ [C1 [C2 _]]]]]; auto.
    exfalso. destruct (sticky_l o (map LRun bs) s) as [S1 S2].
    destruct ST as [ST|ST]; [rewrite (S1 ST) in C1|rewrite (S2 ST) in C2]; discriminate.
Qed.
