(* C20/Proofs4.v — ranking argument: Run's own activity terminates, and with a sticky stop request
   pending it can only terminate with Run returned (or deadlocked, finding C20-FATAL-DEADLOCK). *)
From Verif Require Import Common.Base C20.Model C20.Proofs1 C20.Proofs2 C20.Proofs3.

Local Opaque svc_shutdown Nat.mul.

Lemma firstn1_le {A} (l : list A) : length (firstn 1 l) <= length l.
Proof. destruct l as [|x [|y r]]; simpl; lia. Qed.

Lemma run_step_decreases o s b :
  enabled s (LRun b) = true -> mu (fst (step o s (LRun b))) < mu s.
Proof.
  destruct s as [ph p lv g op cc cl sg w asy cx pv].
  unfold enabled, mu, pending_count. simpl. unfold run_step. simpl.
  destruct p; simpl; try discriminate; intros E.
  - lia.
  - match goal with |- context [setup ?a ?b ?c] => destruct (setup a b c) as [[acts err] open'] end.
    destruct err as [[]|]; try destruct initial; simpl; lia.
  - unfold take, is_ready in *. simpl in *. destruct b.
    + destruct w as [|[] r]; try discriminate; simpl; lia.
    + destruct asy as [|e r]; try discriminate; simpl; lia.
    + destruct sg as [|[] r]; try discriminate; simpl; lia.
    + rewrite E. simpl. lia.
    + rewrite E. simpl. lia.
  - destruct (svc_shutdown _ _) as [acts ok]; destruct ok; simpl; lia.
  - destruct (svc_shutdown _ _) as [acts ok]; simpl. destruct w as [|x [|y r]]; simpl; lia.
Qed.

Lemma env_step_raises_by_4 o s l : is_run l = false -> mu (fst (step o s l)) <= mu s + 4.
Proof.
  destruct s as [ph p lv g op cc cl sg w asy cx pv].
  unfold mu, pending_count. destruct l; simpl; try discriminate; intros _.
  - destruct (Nat.eqb _ 0); simpl; rewrite ?app_length; simpl; lia.
  - destruct (Nat.ltb _ 3); simpl; rewrite ?app_length; simpl; lia.
  - destruct who; [|destruct (option_eqb _ _ _)]; simpl; rewrite ?app_length; simpl; lia.
  - lia.
  - destruct ph; simpl; try lia; unfold shut_close, shut_check; simpl; destruct cc; simpl; lia.
  - unfold shut_check. destruct ph; simpl; lia.
  - unfold shut_close. simpl. destruct cl; [|destruct cc]; simpl; lia.
Qed.

Lemma run_enabled_bound o bs : forall s,
  run_enabled o s bs = true -> length bs + mu (fst (run o s (map LRun bs))) <= mu s.
Proof.
  induction bs as [|b r IH]; intros s H.
  - simpl. lia.
  - cbn [run_enabled] in H. apply andb_true_iff in H as [H1 H2].
    pose proof (run_step_decreases o s b H1) as D.
    cbn [map run length].
    destruct (step o s (LRun b)) as [s1 a1] eqn:E1. cbn [fst] in *.
    specialize (IH s1 H2). destruct (run o s1 (map LRun r)) as [s2 a2]. cbn [fst] in *. lia.
Qed.

(* where can Run be when none of its sections is enabled? *)
Lemma terminal_states s :
  (forall b, enabled s (LRun b) = false) ->
  (exists k, st_pc s = PDone k) \/ st_pc s = PStuck \/
  (st_pc s = PSelect /\ st_chan_closed s = false /\ st_ctx_done s = false /\
   st_sigs s = [] /\ st_watch s = [] /\ st_async s = []).
Proof.
  intros H. unfold enabled in H. destruct (st_pc s) eqn:EP;
    try (specialize (H BrWatch); discriminate); eauto.
  right; right. split; auto.
  pose proof (H BrShutdownChan) as H1. pose proof (H BrCtx) as H2.
  pose proof (H BrSignal) as H3. pose proof (H BrWatch) as H4. pose proof (H BrAsync) as H5.
  unfold is_ready in *.
  destruct (st_sigs s); [|discriminate]. destruct (st_watch s); [|discriminate]. destruct (st_async s); [|discriminate].
  auto.
Qed.

Lemma stop_pending_ends_run_l o s bs :
  st_chan_closed s = true \/ st_ctx_done s = true ->
  run_enabled o s bs = true ->
  let s' := fst (run o s (map LRun bs)) in
  length bs <= mu s /\
  ((forall b, enabled s' (LRun b) = false) -> (exists k, st_pc s' = PDone k) \/ st_pc s' = PStuck).
Proof.
  intros ST RE. cbv zeta. split.
  - pose proof (run_enabled_bound o bs s RE). lia.
  - intros T. destruct (terminal_states _ T) as [K|[K|[_ [C1 [C2 _]]]]]; auto.
    exfalso. destruct (sticky_l o (map LRun bs) s) as [S1 S2].
    destruct ST as [ST|ST]; [rewrite (S1 ST) in C1|rewrite (S2 ST) in C2]; discriminate.
Qed.

(* ---- a failed Shutdown ends the run: nothing is created or started afterwards ---------------------- *)
From Verif Require Import C20.ObsCheck C20.ObsSound.

Definition is_failed_shut (a : action) : bool := match a with AShutdown _ _ false => true | _ => false end.

Lemma af_no_bringup l : forallb not_bringup l = true -> after_failed_shutdown_b l = true.
Proof.
  induction l as [|x l IH]; auto. cbn [forallb]. intros H. apply andb_true_iff in H as [H1 H2].
  destruct x; cbn [after_failed_shutdown_b]; auto. destruct ok; auto.
Qed.

Lemma af_prefix pre l :
  existsb is_failed_shut pre = false -> after_failed_shutdown_b (pre ++ l) = after_failed_shutdown_b l.
Proof.
  induction pre as [|x pre IH]; auto. cbn [existsb]. intros H. apply orb_false_iff in H as [H1 H2].
  destruct x; cbn [app after_failed_shutdown_b]; auto. destruct ok; [auto|discriminate].
Qed.

Lemma af_app_tail l t :
  after_failed_shutdown_b l = true -> forallb not_bringup t = true -> after_failed_shutdown_b (l ++ t) = true.
Proof.
  induction l as [|x l IH]; intros H T; [apply af_no_bringup; auto|].
  destruct x; cbn [app after_failed_shutdown_b] in *; auto.
  destruct ok; auto. rewrite forallb_app, H, T. reflexivity.
Qed.

Lemma existsb_app' {A} (f : A -> bool) l1 l2 : existsb f (l1 ++ l2) = existsb f l1 || existsb f l2.
Proof. apply existsb_app. Qed.

Lemma existsb_map_none {A} (f : action -> bool) (h : A -> action) l : (forall x, f (h x) = false) -> existsb f (map h l) = false.
Proof. intros H. induction l; simpl; auto. now rewrite H. Qed.

Transparent svc_shutdown.
Lemma sweep_ok_no_failed g c : snd (svc_shutdown g c) = true -> existsb is_failed_shut (fst (svc_shutdown g c)) = false.
Proof.
  unfold svc_shutdown. cbn [fst snd existsb is_failed_shut orb]. induction (shut_order c) as [|x l IH]; auto.
  cbn [forallb map existsb]. intros H. apply andb_true_iff in H as [H1 H2]. rewrite H1. cbn. auto.
Qed.

Lemma sweep_no_bringup g c : forallb not_bringup (fst (svc_shutdown g c)) = true.
Proof. unfold svc_shutdown. cbn [fst forallb not_bringup bringup_gen andb]. apply forallb_map. reflexivity. Qed.
Opaque svc_shutdown.

Lemma closes_no_failed open : existsb is_failed_shut (closes_of open) = false.
Proof. destruct open; reflexivity. Qed.

Lemma fprefix_no_failed s : existsb is_failed_shut (final_prefix s) = false.
Proof. rewrite fprefix_is_closes. apply closes_no_failed. Qed.

Lemma fprefix_no_bringup s : forallb not_bringup (final_prefix s) = true.
Proof. rewrite fprefix_is_closes. destruct (st_open s); reflexivity. Qed.

(* SL2: once Run has returned nothing is created or started any more *)
Lemma done_is_final o s l s' a k :
  st_pc s = PDone k -> step o s l = (s', a) -> st_pc s' = PDone k /\ forallb not_bringup a = true /\ count is_return a = 0.
Proof.
  intros EP ST. destruct (is_run l) eqn:ER.
  - destruct l; try discriminate. simpl in ST. unfold run_step in ST. rewrite EP in ST. inversion ST; subst. auto.
  - destruct (env_step_shape o s l s' a ST ER) as [[->|[->| ->]] [_ [_ K]]]; rewrite K; auto.
Qed.

Lemma shape_af o g body err : setup_shape o g body err -> forall tail,
  forallb not_bringup tail = true -> existsb is_failed_shut tail = false ->
  after_failed_shutdown_b (body ++ tail) = true /\ (existsb is_failed_shut (body ++ tail) = true -> err <> None).
Proof.
  intros SH tail NT NF. destruct SH.
  - split; [|discriminate].
    rewrite af_prefix; [apply af_no_bringup; auto|]. cbn [existsb is_failed_shut orb]. apply existsb_map_none. reflexivity.
  - assert (existsb is_failed_shut (AGet g true :: map (ACreate g) (create_order (cfg_of o g)) ++
              map (fun x => AStart g x true) (start_order (cfg_of o g))) = false) as Z.
    { cbn [existsb is_failed_shut orb]. rewrite existsb_app, !existsb_map_none by reflexivity. reflexivity. }
    split.
    + rewrite af_prefix by exact Z. apply af_no_bringup; auto.
    + rewrite existsb_app, Z, NF. discriminate.
  - split; [|discriminate].
    replace ((AGet g true :: map (ACreate g) (create_order (cfg_of o g)) ++
              (map (fun x => AStart g x true) pre ++ [AStart g k false]) ++ fst (svc_shutdown g (cfg_of o g))) ++ tail)
      with ((AGet g true :: map (ACreate g) (create_order (cfg_of o g)) ++
              (map (fun x => AStart g x true) pre ++ [AStart g k false])) ++ (fst (svc_shutdown g (cfg_of o g)) ++ tail))
      by (cbn [app]; rewrite <- !app_assoc; reflexivity).
    rewrite af_prefix.
    + apply af_no_bringup. rewrite forallb_app, sweep_no_bringup, NT. reflexivity.
    + cbn [existsb is_failed_shut orb]. rewrite !existsb_app, !existsb_map_none by reflexivity. reflexivity.
Qed.

(* SL1: a section that contains a failed Shutdown ends the run, and nothing is created or started
   after it in that section *)
Lemma failed_shutdown_section o s l s' a :
  step o s l = (s', a) ->
  after_failed_shutdown_b a = true /\ (existsb is_failed_shut a = true -> exists k, st_pc s' = PDone k).
Proof.
  intros ST. destruct (is_run l) eqn:ER.
  2:{ destruct (env_step_shape o s l s' a ST ER) as [[->|[->| ->]] _]; split; auto; discriminate. }
  destruct l; try discriminate. simpl in ST. unfold run_step in ST.
  destruct (st_pc s) eqn:EP.
  - inversion ST; subst. split; auto; discriminate.
  - destruct (setup o (st_gen s) (st_open s)) as [[acts err] open'] eqn:ES.
    apply setup_cases in ES as [body [-> SH]].
    assert (forall tail, forallb not_bringup tail = true -> existsb is_failed_shut tail = false ->
             after_failed_shutdown_b ((closes_of (st_open s) ++ body) ++ tail) = true /\
             (existsb is_failed_shut ((closes_of (st_open s) ++ body) ++ tail) = true -> err <> None)) as B.
    { intros tail NT NF. rewrite <- app_assoc, af_prefix by apply closes_no_failed.
      rewrite existsb_app, closes_no_failed. cbn [orb]. apply (shape_af _ _ _ _ SH); auto. }
    destruct err as [e|].
    + destruct initial; destruct e; inversion ST; subst; (split; [apply B; reflexivity|intros _; eexists; reflexivity]).
    + inversion ST; subst. destruct (B [ASetState Running] eq_refl eq_refl) as [B1 B2].
      split; auto. intros H. exfalso. apply (B2 H). reflexivity.
  - unfold take in ST. destruct b;
      repeat match type of ST with context [match ?x with _ => _ end] => destruct x end;
      inversion ST; subst; split; auto; discriminate.
  - destruct (svc_shutdown (live_gen s) (cfg_of o (live_gen s))) as [acts ok] eqn:ESW.
    assert (acts = fst (svc_shutdown (live_gen s) (cfg_of o (live_gen s)))) as EA by now rewrite ESW.
    assert (ok = snd (svc_shutdown (live_gen s) (cfg_of o (live_gen s)))) as EO by now rewrite ESW.
    destruct ok; inversion ST; subst.
    + split; [apply af_no_bringup; rewrite forallb_app, sweep_no_bringup; reflexivity|].
      rewrite existsb_app, sweep_ok_no_failed by auto. discriminate.
    + split; [apply af_no_bringup; rewrite forallb_app, sweep_no_bringup; reflexivity|].
      intros _. eexists; reflexivity.
  - destruct (svc_shutdown (live_gen s) (cfg_of o (live_gen s))) as [acts ok] eqn:ESW.
    assert (acts = fst (svc_shutdown (live_gen s) (cfg_of o (live_gen s)))) as EA by now rewrite ESW.
    inversion ST; subst. split.
    + apply af_no_bringup. rewrite !forallb_app, fprefix_no_bringup, sweep_no_bringup. reflexivity.
    + intros _. eexists; reflexivity.
  - inversion ST; subst. split; auto; discriminate.
  - inversion ST; subst. split; auto; discriminate.
Qed.

(* global: in every run, nothing is created or started after a component failed to shut down, and
   a run containing a failed Shutdown has returned *)
Lemma failed_shutdown_global o ls :
  after_failed_shutdown_b (snd (run o init ls)) = true /\
  (existsb is_failed_shut (snd (run o init ls)) = true -> exists k, st_pc (fst (run o init ls)) = PDone k).
Proof.
  induction ls as [|l ls IH] using rev_ind; [split; [reflexivity|discriminate]|].
  rewrite run_app. destruct (run o init ls) as [s0 log0] eqn:E0. cbn [run].
  destruct (step o s0 l) as [s1 a1] eqn:E1. cbn [fst snd] in *. rewrite app_nil_r.
  destruct IH as [IH1 IH2].
  destruct (failed_shutdown_section o s0 l s1 a1 E1) as [S1 S2].
  destruct (existsb is_failed_shut log0) eqn:F0.
  - destruct (IH2 eq_refl) as [k K]. destruct (done_is_final o s0 l s1 a1 k K E1) as [D1 [D2 _]].
    split; [apply af_app_tail; auto|intros _; eauto].
  - split; [rewrite af_prefix; auto|]. rewrite existsb_app, F0. cbn [orb]. exact S2.
Qed.

(* ---- Run returns THE ERROR: the one value a failed run returns is an error ---------------------------- *)
Lemma failed_run_returns_error_l o ls : forall k,
  st_pc (fst (run o init ls)) = PDone k -> k <> DStopped ->
  exists l1 e l2, snd (run o init ls) = l1 ++ AReturn e :: l2 /\ fail_result e = true /\ count is_return (l1 ++ l2) = 0.
Proof.
  induction ls as [|l ls IH] using rev_ind; intros k EP NK; [discriminate|].
  rewrite run_app in *. destruct (run o init ls) as [s0 log0] eqn:E0. cbn [run] in *.
  destruct (step o s0 l) as [s1 a1] eqn:E1. cbn [fst snd] in *. rewrite app_nil_r in *.
  destruct (st_pc s0) eqn:EP0;
    try (assert (forall k0, st_pc s0 <> PDone k0) as ND by (intros k0; rewrite EP0; discriminate);
         destruct (is_run l) eqn:ER;
         [destruct l; try discriminate;
          pose proof (failure_returns_error_l o s0 b k ND) as FR; rewrite E1 in FR; cbn [fst snd] in FR;
          destruct (FR EP NK) as [pre [e [-> NE]]];
          pose proof (run_inv o ls s0 log0 E0) as [C0 _]; pose proof (C_ret _ _ C0) as R0; rewrite EP0 in R0;
          pose proof (run_inv o (ls ++ [LRun b])) as RI; rewrite run_app, E0 in RI; cbn [run] in RI;
          change (run_step o s0 b) with (step o s0 (LRun b)) in RI; rewrite E1 in RI; cbn [fst snd] in RI;
          destruct (RI s1 (log0 ++ (pre ++ [AReturn e]) ++ []) eq_refl) as [C1 _]; pose proof (C_ret _ _ C1) as R1; rewrite EP in R1;
          rewrite app_nil_r, !count_app, count_cons, count_nil in R1; cbn in R1;
          exists (log0 ++ pre), e, []; rewrite app_nil_r, <- app_assoc; repeat split; auto; rewrite count_app; lia
         |destruct (env_step_shape o s0 l s1 a1 E1 ER) as [_ [_ [_ K]]]; rewrite K, EP0 in EP; discriminate]).
  destruct (done_is_final o s0 l s1 a1 k0 EP0 E1) as [D1 [_ D3]].
  rewrite D1 in EP. inversion EP; subst k0.
  destruct (IH k eq_refl NK) as [l1 [e [l2 [-> [NE Z]]]]].
  exists l1, e, (l2 ++ a1). rewrite <- app_assoc. cbn [app]. repeat split; auto.
  rewrite app_assoc, count_app, Z, D3. reflexivity.
Qed.

(* with the repairs Run is never blocked: the run ends with Run returned *)
Lemma stop_pending_returns_l o s bs :
  st_pc s <> PStuck ->
  st_chan_closed s = true \/ st_ctx_done s = true ->
  run_enabled o s bs = true ->
  let s' := fst (run o s (map LRun bs)) in
  length bs <= mu s /\ ((forall b, enabled s' (LRun b) = false) -> exists k, st_pc s' = PDone k).
Proof.
  intros NS ST RE. destruct (stop_pending_ends_run_l o s bs ST RE) as [H1 H2]. cbv zeta. split; auto.
  intros T. destruct (H2 T) as [K|K]; auto. exfalso. apply (never_stuck_l o (map LRun bs) s NS K).
Qed.
