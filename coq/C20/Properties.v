(* C20/Properties.v — the property theorems, nothing else.  Each is closed by [exact lemma] and
   followed by Print Assumptions.  Every statement quantifies over ALL oracles o (what each
   configuration generation does when it is brought up / shut down) and ALL finite label sequences
   ls (external events, Shutdown() calls whole or split in halves, sections of Run with every
   choice of ready select branch): run o init ls = (final state, action log). *)
From Verif Require Import Common.Base C20.Model C20.Proofs1 C20.Proofs2 C20.Proofs3 C20.Proofs4.
(* obligations tying the model's State codes / names / GetState / method set to the translated Go source *)
From Verif Require C20.Tie.
From Verif Require Import C20.ObsCheck C20.ObsSound C20.Harness C20.ObsLink.

(* ---- Starting -> Running -> Closing -> Closed --------------------------------------------------- *)
(* The sequence of setCollectorState values is a word of the automaton [pdelta]:
   Starting (Closed | Running (Closing Starting Running)* (eps | Closing (eps | Closed | Starting))) *)
Theorem phase_order : forall o ls, phase_word (states_of (snd (run o init ls))) <> QBad.
Proof. exact phase_order_l. Qed.

(* ... in words: the first state set is Starting; consecutive states a, b are one of
   Starting->Running, Starting->Closed, Running->Closing, Closing->Starting, Closing->Closed;
   Starting->Closed happens only for the initial configuration; nothing follows Closed. *)
Theorem phase_order_in_words : forall o ls,
  let w := states_of (snd (run o init ls)) in
  match w with [] => True | p :: _ => p = Starting end /\
  (forall l1 a b l2, w = l1 ++ a :: b :: l2 -> edge a b = true) /\
  (forall l1 l2, w = l1 ++ Starting :: Closed :: l2 -> l1 = []) /\
  (forall l1 l2, w = l1 ++ Closed :: l2 -> l2 = []).
Proof.
  exact (fun o ls =>
    conj (word_first _ (phase_order_l o ls))
   (conj (word_edges _ QStart (phase_order_l o ls))
   (conj (word_start_closed _ (phase_order_l o ls)) (closed_is_last _ (phase_order_l o ls))))).
Qed.

(* ---- one live service at a time ------------------------------------------------------------------- *)
(* Whenever a component of generation g' is created or started, every component that is live
   (started and not yet shut down) at that moment belongs to generation g'. *)
Theorem one_live_service : forall o ls l1 a l2,
  snd (run o init ls) = l1 ++ a :: l2 ->
  forall g' c', (a = ACreate g' c' \/ exists ok, a = AStart g' c' ok) ->
  forall g c, In (g, c) (live_after [] l1) -> g = g'.
Proof. exact one_live_service_l. Qed.

(* At every moment the live components all belong to one generation. *)
Theorem live_components_one_generation : forall o ls l1 l2,
  ls = l1 ++ l2 ->
  forall p q, In p (live_after [] (snd (run o init l1))) -> In q (live_after [] (snd (run o init l1))) -> fst p = fst q.
Proof. exact (fun o ls l1 l2 _ => live_one_generation_l o l1). Qed.

(* ---- exactly once ------------------------------------------------------------------------------------ *)
Theorem provider_shutdown_at_most_once : forall o ls, count is_prov_shut (snd (run o init ls)) <= 1.
Proof. exact provider_once_l. Qed.

Theorem component_shutdown_at_most_once : forall o ls g c, count (is_shut g c) (snd (run o init ls)) <= 1.
Proof. exact shut_once_l. Qed.

(* ---- ends Closed -------------------------------------------------------------------------------------- *)
(* A run that left the loop through a stop branch and finished shutdown(): state Closed, Run
   returned once, the providers shut down exactly once, nothing left started, every component that
   was started shut down exactly once.  (No hypothesis on the history.) *)
Theorem stopped_run_is_closed : forall o ls s log,
  run o init ls = (s, log) -> st_pc s = PDone DStopped ->
  st_phase s = Closed /\ count is_prov_shut log = 1 /\ count is_return log = 1 /\
  live_after [] log = [] /\
  (forall g c, count (is_shut g c) log <= 1) /\
  (forall g c, count (is_start g c) log >= 1 -> count (is_shut g c) log = 1).
Proof. exact stopped_run_l. Qed.

(* At the select (state Running) a ready stop branch — shutdown channel closed, SIGINT/SIGTERM at
   the head of the signal channel, context done, an asynchronous error, a watch error — leads
   into shutdown() with the state set to Closing. *)
Theorem stop_branch_enters_shutdown : forall o s b,
  st_pc s = PSelect -> stop_branch s b = true ->
  exists bg, st_pc (fst (step o s (LRun b))) = PFinal bg /\ st_phase (fst (step o s (LRun b))) = Closing.
Proof. exact stop_branch_final_l. Qed.

(* A Shutdown() accepted / a cancelled context stays ready until Run takes it: it is never lost. *)
Theorem stop_request_is_sticky : forall o ls s,
  (st_chan_closed s = true -> st_chan_closed (fst (run o s ls)) = true) /\
  (st_ctx_done s = true -> st_ctx_done (fst (run o s ls)) = true).
Proof. exact sticky_l. Qed.

(* shutdown() is one section and always completes: Run sets Closed and returns (the service shutdown
   cannot be blocked: shutdownService keeps receiving from asyncErrorChannel meanwhile). *)
Theorem shutdown_section_completes : forall o s bg b,
  st_pc s = PFinal bg ->
  st_pc (fst (step o s (LRun b))) = PDone DStopped /\ st_phase (fst (step o s (LRun b))) = Closed /\
  exists pre r, snd (step o s (LRun b)) = pre ++ [ASetState Closed; AReturn r].
Proof. exact final_step_l. Qed.

(* FULL (was _partial/_refuted before commit 98f2ce3d0, finding C20-FATAL-DEADLOCK): for EVERY history
   Run is never blocked, the retirement of the old service in a reload always completes, and —
   with stop_branch_enters_shutdown, stop_request_is_sticky, shutdown_section_completes and
   stopped_run_is_closed — a run that reached Running and takes a stop event ends in Closed with
   everything shut down exactly once and Run returned. *)
Theorem ends_closed : forall o,
  (forall ls, st_pc (fst (run o init ls)) <> PStuck) /\
  (forall s b, st_pc s = PReload ->
     st_pc (fst (step o s (LRun b))) = PSetup false \/ st_pc (fst (step o s (LRun b))) = PDone DRetireFail) /\
  (forall s bg b, st_pc s = PFinal bg ->
     st_pc (fst (step o s (LRun b))) = PDone DStopped /\ st_phase (fst (step o s (LRun b))) = Closed).
Proof.
  exact (fun o => conj (fun ls => never_stuck_l o ls init ltac:(discriminate))
                 (conj (reload_step_l o) (fun s bg b E => conj (proj1 (final_step_l o s bg b E)) (proj1 (proj2 (final_step_l o s bg b E)))))).
Qed.

(* regression: the history that deadlocked the old code (Old.v, ex_deadlock_old) now ends Closed *)
Theorem deadlock_history_now_closes :
  let r := run refute_oracle init refute_history in
  st_pc (fst r) = PDone DStopped /\ st_phase (fst r) = Closed /\ st_async (fst r) = [] /\
  last_opt (snd r) = Some (AReturn RNil).
Proof. exact deadlock_history_now_closes_l. Qed.

(* ---- bring-up failure ---------------------------------------------------------------------------------- *)
(* However Run ended (initial or reloaded configuration not brought up, retiring service failing
   to shut down, or a stop): it returned once, nothing is left started, every started component
   was shut down exactly once. *)
Theorem bringup_failure_cleans_up : forall o ls s log k,
  run o init ls = (s, log) -> st_pc s = PDone k ->
  count is_return log = 1 /\ live_after [] log = [] /\
  (forall g c, count (is_shut g c) log <= 1) /\
  (forall g c, count (is_start g c) log >= 1 -> count (is_shut g c) log = 1) /\
  (k <> DStopped -> count is_prov_shut log = 0 /\ st_phase s <> Running).
Proof. exact finished_run_l. Qed.

(* ... and the section that ends the run with a failure returns an error (fail_result: one of the
   bring-up / retire error classes, hence not nil and not a stop result). *)
Theorem failure_returns_error : forall o s b k,
  (forall k0, st_pc s <> PDone k0) -> st_pc (fst (step o s (LRun b))) = PDone k -> k <> DStopped ->
  exists pre e, snd (step o s (LRun b)) = pre ++ [AReturn e] /\ fail_result e = true.
Proof. exact failure_returns_error_l. Qed.

(* Observation (not required by the property as worded): a run ended by a failed reload is left
   in state Starting (or Closing) and its configuration providers are never shut down. *)
Theorem reload_failure_not_closed :
  exists o ls, let s := fst (run o init ls) in let log := snd (run o init ls) in
    st_pc s = PDone DReloadFail /\ count is_return log = 1 /\ st_phase s = Starting /\ count is_prov_shut log = 0.
Proof. exact reload_failure_not_closed_l. Qed.

(* ---- Shutdown() ------------------------------------------------------------------------------------------ *)
(* Any number of Shutdown() calls (whole, or split in halves interleaved with anything and with
   each other — the callers are any goroutines) from any state: the channel is closed at most once
   over the whole run; a call in Closing/Closed does nothing; a call in Running/Starting leaves the
   channel closed; a repeated call changes nothing and closes nothing; the only thing a call ever
   touches is the channel. *)
Theorem shutdown_idempotent_safe : forall o,
  (forall ls, count is_close_chan (snd (run o init ls)) <= 1) /\
  (forall s, st_phase s = Closed \/ st_phase s = Closing -> step o s LShutdownCall = (s, [])) /\
  (forall s, st_phase s = Running \/ st_phase s = Starting -> st_chan_closed (fst (step o s LShutdownCall)) = true) /\
  (forall s, let s1 := fst (step o s LShutdownCall) in
     fst (step o s1 LShutdownCall) = s1 /\ count is_close_chan (snd (step o s1 LShutdownCall)) = 0) /\
  (forall s, let s1 := fst (step o s LShutdownCall) in
     st_pc s1 = st_pc s /\ st_phase s1 = st_phase s /\ st_live s1 = st_live s /\ st_gen s1 = st_gen s /\
     st_sigs s1 = st_sigs s /\ st_watch s1 = st_watch s /\ st_async s1 = st_async s /\ st_ctx_done s1 = st_ctx_done s /\
     st_prov_shut s1 = st_prov_shut s /\ st_closers s1 = st_closers s).
Proof.
  exact (fun o => conj (close_once_l o) (conj (shutdown_noop_l o) (conj (shutdown_accepted_l o)
                 (conj (shutdown_idempotent_l o) (shutdown_only_closes_l o))))).
Qed.

(* The recover() inside Shutdown() is what makes that safe: there ARE schedules in which a close hits
   the already closed channel — two callers that both pass the state check before either closes
   (no "is it closed?" test in front of the close can exclude this: test and close of two callers
   interleave the same way), or simply a second call while still Running/Starting.  In the model
   that event is ARecovered; an implementation without the guard crashes the process there. *)
Theorem recover_guard_is_exercised :
  (exists o ls, ls = [LShutCheck; LShutCheck; LShutClose; LShutClose] /\
                count is_recovered (snd (run o init ls)) = 1 /\ count is_close_chan (snd (run o init ls)) = 1) /\
  (forall o s, (st_phase s = Running \/ st_phase s = Starting) -> st_chan_closed s = true ->
               snd (step o s LShutdownCall) = [ARecovered]).
Proof. exact recover_exercised_l. Qed.

(* ---- pending events are never dropped ----------------------------------------------------------------- *)
(* Watcher notifications (any number of them pending: one in the resolver's 1-slot channel, the
   others as blocked provider goroutines) and senders on asyncErrorChannel form FIFO queues: a label
   either leaves the queue alone, appends to it, or — only Run, in the select, taking that branch —
   removes the HEAD and acts on it (watch error / async error: shutdown(); change: reload).  So a
   watch error sent right behind a pending change is still there when the reload is over.  The one
   exceptions are the third cases: shutdown() releases the provider goroutines still blocked behind the
   buffered notification (nobody is going to re-fetch), and while Run shuts a service down (reload
   retirement, shutdown(), clean-up after a failed Start) it receives and discards whatever is sent
   on asyncErrorChannel — the service those errors belong to is going away. *)
Theorem pending_notifications_never_dropped : forall o s l,
  let s' := fst (step o s l) in
  ((exists x, st_watch s' = st_watch s ++ x) \/
   (l = LRun BrWatch /\ st_pc s = PSelect /\
    exists e, st_watch s = e :: st_watch s' /\ st_pc s' = (if e then PFinal false else PReload)) \/
   (exists b bg, l = LRun b /\ st_pc s = PFinal bg /\ st_watch s' = firstn 1 (st_watch s))) /\
  ((exists x, st_async s' = st_async s ++ x) \/
   (l = LRun BrAsync /\ st_pc s = PSelect /\ exists e, st_async s = e :: st_async s' /\ st_pc s' = PFinal false) \/
   (exists b, l = LRun b /\ st_async s' = [] /\
      (st_pc s = PReload \/ (exists bg, st_pc s = PFinal bg) \/ (exists i k, st_pc s = PSetup i /\ st_pc s' = PDone k)))).
Proof. exact (fun o s l => conj (watch_fifo_l o s l) (async_fifo_l o s l)). Qed.

(* ---- every registered provider, exactly once --------------------------------------------------------- *)
(* At the provider level (Model.expand: the resolver's loops over a topology of n_uri configuration
   URIs served by provider 0, an optional provider used for one ${...} expansion only and an optional
   provider that serves nothing): no registered provider is ever shut down twice; after a stopped
   run EVERY registered provider — whether it served several URIs, only an expansion, or nothing —
   has been shut down exactly once and nothing else has; a run that ended by a bring-up / retire
   failure shut none down. *)
Theorem each_provider_shut_down_exactly_once : forall t o ls,
  (forall p, pcount (is_pshut p) (expand t (snd (run o init ls))) <= 1) /\
  (forall s log, run o init ls = (s, log) -> st_pc s = PDone DStopped ->
     forall p, pcount (is_pshut p) (expand t log) = if p <? 1 + n_aux t then 1 else 0) /\
  (forall s log k, run o init ls = (s, log) -> st_pc s = PDone k -> k <> DStopped ->
     forall p, pcount (is_pshut p) (expand t log) = 0).
Proof. exact each_provider_once_l. Qed.

(* ---- orderly shutdown: no provider goroutine is killed --------------------------------------------------- *)
(* FULL (was _partial/_refuted before commit bc929f066, finding C20-WATCH-SEND-ON-CLOSED): in EVERY
   history no provider goroutine panics — the watcher channel is closed only after the senders
   blocked in onChange have been released. *)
Theorem orderly_shutdown : forall o ls s, count is_sender_panic (snd (run o s ls)) = 0.
Proof. exact no_sender_panic_l. Qed.

(* regression: the history on which the old code panicked (Old.v, ex_panic_old) is now orderly *)
Theorem panic_history_now_orderly :
  let r := run refute_oracle init panic_history in
  st_pc (fst r) = PDone DStopped /\ st_phase (fst r) = Closed /\ count is_sender_panic (snd r) = 0 /\
  st_watch (fst r) = [false].
Proof. exact panic_history_now_orderly_l. Qed.

(* ---- liveness, as far as a model of finite runs can say it ------------------------------------------------ *)
(* RANKING FUNCTION.  Every enabled section of Run strictly decreases Model.mu (4 x number of queued
   signals / notifications / async senders + a weight of the program counter) ... *)
Theorem run_section_decreases_measure : forall o s b,
  enabled s (LRun b) = true -> mu (fst (step o s (LRun b))) < mu s.
Proof. exact run_step_decreases. Qed.

(* ... an external label raises it by at most 4: Run executes at most mu s + 4 x (number of later
   injections) sections — it cannot stay busy for ever on finitely many events ... *)
Theorem external_label_raises_measure_by_4 : forall o s l,
  is_run l = false -> mu (fst (step o s l)) <= mu s + 4.
Proof. exact env_step_raises_by_4. Qed.

(* ... and with a sticky stop request pending (shutdown channel closed or context cancelled) any
   sequence of enabled sections has at most mu s members, and when none is enabled any more Run has
   returned — it cannot come to rest in the select.  Hence
   the only way a pending stop request is never honoured is an infinite stream of reload requests
   each of which the select prefers to it; a weakly fair select (Go's is uniformly random) excludes
   that, but infinite runs and fairness are outside this finite-run model (NOTES.md). *)
Theorem stop_request_ends_run : forall o s bs,
  st_pc s <> PStuck ->
  st_chan_closed s = true \/ st_ctx_done s = true ->
  run_enabled o s bs = true ->
  let s' := fst (run o s (map LRun bs)) in
  length bs <= mu s /\ ((forall b, enabled s' (LRun b) = false) -> exists k, st_pc s' = PDone k).
Proof. exact stop_pending_returns_l. Qed.

(* ---- the decidable checker run over every OBSERVED history -------------------------------------------- *)
(* ObsCheck.obs_verdict (evaluated by the check driver on the event log of every recorded case,
   whatever the model says) returns 0 exactly when the observed log satisfies: one live service at a
   time; no component shut down twice; nothing created or started after a failed Shutdown; no
   provider shut down twice; nothing left started once Run has returned; after a stopped run every
   started component and every registered provider shut down exactly once. *)
Theorem observed_clause_checker_is_sound : forall nprov lg ret,
  obs_verdict nprov lg ret = 0 <->
  let log := map decode lg in let pl := flat_map decode_p lg in
  one_live_clause [] log /\
  (forall g c, count (is_shut g c) log <= 1) /\
  after_failed_clause log /\
  prov_once_b pl = true /\
  (ret_class ret <> 0 -> live_after [] log = []) /\
  (is_stopped ret = true -> stopped_exact_b nprov log pl = true).
Proof. exact obs_verdict_sound. Qed.

(* ---- "completely shut down" / "Run returns the error" --------------------------------------------------- *)
(* In every run: once a component has failed to shut down (the retiring service is then NOT
   completely shut down) nothing is created or started any more, and Run has returned. *)
Theorem no_bringup_after_failed_shutdown : forall o ls,
  after_failed_clause (snd (run o init ls)) /\
  (existsb is_failed_shut (snd (run o init ls)) = true -> exists k, st_pc (fst (run o init ls)) = PDone k).
Proof.
  exact (fun o ls => conj (proj1 (after_failed_iff _) (proj1 (failed_shutdown_global o ls)))
                          (proj2 (failed_shutdown_global o ls))).
Qed.

(* When the INITIAL configuration cannot be brought up the run ends in Closed (Starting -> Closed). *)
Theorem initial_failure_ends_closed : forall o ls,
  st_pc (fst (run o init ls)) = PDone DInitFail -> st_phase (fst (run o init ls)) = Closed.
Proof. exact initial_failure_closed_l. Qed.

(* A run that ended because the initial / reloaded configuration could not be brought up or the
   retiring service failed to shut down returned exactly one value, and that value is an error. *)
Theorem failed_run_returns_the_error : forall o ls k,
  st_pc (fst (run o init ls)) = PDone k -> k <> DStopped ->
  exists l1 e l2, snd (run o init ls) = l1 ++ AReturn e :: l2 /\ fail_result e = true /\ count is_return (l1 ++ l2) = 0.
Proof. exact failed_run_returns_error_l. Qed.

(* THE LINK back to the model: observe the MODEL's own run the way the harness observes the
   implementation (Harness.wire_log over any resolver topology, ret_of, the panic count in the
   result code) — the checker passes, for every oracle, topology and history.  So the checker never
   demands more than the model delivers (no false alarm on a run that agrees with the model), and a
   non-zero verdict on an observed history is a disagreement with a THEOREM, not with a heuristic. *)
Theorem model_passes_clause_checker : forall t o ls,
  let acts := snd (run o init ls) in
  obs_verdict (1 + n_aux t) (wire_log t Starting acts) (ret_of acts + 100 * count is_sender_panic acts) = 0.
Proof. exact model_passes_clause_checker_l. Qed.

(* ---- a fatal component status reaches the run loop whatever its error value ------------------------------ *)
(* Model.forwards_async (tied to the running code by Tie.fatal_forwarding_is_the_go_table): an event is
   forwarded to the asynchronous error channel iff its status is StatusFatalError — with an error
   value or without; and such a report by a component of the running service is queued for Run
   (label LInjAsync (SndFatal g)), where stop_branch_enters_shutdown / ends_closed take over. *)
Theorem fatal_status_reaches_the_run_loop :
  (forall has_err, forwards_async 5 has_err = true) /\
  (forall st has_err, forwards_async st has_err = true -> st = 5%Z) /\
  (forall o s g, st_live s = Some g ->
     st_async (fst (step o s (LInjAsync (SndFatal g)))) = st_async s ++ [SndFatal g] /\
     stop_branch (fst (step o s (LInjAsync (SndFatal g)))) BrAsync = true).
Proof. exact fatal_reaches_loop_l. Qed.

Print Assumptions phase_order.
Print Assumptions phase_order_in_words.
Print Assumptions one_live_service.
Print Assumptions live_components_one_generation.
Print Assumptions provider_shutdown_at_most_once.
Print Assumptions component_shutdown_at_most_once.
Print Assumptions stopped_run_is_closed.
Print Assumptions stop_branch_enters_shutdown.
Print Assumptions stop_request_is_sticky.
Print Assumptions shutdown_section_completes.
Print Assumptions bringup_failure_cleans_up.
Print Assumptions failure_returns_error.
Print Assumptions reload_failure_not_closed.
Print Assumptions shutdown_idempotent_safe.
Print Assumptions recover_guard_is_exercised.
Print Assumptions pending_notifications_never_dropped.
Print Assumptions each_provider_shut_down_exactly_once.
Print Assumptions run_section_decreases_measure.
Print Assumptions external_label_raises_measure_by_4.
Print Assumptions stop_request_ends_run.
Print Assumptions Tie.state_codes_are_the_go_constants.
Print Assumptions Tie.state_names_are_the_go_strings.
Print Assumptions Tie.observed_state_is_the_stored_word.
Print Assumptions Tie.collector_api_is_the_modelled_one.
Print Assumptions observed_clause_checker_is_sound.
Print Assumptions no_bringup_after_failed_shutdown.
Print Assumptions failed_run_returns_the_error.
Print Assumptions initial_failure_ends_closed.
Print Assumptions ends_closed.
Print Assumptions deadlock_history_now_closes.
Print Assumptions orderly_shutdown.
Print Assumptions panic_history_now_orderly.
Print Assumptions model_passes_clause_checker.
Print Assumptions fatal_status_reaches_the_run_loop.
Print Assumptions Tie.fatal_forwarding_is_the_go_table.
