(* C05/ClausesProofs.v — the boolean clause checker (C05/Clauses.v) says what its Prop-level reading says. *)
From Verif Require Import Common.Base Generated.C05BackoffValidate C05.Model C05.Harness C05.Clauses.
From Coq Require Import ZifyBool.
Local Open Scope Z_scope.

Lemma followed_ok_iff sc st : followed_ok sc st = true <-> Followed sc st.
Proof.
  unfold followed_ok, Followed, fits_b, is_ok, res_err.
  destruct (c_enabled (sc_cfg sc)); simpl; [|split; [discriminate|intros (H & _); discriminate]].
  destruct (o_res st) as [|ch]; simpl.
  { split; [discriminate|]. intros (_ & (ch & H & _) & _). discriminate. }
  destruct (is_permanent ch) eqn:P; simpl.
  { split; [discriminate|]. intros (_ & (ch' & H & H') & _). inversion H; subst. congruence. }
  destruct (o_delay st) as [d|].
  2:{ split; [discriminate|]. intros (_ & _ & d & H & _). discriminate. }
  destruct (sc_deadline sc) as [dl|]; destruct (sc_stop sc) as [s|]; destruct (ctx_done sc) as [c|];
    (split;
     [ intros H; split; [reflexivity|]; split; [eauto|]; exists d; split; [reflexivity|];
       repeat split; intros;
       repeat match goal with E : Some _ = Some _ |- _ => inversion E; subst; clear E end; try discriminate; lia
     | intros (_ & _ & d' & Hd & H1 & H2 & H3 & H4); inversion Hd; subst;
       try specialize (H2 _ eq_refl); try specialize (H3 _ eq_refl); try specialize (H4 _ eq_refl); lia ]).
Qed.

Lemma wait_ok_sound valid sc st : wait_ok valid sc st = true -> WaitOk sc st.
Proof.
  unfold wait_ok, WaitOk, fits_b. intros H d Hd. rewrite Hd in H.
  destruct (throttle_of (res_err (o_res st))) as [t|]; destruct (sc_deadline sc) as [dl|];
    (split; [intros t' Ht; try discriminate; try (inversion Ht; subst); lia|]);
    (split; [lia|]); intros dl' Hdl; try discriminate; try (inversion Hdl; subst); lia.
Qed.

Lemma after_stop_ok_iff sc st : after_stop_ok sc st = true <-> AfterStopOk sc st.
Proof.
  unfold after_stop_ok, AfterStopOk. destruct (o_idx st) as [|k]; destruct (sc_stop sc) as [s|].
  - split; [intros _ s' _ H; lia|reflexivity].
  - split; [intros _ s' H; discriminate|reflexivity].
  - split; [intros H s' Hs _; inversion Hs; subst; lia|intros H; specialize (H s eq_refl ltac:(lia)); lia].
  - split; [intros _ s' H; discriminate|reflexivity].
Qed.

Lemma flag_nil code b : flag code b = [] <-> b = true.
Proof. destruct b; simpl; split; intros; try reflexivity; try discriminate. Qed.

Lemma In_pairs_fst {A} (l : list A) a b : In (a, b) (pairs l) -> In a l /\ In b l.
Proof.
  revert a b. induction l as [|x [|y r] IH]; simpl; intros a b H; try contradiction.
  destruct H as [H|H].
  - inversion H; subst. auto.
  - destruct (IH a b H) as [H1 H2]. simpl in *. tauto.
Qed.

(* soundness of the checker on a retry case: if it reports no violation then, on the observed timeline, every
   attempt that was followed by another one satisfied the "retried only if" clause, every entered wait
   respected the throttle delay and fitted the budget and the deadline, and no retry started at or after the
   shutdown instant *)
Lemma prop_ok_sound_l : forall h payload script atts delays final,
  zn h 0 = 0 ->
  prop_ok (h, (payload, (script, (atts, (delays, final))))) = true ->
  let sc := scenario_of h payload delays in
  let l := rebuild sc (map attempt_of script) atts delays 0%nat 0 in
  (forall st st', In (st, st') (pairs l) -> Followed sc st) /\
  (forall st, In st l -> WaitOk sc st) /\
  (forall st, In st l -> AfterStopOk sc st).
Proof.
  intros h payload script atts delays final K H sc l. unfold prop_ok, violations in H. rewrite K in H. simpl in H.
  unfold violations_run, violations_core in H. fold sc in H. fold l in H.
  destruct (flag 1 _ ++ _) eqn:E in H; [|discriminate]. clear H.
  repeat (apply app_eq_nil in E; destruct E as [? E]).
  repeat match goal with H : flag _ _ = [] |- _ => apply flag_nil in H end.
  split; [|split].
  - intros st st' I. apply followed_ok_iff.
    match goal with H : forallb (fun p => followed_ok sc (fst p)) _ = true |- _ => rewrite forallb_forall in H; exact (H (st, st') I) end.
  - intros st I. apply (wait_ok_sound (config_valid h)).
    match goal with H : forallb (wait_ok _ sc) l = true |- _ => rewrite forallb_forall in H; exact (H st I) end.
  - intros st I. apply after_stop_ok_iff.
    rewrite forallb_forall in E. exact (E st I).
Qed.
