(* C05/Harness.v — comparison of the model with the observations recorded from the real
   retrySender / timeoutSender / BaseExporter by harness/C05/retry_test.go.  Imports only the
   model (and the generated Validate), never the proofs.

   Wire form of one case (all numbers Z, durations in ns, -1 = absent):
     (hdr, (payload, (script, (attempts, (delays, final)))))
   kind 0 (hdr[0] = 0): a retry run
     hdr      = [0; enabled; init; rf_num; rf_den; mult_num; mult_den; max_interval; max_elapsed;
                 timeout; signal; deadline; cancel_at; stop_at; 0]
     payload  = item ids of the request
     script   = [(dur, tokens)] ; the error tree in prefix form: (0,[]) permanent, (1,[d]) throttle,
                (2, sig :: rem) partial, (3,[]) shutdown error, (4,[]) fmt wrap — each followed by what it
                wraps; (5,[n]) a combination followed by its n members; (6,[]) the base error (may be
                omitted at the very end) ; (7,[is_any; perm; shutdown; throttle; partial_signal; rem..]) an error type
                with its own As/Is methods, followed by what it wraps ; (9,[]) alone = success ; a leading (8,[]) = the exporter call ignores its context
     attempts = observed calls of the exporter function: (item ids, deadline class)
                class 0 none, 1 = the caller's deadline, 2 = start + timeout
     delays   = the back-off delays logged by retrySender ("interval"), in order
     final    = [verdict; IsShutdownErr; IsPermanent] of the error returned by Send
   kind 1 (hdr[0] = 1): BackOffConfig.Validate
     hdr      = [1; enabled; init; rf_num; rf_den; mult_num; mult_den; max_interval; max_elapsed; isnil]
     payload  = bytes of the error message (empty when nil)
   kind 2 (hdr[0] = 2): TimeoutConfig.Validate, hdr = [2; timeout; isnil] *)
From Verif Require Import Common.Base Generated.C05BackoffValidate Generated.C05RetryGo C05.Model.
From Coq Require Import String Ascii.
Local Open Scope Z_scope.

Definition wire_case : Type :=
  list Z * (list Z * (list (Z * list (Z * list Z)) * (list (list Z * Z) * (list Z * list Z)))).

Definition zn (l : list Z) (i : nat) : Z := nth i l (-1).
Definition zopt (z : Z) : option Z := if z <? 0 then None else Some z.

Definition signal_of_Z (z : Z) : signal := if z =? 0 then SLogs else if z =? 1 then STraces else SMetrics.

Definition layer_of (p : Z * list Z) : layer :=
  let '(code, args) := p in
  if code =? 0 then LPerm
  else if code =? 1 then LThrottle (nth 0%nat args 0)
  else if code =? 2 then LPartial (signal_of_Z (nth 0%nat args 0)) (tl args)
  else if code =? 3 then LShutdown
  else LWrap.

(* an error tree in prefix form: a wrapper token is followed by the error it wraps, (5,[n]) by its n
   members, (6,[]) is the base error; a missing tail is the base error (so a plain chain needs none) *)
Fixpoint parse_members (p : list (Z * list Z) -> option (err * list (Z * list Z))) (n : nat) (ts : list (Z * list Z))
  : option (list err * list (Z * list Z)) :=
  match n with
  | O => Some ([], ts)
  | S m => match p ts with
           | Some (e, r) => match parse_members p m r with
                            | Some (es, r') => Some (e :: es, r')
                            | None => None
                            end
           | None => None
           end
  end.

Fixpoint parse_err (fuel : nat) (ts : list (Z * list Z)) : option (err * list (Z * list Z)) :=
  match fuel with
  | O => None
  | S f =>
    match ts with
    | [] => Some (EBase, [])
    | (code, args) :: r =>
      if code =? 6 then Some (EBase, r)
      else if code =? 5 then
        match parse_members (parse_err f) (Z.to_nat (nth 0%nat args 0)) r with
        | Some (es, r') => Some (EJoin es, r')
        | None => None
        end
      else if code =? 7 then
        (* custom error type: args = [is_any; perm; shutdown; throttle; partial_signal (-1 none); rem...] *)
        match parse_err f r with
        | Some (e, r') =>
          let b i := negb (nth i args 0 =? 0) in
          let ls := (if b 1%nat then [LPerm] else []) ++ (if b 2%nat then [LShutdown] else []) ++
                    (if b 3%nat then [LThrottle 0] else []) ++
                    (if nth 4%nat args (-1) <? 0 then [] else [LPartial (signal_of_Z (nth 4%nat args 0)) (skipn 5 args)]) in
          Some (ECustom ls (b 0%nat) e, r')
        | None => None
        end
      else match parse_err f r with
           | Some (e, r') => Some (EWrap (layer_of (code, args)) e, r')
           | None => None
           end
    end
  end.

(* a malformed token list (never produced by the harness) becomes an error that cannot match *)
Definition err_of (ts : list (Z * list Z)) : err :=
  match parse_err (S (List.length ts)) ts with
  | Some (e, []) => e
  | _ => EJoin [EJoin []; EJoin []; EJoin []]
  end.

(* a leading token (8,[]) marks an exporter call that ignores its context *)
Definition attempt_of (p : Z * list (Z * list Z)) : attempt :=
  let '(dur, ls0) := p in
  let ig := match ls0 with (8, _) :: _ => true | _ => false end in
  let ls := if ig then tl ls0 else ls0 in
  match ls with
  | [(9, _)] => {| a_dur := dur; a_res := ROk; a_ignores_ctx := ig |}
  | _ => {| a_dur := dur; a_res := RErr (err_of ls); a_ignores_ctx := ig |}
  end.

Definition config_of (h : list Z) : config :=
  {| c_enabled := negb (zn h 1 =? 0); c_init := zn h 2; c_rf := (zn h 3, zn h 4); c_mult := (zn h 5, zn h 6);
     c_maxint := zn h 7; c_maxel := zn h 8 |}.

(* resolution of simultaneously ready select branches: the harness keeps ctx/timer instants apart, and
   a stop/timer tie ends in the shutdown verdict either way (post-timer re-check), so one fixed order
   suffices; hdr[14] is kept in the wire format (0) *)
Definition tie_of (z : Z) (k : nat) : list wake := [WCtx; WStop; WTimer].

(* the draw that makes getRandomValueFromInterval return the observed delay D (u = 0 when D is
   not in the envelope: the model's delay then differs from D and the case fails) *)
Definition draw_for (c : config) (cur D : Z) : Z * Z :=
  let '(rn, rd) := c_rf c in
  let ud := 2 * rn * cur + rd in
  let un := D * rd - cur * (rd - rn) in
  if (0 <=? un) && (un <? ud) then (un, ud) else (0, 1).

Fixpoint draws_of (c : config) (cur : Z) (ds : list Z) : list (Z * Z) :=
  match ds with
  | [] => []
  | D :: r => let cur1 := reset_cur c cur in draw_for c cur1 D :: draws_of c (increment c cur1) r
  end.

Definition scenario_of (h : list Z) (payload : list Z) (delays : list Z) : scenario :=
  let c := config_of h in
  {| sc_cfg := c; sc_timeout := zn h 9; sc_sig := signal_of_Z (zn h 10); sc_payload := payload;
     sc_deadline := zopt (zn h 11); sc_cancel := zopt (zn h 12); sc_stop := zopt (zn h 13);
     sc_draws := draws_of c 0 delays; sc_tie := tie_of (zn h 14) |}.

Definition verdict_code (v : verdict) : Z :=
  match v with
  | VOk => 0 | VPermanent => 1 | VNoMoreRetries => 2 | VDeadline => 3 | VCancelled => 4
  | VShutdown => 5 | VRaw => 6 | VPending => 7
  end.

Definition dl_class (sc : scenario) (st : step) : Z :=
  match s_deadline st with
  | None => 0
  | Some d => match sc_deadline sc with
              | Some d' => if d =? d' then 1 else 2
              | None => 2
              end
  end.

(* the delay is logged exactly when the select is reached *)
Definition logged (st : step) : bool :=
  match s_dec st with
  | DRetry | DStop VCancelled | DStop VShutdown => true
  | _ => false
  end.

Definition b2z (b : bool) : Z := if b then 1 else 0.

(* model output in wire form: (attempts, (delays, final)) *)
Definition model_run (h : list Z) (payload : list Z) (script : list (Z * list (Z * list Z))) (delays : list Z)
  : list (list Z * Z) * (list Z * list Z) :=
  let sc := scenario_of h payload delays in
  let sp := map attempt_of script in
  let l := steps_of sc sp in
  (map (fun st => (s_payload st, dl_class sc st)) l,
   (map s_delay (filter logged l),
    [verdict_code (verdict_of sc sp); b2z (final_is_shutdown sc sp); b2z (final_is_permanent sc sp)])).

Definition listZ_eqb := list_eqb Z.eqb.
Definition att_eqb (a b : list Z * Z) : bool := listZ_eqb (fst a) (fst b) && (snd a =? snd b).

Definition check_run (c : wire_case) : bool :=
  let '(h, (payload, (script, (atts, (delays, final))))) := c in
  let '(m_atts, (m_delays, m_final)) := model_run h payload script delays in
  list_eqb att_eqb m_atts atts && listZ_eqb m_delays delays && listZ_eqb m_final final.

Definition bytes_of_string (s : string) : list Z := map (fun a => Z.of_N (N_of_ascii a)) (list_ascii_of_string s).

Definition validate_model (h : list Z) : option string :=
  backoff_validate (negb (zn h 1 =? 0)) (zn h 2) (zn h 3) (zn h 4) (zn h 5) (zn h 6) (zn h 7) (zn h 8).

Definition check_validate (c : wire_case) : bool :=
  let '(h, (msg, _)) := c in
  match validate_model h with
  | None => (zn h 9 =? 1) && listZ_eqb msg []
  | Some s => (zn h 9 =? 0) && listZ_eqb (bytes_of_string s) msg
  end.

(* kind 2: TimeoutConfig.Validate on hdr = [2; timeout; isnil] — the translated function and the model's domain *)
Definition check_timeout_validate (c : wire_case) : bool :=
  let '(h, _) := c in
  Bool.eqb (match timeout_validate (zn h 1) with None => true | Some _ => false end) (zn h 2 =? 1) &&
  Bool.eqb (timeout_ok (zn h 1)) (zn h 2 =? 1).

Definition check_case (c : wire_case) : bool :=
  let '(h, _) := c in
  if zn h 0 =? 0 then check_run c else if zn h 0 =? 1 then check_validate c else check_timeout_validate c.

(* for replay files: what the model says for the inputs of a case *)
Definition model_out (c : wire_case) : (list (list Z * Z) * (list Z * list Z)) * list Z :=
  let '(h, (payload, (script, (atts, (delays, final))))) := c in
  if zn h 0 =? 0 then (model_run h payload script delays, [])
  else (([], ([], [])), match validate_model h with None => [] | Some s => bytes_of_string s end).
