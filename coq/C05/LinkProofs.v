(* C05/LinkProofs.v — the MODEL's own run always passes the clause checker (C05/Clauses.v): what the checker
   demands of an observation is exactly what the model delivers. *)
From Verif Require Import Common.Base Generated.C05BackoffValidate C05.Model C05.Proofs C05.Proofs2
     C05.Harness C05.Clauses C05.ClausesProofs.
From Coq Require Import ZifyBool.
Local Open Scope Z_scope.
Local Arguments do_step : simpl never.

(* the observed step that corresponds to a model step *)
Definition ostep_of (sc : scenario) (st : step) : ostep :=
  {| o_idx := s_idx st; o_start := s_start st; o_end := s_end st; o_res := s_res st; o_payload := s_payload st;
     o_dl := dl_class sc st; o_delay := if logged st then Some (s_delay st) else None |}.

Lemma retry_is_logged st : s_dec st = DRetry -> logged st = true.
Proof. unfold logged. intros ->. reflexivity. Qed.

(* the logged delays, by position: every step but possibly the last is logged *)
Lemma chain_delays sc script n now pl cur l v :
  chain sc script n now pl cur l v ->
  forall k st, nth_error l k = Some st ->
  nth_error (map s_delay (filter logged l)) k = if logged st then Some (s_delay st) else None.
Proof.
  induction 1 as [| a rest n now pl cur v E | a rest n now pl cur l v E C IH]; intros k st Hk.
  - destruct k; discriminate.
  - destruct k as [|k]; [|destruct k; discriminate]. inversion Hk; subst. simpl.
    destruct (logged (do_step sc n now pl cur a)); reflexivity.
  - cbn [filter]. rewrite (retry_is_logged _ E). destruct k as [|k].
    + inversion Hk; subst. rewrite (retry_is_logged _ E). reflexivity.
    + simpl in Hk. simpl. exact (IH k st Hk).
Qed.

(* rebuilding the timeline from the model's own observation gives back the model's steps *)
Lemma rebuild_chain sc D script n now pl cur l v :
  chain sc script n now pl cur l v -> v <> VPending ->
  (forall k st, nth_error l k = Some st -> nth_error D (n + k) = if logged st then Some (s_delay st) else None) ->
  rebuild sc script (observe_atts sc l) D n now = map (ostep_of sc) l.
Proof.
  induction 1 as [| a rest n now pl cur v E | a rest n now pl cur l v E C IH]; intros NP HD.
  - congruence.
  - cbn [observe_atts map rebuild tl]. f_equal.
    pose proof (HD 0%nat _ eq_refl) as H0. rewrite Nat.add_0_r in H0. rewrite H0.
    unfold ostep_of. unfold do_step; simpl. reflexivity.
  - cbn [observe_atts map rebuild tl].
    pose proof (HD 0%nat _ eq_refl) as H0. rewrite Nat.add_0_r in H0. rewrite H0.
    rewrite (retry_is_logged _ E). f_equal.
    + unfold ostep_of. rewrite (retry_is_logged _ E). unfold do_step; simpl. reflexivity.
    + fold (observe_atts sc l).
      replace (fst (effective sc now a) + s_delay (do_step sc n now pl cur a))
        with (s_end (do_step sc n now pl cur a) + s_delay (do_step sc n now pl cur a)) by reflexivity.
      apply IH; [exact NP|]. intros k st Hk. replace (S n + k)%nat with (n + S k)%nat by lia.
      exact (HD (S k) st Hk).
Qed.

Lemma rebuild_model sc script :
  verdict_of sc script <> VPending ->
  rebuild sc script (observe_atts sc (steps_of sc script)) (observe_delays (steps_of sc script)) 0%nat 0
  = map (ostep_of sc) (steps_of sc script).
Proof.
  intros NP. apply (rebuild_chain sc _ _ _ _ _ _ _ _ (run_chain sc script) NP).
  intros k st Hk. exact (chain_delays _ _ _ _ _ _ _ _ (run_chain sc script) k st Hk).
Qed.

(* ---- generic list facts ---------------------------------------------------------------------------------------- *)
Lemma listZ_eqb_refl l : listZ_eqb l l = true.
Proof. unfold listZ_eqb. induction l as [|x r IH]; simpl; [reflexivity|]. rewrite Z.eqb_refl, IH. reflexivity. Qed.

Lemma pairs_nth {A} (l : list A) a b :
  In (a, b) (pairs l) -> exists k, nth_error l k = Some a /\ nth_error l (S k) = Some b.
Proof.
  revert a b. induction l as [|x [|y r] IH]; intros a b H; try contradiction.
  change (pairs (x :: y :: r)) with ((x, y) :: pairs (y :: r)) in H. destruct H as [H|H].
  - inversion H; subst. exists 0%nat. split; reflexivity.
  - destruct (IH a b H) as (k & H1 & H2). exists (S k). split; assumption.
Qed.

Lemma pairs_map {A B} (f : A -> B) (l : list A) :
  pairs (map f l) = map (fun p => (f (fst p), f (snd p))) (pairs l).
Proof.
  induction l as [|x [|y r] IH]; try reflexivity.
  change (pairs (map f (x :: y :: r))) with ((f x, f y) :: pairs (map f (y :: r))).
  rewrite IH. reflexivity.
Qed.

Lemma last_opt_map {A B} (f : A -> B) (l : list A) : last_opt (map f l) = option_map f (last_opt l).
Proof. induction l as [|x [|y r] IH]; try reflexivity. exact IH. Qed.

Lemma idx_is_position sc script k st : nth_error (steps_of sc script) k = Some st -> s_idx st = k.
Proof. intros H. destruct (run_nth _ _ _ _ H) as (now & pl & cur & a & _ & ->). reflexivity. Qed.

(* ---- clause 2 ------------------------------------------------------------------------------------------------------ *)
Lemma link_followed sc script k st st' :
  nth_error (steps_of sc script) k = Some st -> nth_error (steps_of sc script) (S k) = Some st' ->
  followed_ok sc (ostep_of sc st) = true.
Proof.
  intros H H'. apply followed_ok_iff.
  assert (D : s_dec st = DRetry) by exact (proj1 (chain_consecutive _ _ _ _ _ _ _ _ (run_chain sc script) k st st' H H')).
  pose proof (proj1 (retry_iff_l _ _ _ _ H) D) as (En & Tr & _ & Fe & Fd & W & Sc).
  unfold Followed, ostep_of; simpl. rewrite (retry_is_logged _ D).
  split; [exact En|]. split; [exact Tr|]. exists (s_delay st). split; [reflexivity|].
  split; [exact Fe|]. split; [exact Fd|]. split.
  - intros s Hs. unfold stop_closed_at in Sc. rewrite Hs in Sc. lia.
  - intros c Hc. rewrite (wake_def_l _ _ _ _ H) in W.
    exact (proj1 (select_timer_only _ _ _ _ _ W) c Hc).
Qed.

(* ---- clause 3 ------------------------------------------------------------------------------------------------------ *)
Lemma link_payload sc script k st st' :
  nth_error (steps_of sc script) k = Some st -> nth_error (steps_of sc script) (S k) = Some st' ->
  payload_ok sc (ostep_of sc st) (ostep_of sc st') = true.
Proof.
  intros H H'. destruct (resend_remainder_only_l _ _ _ _ _ H H') as (ch & R & P).
  unfold payload_ok, ostep_of, on_error, res_err; simpl. rewrite R, P. apply listZ_eqb_refl.
Qed.

(* ---- clause 7 ------------------------------------------------------------------------------------------------------ *)
Lemma link_timeout sc script k st :
  nth_error (steps_of sc script) k = Some st ->
  (o_dl (ostep_of sc st) =? dl_expected sc (o_start (ostep_of sc st))) = true.
Proof.
  intros H. destruct (run_nth _ _ _ _ H) as (now & pl & cur & a & _ & ->).
  unfold ostep_of, dl_class, dl_expected, do_step; simpl. apply Z.eqb_refl.
Qed.

(* ---- clause 8 ------------------------------------------------------------------------------------------------------ *)
Lemma link_after_stop sc script k st :
  nth_error (steps_of sc script) k = Some st -> after_stop_ok sc (ostep_of sc st) = true.
Proof.
  intros H. apply after_stop_ok_iff. unfold AfterStopOk, ostep_of; simpl. intros s Hs Hi.
  rewrite (idx_is_position _ _ _ _ H) in Hi. destruct k as [|k]; [lia|].
  exact (no_attempt_after_stop_l sc script s Hs k st H).
Qed.

(* ---- a logged delay means the select was reached ----------------------------------------------------------------------- *)
Lemma decide_logged sc r e next delay w :
  match decide sc r e next delay w with
  | DRetry | DStop VCancelled | DStop VShutdown => true
  | _ => false
  end = true ->
  c_enabled (sc_cfg sc) = true /\ (exists ch, r = RErr ch /\ is_permanent ch = false) /\
  next <> backoff_stop /\ fits_elapsed sc (e + delay) /\ fits_deadline sc (e + delay).
Proof.
  unfold decide, fits_elapsed, fits_deadline. destruct r as [|ch]; [discriminate|].
  destruct (c_enabled (sc_cfg sc)); simpl; [|discriminate].
  destruct (is_permanent ch) eqn:P; [discriminate|].
  destruct (next =? backoff_stop) eqn:Ns; [discriminate|].
  destruct ((0 <? c_maxel (sc_cfg sc)) && (c_maxel (sc_cfg sc) <? e + delay)) eqn:Me; [discriminate|].
  destruct (sc_deadline sc) as [dl|] eqn:Dl.
  - destruct (dl <? e + delay) eqn:Dd; [discriminate|]. intros _.
    split; [reflexivity|]. split; [eauto|]. split; [apply Z.eqb_neq; exact Ns|]. split; [lia|].
    intros dl' E; inversion E; subst; lia.
  - intros _. split; [reflexivity|]. split; [eauto|]. split; [apply Z.eqb_neq; exact Ns|]. split; [lia|].
    intros dl' E; discriminate.
Qed.

Lemma logged_reaches_wait sc script k st :
  nth_error (steps_of sc script) k = Some st -> logged st = true -> reaches_wait sc st.
Proof.
  intros H L. destruct (run_nth _ _ _ _ H) as (now & pl & cur & a & _ & E). subst st.
  unfold logged, do_step in L; simpl in L. unfold reaches_wait, do_step; simpl. exact (decide_logged _ _ _ _ _ _ L).
Qed.

Lemma env_max_bound c cur next :
  0 < snd (c_rf c) -> next * snd (c_rf c) <= cur * (snd (c_rf c) + fst (c_rf c)) + snd (c_rf c) ->
  next <= env_max c cur.
Proof.
  unfold env_max. destruct (c_rf c) as [rn rd]. simpl. intros Hd H.
  apply Z.div_le_lower_bound; [exact Hd|]. lia.
Qed.

(* ---- clause 4 ------------------------------------------------------------------------------------------------------ *)
Lemma link_wait sc script k st :
  valid_config (sc_cfg sc) -> valid_draw (draw_at sc k) ->
  nth_error (steps_of sc script) k = Some st -> wait_ok true sc (ostep_of sc st) = true.
Proof.
  intros V Dr H. unfold wait_ok, ostep_of; simpl. destruct (logged st) eqn:L; [|reflexivity].
  destruct (logged_reaches_wait _ _ _ _ H L) as (En & (ch & R & P) & Ns & Fe & Fd).
  pose proof (wait_envelope_l sc script k st V En Dr H) as E. cbv zeta in E.
  destruct E as (Hc & Hb & N0 & _ & B1 & B2 & Nd & _).
  destruct (delay_def_l _ _ _ _ H) as [_ Dd]. rewrite R in Dd.
  rewrite (idx_is_position _ _ _ _ H), <- Hc. rewrite R. cbn [res_err negb orb].
  pose proof V as (_ & Hrd & _).
  unfold env_lo_ok, env_hi_ok, fits_b, fits_elapsed, fits_deadline in *.
  destruct (c_rf (sc_cfg sc)) as [rn rd]. cbn [fst snd] in *.
  assert (Lo : s_cur st * (rd - rn) < (s_delay st + 1) * rd) by nia.
  destruct (throttle_of ch) as [t|].
  - assert (Hi : s_delay st * rd <= s_cur st * (rd + rn) + rd \/ s_delay st = t).
    { destruct (Z.le_gt_cases t (s_next st)); [left|right]; [replace (s_delay st) with (s_next st) by lia; exact B2|lia]. }
    destruct (sc_deadline sc) as [dl|]; [specialize (Fd dl eq_refl)|]; lia.
  - subst. destruct (sc_deadline sc) as [dl|]; [specialize (Fd dl eq_refl)|]; lia.
Qed.

(* ---- clause 5: the last attempt and the verdict ---------------------------------------------------------------------- *)
Lemma link_last sc script k st v :
  valid_config (sc_cfg sc) -> valid_draw (draw_at sc k) ->
  nth_error (steps_of sc script) k = Some st -> s_dec st = DStop v -> v <> VPending ->
  last_ok true sc (ostep_of sc st) (verdict_code v) = true.
Proof.
  intros V Dr H D NP.
  assert (Hdec : decide sc (s_res st) (s_end st) (s_next st) (s_delay st) (s_wake st) = DStop v).
  { destruct (run_nth _ _ _ _ H) as (now & pl & cur & a & _ & E). rewrite E in D |- *. exact D. }
  assert (HL : logged st = match v with VCancelled | VShutdown => true | _ => false end).
  { unfold logged. rewrite D. reflexivity. }
  pose proof (wake_def_l _ _ _ _ H) as Wd.
  destruct (delay_def_l _ _ _ _ H) as [_ Dd].
  unfold last_ok, ostep_of; simpl. rewrite HL, (idx_is_position _ _ _ _ H).
  destruct (s_res st) as [|ch] eqn:R.
  - simpl in Hdec. inversion Hdec; subst v. reflexivity.
  - unfold decide in Hdec. destruct (c_enabled (sc_cfg sc)) eqn:En; simpl in Hdec |- *.
    2:{ inversion Hdec; subst v. reflexivity. }
    destruct (is_permanent ch) eqn:P.
    { inversion Hdec; subst v. reflexivity. }
    pose proof (wait_envelope_l sc script k st V En Dr H) as E. cbv zeta in E.
    destruct E as (Hc & Hb & N0 & Ns & B1 & B2 & Nd & _).
    pose proof V as (_ & Hrd & _).
    pose proof (env_max_bound (sc_cfg sc) (s_cur st) (s_next st) Hrd B2) as Bm. rewrite Hc in Bm.
    apply Z.eqb_neq in Ns. rewrite Ns in Hdec.
    assert (Hmax : s_delay st <=
                   match throttle_of ch with
                   | Some t => Z.max (env_max (sc_cfg sc) (cur_seq (sc_cfg sc) k)) t
                   | None => env_max (sc_cfg sc) (cur_seq (sc_cfg sc) k)
                   end).
    { rewrite Dd. destruct (throttle_of ch); lia. }
    set (dmax := match throttle_of ch with
                 | Some t => Z.max (env_max (sc_cfg sc) (cur_seq (sc_cfg sc) k)) t
                 | None => env_max (sc_cfg sc) (cur_seq (sc_cfg sc) k)
                 end) in *.
    destruct ((0 <? c_maxel (sc_cfg sc)) && (c_maxel (sc_cfg sc) <? s_end st + s_delay st)) eqn:Me.
    { inversion Hdec; subst v. cbn [verdict_code]. destruct (sc_deadline sc); lia. }
    destruct (sc_deadline sc) as [dl|] eqn:Dl.
    + destruct (dl <? s_end st + s_delay st) eqn:Dd'.
      { inversion Hdec; subst v. cbn [verdict_code]. lia. }
      destruct (s_wake st) eqn:W.
      * inversion Hdec; subst v. cbn [verdict_code]. symmetry in Wd.
        destruct (select_ctx_only _ _ _ _ _ Wd) as (c & Cd & Le & _). rewrite Cd. lia.
      * inversion Hdec; subst v. cbn [verdict_code]. symmetry in Wd.
        destruct (select_stop_only _ _ _ _ _ Wd) as (s & St & Le & _). rewrite St.
        destruct (ctx_done sc); lia.
      * unfold stop_closed_at in Hdec. destruct (sc_stop sc) as [s|] eqn:St; [|discriminate].
        destruct (s <=? s_end st + s_delay st) eqn:Cl; [|discriminate].
        inversion Hdec; subst v. cbn [verdict_code]. destruct (ctx_done sc); lia.
    + destruct (s_wake st) eqn:W.
      * inversion Hdec; subst v. cbn [verdict_code]. symmetry in Wd.
        destruct (select_ctx_only _ _ _ _ _ Wd) as (c & Cd & Le & _). rewrite Cd. lia.
      * inversion Hdec; subst v. cbn [verdict_code]. symmetry in Wd.
        destruct (select_stop_only _ _ _ _ _ Wd) as (s & St & Le & _). rewrite St.
        destruct (ctx_done sc); lia.
      * unfold stop_closed_at in Hdec. destruct (sc_stop sc) as [s|] eqn:St; [|discriminate].
        destruct (s <=? s_end st + s_delay st) eqn:Cl; [|discriminate].
        inversion Hdec; subst v. cbn [verdict_code]. destruct (ctx_done sc); lia.
Qed.

(* ---- the number of logged delays ---------------------------------------------------------------------------------------- *)
Lemma chain_logged_count sc script n now pl cur l v :
  chain sc script n now pl cur l v -> v <> VPending ->
  Z.of_nat (List.length (filter logged l)) =
  Z.of_nat (List.length l) - 1 + (if (verdict_code v =? 4) || (verdict_code v =? 5) then 1 else 0).
Proof.
  induction 1 as [| a rest n now pl cur v E | a rest n now pl cur l v E C IH]; intros NP.
  - congruence.
  - cbn [filter]. unfold logged at 1. rewrite E. destruct v; simpl; try reflexivity; congruence.
  - cbn [filter]. rewrite (retry_is_logged _ E). cbn [List.length]. specialize (IH NP). lia.
Qed.

Lemma chain_nonempty sc script n now pl cur l v : chain sc script n now pl cur l v -> v <> VPending -> l <> [].
Proof. intros C NP. inversion C; subst; congruence. Qed.

(* ---- clause 6 ------------------------------------------------------------------------------------------------------------ *)
Lemma link_flags sc script st :
  last_opt (steps_of sc script) = Some st -> verdict_of sc script <> VPending ->
  flags_ok (ostep_of sc st) (verdict_code (verdict_of sc script))
           (b2z (final_is_shutdown sc script)) (b2z (final_is_permanent sc script)) = true.
Proof.
  intros L NP. unfold flags_ok, ostep_of, final_is_shutdown, final_is_permanent, last_err; simpl. rewrite L.
  pose proof (chain_last _ _ _ _ _ _ _ _ (run_chain sc script) st L) as [D|(_ & V & _)]; [|congruence].
  assert (Hok : verdict_of sc script = VOk -> s_res st = ROk).
  { intros Hv. rewrite Hv in D. destruct (last_opt_in _ _ L) as (k & Hk & _).
    destruct (run_nth _ _ _ _ Hk) as (now & pl & cur & a & _ & E). rewrite E in D |- *.
    unfold do_step in *; simpl in *. unfold decide in D. destruct (snd (effective sc now a)); [reflexivity|].
    repeat match type of D with
           | context [if ?b then _ else _] => destruct b
           | context [match ?w with WCtx => _ | WStop => _ | WTimer => _ end] => destruct w
           end; discriminate. }
  destruct (verdict_of sc script) eqn:Hv; try congruence; unfold final_err, res_err;
    try rewrite (Hok eq_refl); cbn [verdict_code];
    unfold is_shutdown, is_permanent; simpl; rewrite ?Z.eqb_refl; try reflexivity.
Qed.

Lemma flags_nil8 b1 b2 b3 b4 b5 b6 b7 b8 :
  b1 = true -> b2 = true -> b3 = true -> b4 = true -> b5 = true -> b6 = true -> b7 = true -> b8 = true ->
  flag 1 b1 ++ flag 2 b2 ++ flag 3 b3 ++ flag 4 b4 ++ flag 5 b5 ++ flag 6 b6 ++ flag 7 b7 ++ flag 8 b8 = [].
Proof. intros -> -> -> -> -> -> -> ->. reflexivity. Qed.

(* ---- the model's own observation passes the whole checker ------------------------------------------------------------------ *)
Theorem model_passes_checker_l sc script :
  valid_config (sc_cfg sc) -> (forall n, valid_draw (draw_at sc n)) -> verdict_of sc script <> VPending ->
  violations_core sc true script (observe_atts sc (steps_of sc script)) (observe_delays (steps_of sc script))
                  (observe_final sc script) = [].
Proof.
  intros V Dr NP. unfold violations_core. rewrite (rebuild_model sc script NP).
  pose proof (run_chain sc script) as C.
  pose proof (chain_nonempty _ _ _ _ _ _ _ _ C NP) as NE.
  assert (F : forall f, (forall k st, nth_error (steps_of sc script) k = Some st -> f (ostep_of sc st) = true) ->
                        forallb f (map (ostep_of sc) (steps_of sc script)) = true).
  { intros f Hf. apply forallb_forall. intros o Ho. apply in_map_iff in Ho. destruct Ho as (st & <- & I).
    destruct (In_nth_error _ _ I) as (k & Hk). exact (Hf k st Hk). }
  assert (P : forall f, (forall k st st', nth_error (steps_of sc script) k = Some st ->
                                          nth_error (steps_of sc script) (S k) = Some st' ->
                                          f (ostep_of sc st, ostep_of sc st') = true) ->
                        forallb f (pairs (map (ostep_of sc) (steps_of sc script))) = true).
  { intros f Hf. rewrite pairs_map. apply forallb_forall. intros o Ho. apply in_map_iff in Ho.
    destruct Ho as ([st st'] & <- & I). destruct (pairs_nth _ _ _ I) as (k & H1 & H2). exact (Hf k st st' H1 H2). }
  apply flags_nil8.
  - destruct (steps_of sc script) as [|st0 l0] eqn:E; [congruence|]. cbn [map].
    assert (H0 : nth_error (steps_of sc script) 0 = Some st0) by (rewrite E; reflexivity).
    unfold ostep_of; simpl. rewrite (proj1 (first_payload_l _ _ _ H0)). apply listZ_eqb_refl.
  - apply P. intros k st st' H1 H2. exact (link_followed _ _ _ _ _ H1 H2).
  - apply P. intros k st st' H1 H2. exact (link_payload _ _ _ _ _ H1 H2).
  - apply F. intros k st Hk. exact (link_wait _ _ _ _ V (Dr k) Hk).
  - rewrite last_opt_map. destruct (last_opt (steps_of sc script)) as [st|] eqn:L.
    2:{ exfalso. destruct (steps_of sc script) as [|x l0]; [congruence|]. clear -L. revert x L.
        induction l0 as [|y l0 IH]; intros x L; [discriminate|]. change (last_opt (y :: l0) = None) in L. exact (IH y L). }
    cbn [option_map]. apply andb_true_iff. split.
    + destruct (last_opt_in _ _ L) as (k & Hk & _).
      pose proof (chain_last _ _ _ _ _ _ _ _ C st L) as [D|(_ & Vp & _)]; [|congruence].
      unfold observe_final. cbn [zn nth]. exact (link_last _ _ _ _ _ V (Dr k) Hk D NP).
    + unfold observe_final, observe_delays. cbn [zn nth]. rewrite !map_length.
      apply Z.eqb_eq. exact (chain_logged_count _ _ _ _ _ _ _ _ C NP).
  - rewrite last_opt_map. destruct (last_opt (steps_of sc script)) as [st|] eqn:L.
    2:{ exfalso. destruct (steps_of sc script) as [|x l0]; [congruence|]. clear -L. revert x L.
        induction l0 as [|y l0 IH]; intros x L; [discriminate|]. change (last_opt (y :: l0) = None) in L. exact (IH y L). }
    cbn [option_map]. unfold observe_final. cbn [zn nth]. exact (link_flags _ _ _ L NP).
  - apply F. intros k st Hk. exact (link_timeout _ _ _ _ Hk).
  - apply F. intros k st Hk. exact (link_after_stop _ _ _ _ Hk).
Qed.

(* the observation the correspondence compares the implementation with (Harness.model_run) IS this observation *)
Lemma model_run_is_observe h payload script delays :
  let sc := scenario_of h payload delays in
  let sp := map attempt_of script in
  model_run h payload script delays =
  (observe_atts sc (steps_of sc sp), (observe_delays (steps_of sc sp), observe_final sc sp)).
Proof. reflexivity. Qed.
