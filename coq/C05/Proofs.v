(* C05/Proofs.v — lemmas about the retry model. *)
From Verif Require Import Common.Base Generated.C05BackoffValidate C05.Model.
Local Open Scope Z_scope.

Lemma timeout_per_attempt_l : forall sc n now pl cur a,
  s_deadline (do_step sc n now pl cur a) = att_deadline sc now.
Proof.
  intros. unfold do_step. destruct (effective sc now a) as [e r].
  destruct r; [reflexivity|].
  repeat match goal with |- context [if ?b then _ else _] => destruct b end; reflexivity.
Qed.
