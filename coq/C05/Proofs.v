(* C05/Proofs.v — lemmas about the retry model (C05/Model.v). *)
From Verif Require Import Common.Base Generated.C05BackoffValidate C05.Model.
From Coq Require Import ZifyBool.
Local Open Scope Z_scope.
Local Arguments do_step : simpl never.

(* ================================================================================================ *)
(* 1. The loop as an inductive chain of iterations                                                   *)
(* ================================================================================================ *)
Inductive chain (sc : scenario) : list attempt -> nat -> Z -> list Z -> Z -> list step -> verdict -> Prop :=
| ch_nil : forall n now pl cur, chain sc [] n now pl cur [] VPending
| ch_stop : forall a rest n now pl cur v,
    s_dec (do_step sc n now pl cur a) = DStop v ->
    chain sc (a :: rest) n now pl cur [do_step sc n now pl cur a] v
| ch_retry : forall a rest n now pl cur l v,
    s_dec (do_step sc n now pl cur a) = DRetry ->
    chain sc rest (S n) (s_end (do_step sc n now pl cur a) + s_delay (do_step sc n now pl cur a))
          (s_npayload (do_step sc n now pl cur a)) (s_ncur (do_step sc n now pl cur a)) l v ->
    chain sc (a :: rest) n now pl cur (do_step sc n now pl cur a :: l) v.

Lemma loop_chain sc : forall script n now pl cur,
  chain sc script n now pl cur (fst (loop sc script n now pl cur)) (snd (loop sc script n now pl cur)).
Proof.
  induction script as [|a rest IH]; intros n now pl cur.
  - cbn [loop fst snd]. constructor.
  - cbn [loop]. remember (do_step sc n now pl cur a) as st eqn:Hst.
    destruct (s_dec st) eqn:E.
    + specialize (IH (S n) (s_end st + s_delay st) (s_npayload st) (s_ncur st)).
      destruct (loop sc rest (S n) (s_end st + s_delay st) (s_npayload st) (s_ncur st)) as [l v].
      cbn [fst snd] in *. subst st. apply ch_retry; assumption.
    + cbn [fst snd]. subst st. apply ch_stop; assumption.
Qed.

Lemma run_chain sc script :
  chain sc script 0%nat 0 (sc_payload sc) 0 (steps_of sc script) (verdict_of sc script).
Proof. apply loop_chain. Qed.

Lemma chain_length sc script n now pl cur l v :
  chain sc script n now pl cur l v -> (length l <= length script)%nat.
Proof. induction 1; simpl; lia. Qed.

(* every recorded step is the loop body applied to some state and to the k-th scripted outcome *)
Lemma chain_nth sc script n now pl cur l v :
  chain sc script n now pl cur l v ->
  forall k st, nth_error l k = Some st ->
  exists now' pl' cur' a, nth_error script k = Some a /\ st = do_step sc (n + k) now' pl' cur' a.
Proof.
  induction 1 as [| a rest n now pl cur v E | a rest n now pl cur l v E C IH]; intros k st Hk.
  - destruct k; discriminate.
  - destruct k as [|k]; [|destruct k; discriminate]. inversion Hk; subst.
    exists now, pl, cur, a. rewrite Nat.add_0_r. split; reflexivity.
  - destruct k as [|k].
    + inversion Hk; subst. exists now, pl, cur, a. rewrite Nat.add_0_r. split; reflexivity.
    + simpl in Hk. destruct (IH k st Hk) as (now' & pl' & cur' & a' & Ha & Hs).
      exists now', pl', cur', a'. split; [exact Ha|]. rewrite Hs. f_equal. lia.
Qed.

(* a step that decides to stop is the last one and its verdict is the run's verdict *)
Lemma chain_stop_last sc script n now pl cur l v :
  chain sc script n now pl cur l v ->
  forall k st v', nth_error l k = Some st -> s_dec st = DStop v' -> length l = S k /\ v = v'.
Proof.
  induction 1 as [| a rest n now pl cur v E | a rest n now pl cur l v E C IH]; intros k st v' Hk Hd.
  - destruct k; discriminate.
  - destruct k as [|k]; [|destruct k; discriminate]. inversion Hk; subst. split; [reflexivity|congruence].
  - destruct k as [|k].
    + inversion Hk; subst. congruence.
    + simpl in Hk. destruct (IH k st v' Hk Hd) as [L V]. split; [simpl; lia|exact V].
Qed.

(* the last step either carries the verdict or the script ran out *)
Lemma chain_last sc script n now pl cur l v :
  chain sc script n now pl cur l v ->
  forall st, last_opt l = Some st ->
  s_dec st = DStop v \/ (s_dec st = DRetry /\ v = VPending /\ length l = length script).
Proof.
  induction 1 as [| a rest n now pl cur v E | a rest n now pl cur l v E C IH]; intros st Hl.
  - discriminate.
  - simpl in Hl. inversion Hl; subst. left; exact E.
  - destruct l as [|x l'].
    + inversion C; subst. simpl in Hl. inversion Hl; subst. right. repeat split; auto.
    + change (last_opt (x :: l') = Some st) in Hl. destruct (IH st Hl) as [D|(D & V & L)]; [left; exact D|].
      right. repeat split; auto. simpl in *. lia.
Qed.

Lemma chain_first sc script n now pl cur st l v :
  chain sc script n now pl cur (st :: l) v ->
  exists a rest, script = a :: rest /\ st = do_step sc n now pl cur a.
Proof. intros C. inversion C; subst; eauto. Qed.

(* two consecutive steps *)
Lemma chain_consecutive sc script n now pl cur l v :
  chain sc script n now pl cur l v ->
  forall k st st', nth_error l k = Some st -> nth_error l (S k) = Some st' ->
  s_dec st = DRetry /\ s_start st' = s_end st + s_delay st /\ s_payload st' = s_npayload st /\
  s_idx st' = S (s_idx st).
Proof.
  induction 1 as [| a rest n now pl cur v E | a rest n now pl cur l v E C IH]; intros k st st' Hk Hk'.
  - destruct k; discriminate.
  - destruct k; discriminate.
  - destruct k as [|k].
    + inversion Hk; subst. simpl in Hk'. destruct l as [|x l']; [discriminate|]. inversion Hk'; subst.
      destruct (chain_first _ _ _ _ _ _ _ _ _ C) as (a' & rest' & _ & ->).
      split; [exact E|]. repeat split; reflexivity.
    + simpl in Hk, Hk'. exact (IH k st st' Hk Hk').
Qed.

(* a step that decides to retry is followed by another step iff the script has another outcome *)
Lemma chain_retry_next sc script n now pl cur l v :
  chain sc script n now pl cur l v ->
  forall k st, nth_error l k = Some st -> s_dec st = DRetry ->
  (S k < length script)%nat -> exists st', nth_error l (S k) = Some st'.
Proof.
  induction 1 as [| a rest n now pl cur v E | a rest n now pl cur l v E C IH]; intros k st Hk Hd Hlen.
  - destruct k; discriminate.
  - destruct k as [|k]; [|destruct k; discriminate]. inversion Hk; subst. congruence.
  - destruct k as [|k].
    + simpl in *. inversion C; subst; simpl in *; try lia; eexists; reflexivity.
    + simpl in Hk. simpl in Hlen. destruct (IH k st Hk Hd ltac:(lia)) as [st' H']. exists st'. exact H'.
Qed.

(* the suffix of a run from step i on is itself a run of the loop *)
Lemma chain_suffix sc script n now pl cur l v :
  chain sc script n now pl cur l v ->
  forall i sti, nth_error l i = Some sti ->
  exists script' now' cur' l',
    chain sc script' (n + i) now' (s_payload sti) cur' l' v /\
    (forall k, nth_error l' k = nth_error l (i + k)).
Proof.
  induction 1 as [| a rest n now pl cur v E | a rest n now pl cur l v E C IH]; intros i sti Hi.
  - destruct i; discriminate.
  - destruct i as [|i]; [|destruct i; discriminate]. inversion Hi; subst.
    exists (a :: rest), now, cur, [do_step sc n now pl cur a]. rewrite Nat.add_0_r. split.
    + apply ch_stop; exact E.
    + intros k; reflexivity.
  - destruct i as [|i].
    + inversion Hi; subst. exists (a :: rest), now, cur, (do_step sc n now pl cur a :: l).
      rewrite Nat.add_0_r. split; [apply ch_retry; assumption|intros k; reflexivity].
    + simpl in Hi. destruct (IH i sti Hi) as (script' & now' & cur' & l' & C' & N').
      exists script', now', cur', l'. split.
      * replace (n + S i)%nat with (S n + i)%nat by lia. exact C'.
      * intros k. rewrite N'. reflexivity.
Qed.

(* ================================================================================================ *)
(* 2. One iteration: the decision                                                                     *)
(* ================================================================================================ *)
Definition fits_elapsed (sc : scenario) (t : Z) : Prop := 0 < c_maxel (sc_cfg sc) -> t <= c_maxel (sc_cfg sc).
Definition fits_deadline (sc : scenario) (t : Z) : Prop := forall dl, sc_deadline sc = Some dl -> t <= dl.

Definition retry_conditions (sc : scenario) (st : step) : Prop :=
  c_enabled (sc_cfg sc) = true /\
  (exists ch, s_res st = RErr ch /\ is_permanent ch = false) /\
  s_next st <> backoff_stop /\
  fits_elapsed sc (s_end st + s_delay st) /\
  fits_deadline sc (s_end st + s_delay st) /\
  s_wake st = WTimer /\
  stop_closed_at sc (s_end st + s_delay st) = false.

Lemma decide_retry_iff sc r e next delay w :
  decide sc r e next delay w = DRetry <->
  c_enabled (sc_cfg sc) = true /\ (exists ch, r = RErr ch /\ is_permanent ch = false) /\
  next <> backoff_stop /\ fits_elapsed sc (e + delay) /\ fits_deadline sc (e + delay) /\ w = WTimer /\
  stop_closed_at sc (e + delay) = false.
Proof.
  unfold decide, fits_elapsed, fits_deadline. destruct r as [|ch].
  - split; [discriminate|]. intros (_ & (ch & H & _) & _). discriminate.
  - destruct (c_enabled (sc_cfg sc)) eqn:En; simpl.
    2:{ split; [discriminate|]. intros (H & _). discriminate. }
    destruct (is_permanent ch) eqn:Pm.
    { split; [discriminate|]. intros (_ & (ch' & H & H') & _). inversion H; subst. congruence. }
    destruct (next =? backoff_stop) eqn:Ns.
    { split; [discriminate|]. intros (_ & _ & H & _). apply Z.eqb_eq in Ns. contradiction. }
    destruct ((0 <? c_maxel (sc_cfg sc)) && (c_maxel (sc_cfg sc) <? e + delay)) eqn:Me.
    { split; [discriminate|]. intros (_ & _ & _ & H & _). apply andb_true_iff in Me. lia. }
    assert (Hel : 0 < c_maxel (sc_cfg sc) -> e + delay <= c_maxel (sc_cfg sc)).
    { apply andb_false_iff in Me. lia. }
    assert (Hns : next <> backoff_stop) by (apply Z.eqb_neq; exact Ns).
    destruct (sc_deadline sc) as [dl|] eqn:Dl.
    + destruct (dl <? e + delay) eqn:Dd.
      { split; [discriminate|]. intros (_ & _ & _ & _ & H & _). specialize (H dl eq_refl). lia. }
      destruct w; try (split; [discriminate | intros (_ & _ & _ & _ & _ & H & _); discriminate]).
      destruct (stop_closed_at sc (e + delay)) eqn:Sc.
      { split; [discriminate | intros (_ & _ & _ & _ & _ & _ & H); discriminate]. }
      split; [intros _ | reflexivity].
      repeat split; eauto. intros dl' Hd. inversion Hd; subst. lia.
    + destruct w; try (split; [discriminate | intros (_ & _ & _ & _ & _ & H & _); discriminate]).
      destruct (stop_closed_at sc (e + delay)) eqn:Sc.
      { split; [discriminate | intros (_ & _ & _ & _ & _ & _ & H); discriminate]. }
      split; [intros _ | reflexivity].
      repeat split; eauto. intros dl' Hd. discriminate.
Qed.

Lemma step_retry_iff sc n now pl cur a :
  s_dec (do_step sc n now pl cur a) = DRetry <-> retry_conditions sc (do_step sc n now pl cur a).
Proof. unfold retry_conditions, do_step. simpl. apply decide_retry_iff. Qed.

(* verdicts of a single step, by cause *)
Lemma decide_ok sc e next delay w : decide sc ROk e next delay w = DStop VOk.
Proof. reflexivity. Qed.

Lemma decide_permanent sc ch e next delay w :
  is_permanent ch = true ->
  decide sc (RErr ch) e next delay w = DStop (if c_enabled (sc_cfg sc) then VPermanent else VRaw).
Proof. intros P. unfold decide. destruct (c_enabled (sc_cfg sc)); simpl; [rewrite P|]; reflexivity. Qed.

Lemma decide_disabled sc ch e next delay w :
  c_enabled (sc_cfg sc) = false -> decide sc (RErr ch) e next delay w = DStop VRaw.
Proof. intros P. unfold decide. rewrite P. reflexivity. Qed.

(* the select is reached *)
Definition reaches_wait (sc : scenario) (st : step) : Prop :=
  c_enabled (sc_cfg sc) = true /\
  (exists ch, s_res st = RErr ch /\ is_permanent ch = false) /\
  s_next st <> backoff_stop /\
  fits_elapsed sc (s_end st + s_delay st) /\
  fits_deadline sc (s_end st + s_delay st).

Lemma decide_wait sc r e next delay w :
  c_enabled (sc_cfg sc) = true -> (exists ch, r = RErr ch /\ is_permanent ch = false) ->
  next <> backoff_stop -> fits_elapsed sc (e + delay) -> fits_deadline sc (e + delay) ->
  decide sc r e next delay w =
  match w with
  | WCtx => DStop VCancelled
  | WStop => DStop VShutdown
  | WTimer => if stop_closed_at sc (e + delay) then DStop VShutdown else DRetry
  end.
Proof.
  intros En (ch & -> & Pm) Ns Fe Fd. unfold decide, fits_elapsed, fits_deadline in *.
  rewrite En, Pm. simpl. apply Z.eqb_neq in Ns. rewrite Ns.
  destruct ((0 <? c_maxel (sc_cfg sc)) && (c_maxel (sc_cfg sc) <? e + delay)) eqn:Me.
  { apply andb_true_iff in Me. lia. }
  destruct (sc_deadline sc) as [dl|]; [|reflexivity].
  specialize (Fd dl eq_refl). destruct (dl <? e + delay) eqn:Dd; [lia|reflexivity].
Qed.

Lemma decide_shutdown_only sc r e next delay w :
  decide sc r e next delay w = DStop VShutdown ->
  w = WStop \/ (w = WTimer /\ stop_closed_at sc (e + delay) = true).
Proof.
  unfold decide. destruct r; [discriminate|].
  repeat match goal with |- context [if negb ?b then _ else _] => destruct b; simpl end; try discriminate.
  repeat match goal with |- context [if ?b then _ else _] => destruct b eqn:? end; try discriminate;
    destruct w; try discriminate; auto;
    match goal with |- context [stop_closed_at ?a ?b] => destruct (stop_closed_at a b) eqn:Sc end;
    try discriminate; auto.
Qed.

(* ================================================================================================ *)
(* 3. The select                                                                                      *)
(* ================================================================================================ *)
Lemma find_unique {A} (f : A -> bool) (l : list A) (w0 : A) :
  f w0 = true -> (forall w, f w = true -> w = w0) -> In w0 l -> find f l = Some w0.
Proof.
  intros H U. induction l as [|a l IH]; simpl; intros I; [contradiction|].
  destruct (f a) eqn:F; [f_equal; auto|]. destruct I as [->|I]; [congruence|auto].
Qed.

Lemma some_ready e d ctxd stop :
  is_ready e d ctxd stop WCtx = true \/ is_ready e d ctxd stop WStop = true \/ is_ready e d ctxd stop WTimer = true.
Proof.
  unfold is_ready, ready_at, first_instant. destruct ctxd as [c|], stop as [s|]; simpl; lia.
Qed.

Lemma select_ready pref e d ctxd stop : is_ready e d ctxd stop (select_wait pref e d ctxd stop) = true.
Proof.
  unfold select_wait. destruct (find _ _) as [w|] eqn:F.
  - apply find_some in F. apply F.
  - exfalso. pose proof (find_none _ _ F) as N.
    destruct (some_ready e d ctxd stop) as [H|[H|H]];
      [ rewrite (N WCtx) in H | rewrite (N WStop) in H | rewrite (N WTimer) in H ]; try discriminate;
      apply in_or_app; right; simpl; auto.
Qed.

Lemma select_unique pref e d ctxd stop w0 :
  is_ready e d ctxd stop w0 = true -> (forall w, is_ready e d ctxd stop w = true -> w = w0) ->
  select_wait pref e d ctxd stop = w0.
Proof.
  intros H U. unfold select_wait. rewrite (find_unique _ _ w0 H U); [reflexivity|].
  apply in_or_app; right. destruct w0; simpl; auto.
Qed.

(* the stop channel wins when it becomes ready strictly before the timer and the context *)
Lemma select_stop_wins pref e d ctxd stop s :
  stop = Some s -> Z.max e s < e + d -> (forall c, ctxd = Some c -> Z.max e s < Z.max e c) ->
  select_wait pref e d ctxd stop = WStop.
Proof.
  intros -> Ht Hc. apply select_unique.
  - unfold is_ready, ready_at, first_instant. destruct ctxd as [c|]; simpl; [specialize (Hc c eq_refl)|]; lia.
  - intros w. unfold is_ready, ready_at, first_instant.
    destruct w; destruct ctxd as [c|]; simpl; try specialize (Hc c eq_refl); try discriminate; try lia; auto.
Qed.

Lemma select_ctx_wins pref e d ctxd stop c :
  ctxd = Some c -> Z.max e c < e + d -> (forall s, stop = Some s -> Z.max e c < Z.max e s) ->
  select_wait pref e d ctxd stop = WCtx.
Proof.
  intros -> Ht Hs. apply select_unique.
  - unfold is_ready, ready_at, first_instant. destruct stop as [s|]; simpl; [specialize (Hs s eq_refl)|]; lia.
  - intros w. unfold is_ready, ready_at, first_instant.
    destruct w; destruct stop as [s|]; simpl; try specialize (Hs s eq_refl); try discriminate; try lia; auto.
Qed.

Lemma select_timer_wins pref e d ctxd stop :
  (forall c, ctxd = Some c -> e + d < Z.max e c) -> (forall s, stop = Some s -> e + d < Z.max e s) ->
  select_wait pref e d ctxd stop = WTimer.
Proof.
  intros Hc Hs. apply select_unique.
  - unfold is_ready, ready_at, first_instant.
    destruct ctxd as [c|]; destruct stop as [s|]; simpl;
      try specialize (Hc c eq_refl); try specialize (Hs s eq_refl); lia.
  - intros w. unfold is_ready, ready_at, first_instant.
    destruct w; destruct ctxd as [c|]; destruct stop as [s|]; simpl;
      try specialize (Hc c eq_refl); try specialize (Hs s eq_refl); try discriminate; try lia; auto.
Qed.

(* what each outcome of the select implies *)
Lemma select_timer_only pref e d ctxd stop :
  select_wait pref e d ctxd stop = WTimer ->
  (forall c, ctxd = Some c -> e + d <= Z.max e c) /\ (forall s, stop = Some s -> e + d <= Z.max e s).
Proof.
  intros H. pose proof (select_ready pref e d ctxd stop) as R. rewrite H in R.
  unfold is_ready, ready_at, first_instant in R.
  split; [intros c Hc; subst ctxd; destruct stop as [s'|] | intros s Hs; subst stop; destruct ctxd as [c'|]]; simpl in R; lia.
Qed.

Lemma select_stop_only pref e d ctxd stop :
  select_wait pref e d ctxd stop = WStop ->
  exists s, stop = Some s /\ Z.max e s <= e + d /\ (forall c, ctxd = Some c -> Z.max e s <= Z.max e c).
Proof.
  intros H. pose proof (select_ready pref e d ctxd stop) as R. rewrite H in R.
  unfold is_ready, ready_at, first_instant in R.
  destruct stop as [s|]; [|discriminate]. exists s. split; [reflexivity|].
  split; [destruct ctxd as [c'|] | intros c Hc; subst ctxd]; simpl in R; lia.
Qed.

Lemma select_ctx_only pref e d ctxd stop :
  select_wait pref e d ctxd stop = WCtx ->
  exists c, ctxd = Some c /\ Z.max e c <= e + d /\ (forall s, stop = Some s -> Z.max e c <= Z.max e s).
Proof.
  intros H. pose proof (select_ready pref e d ctxd stop) as R. rewrite H in R.
  unfold is_ready, ready_at, first_instant in R.
  destruct ctxd as [c|]; [|discriminate]. exists c. split; [reflexivity|].
  split; [destruct stop as [s'|] | intros s Hs; subst stop]; simpl in R; lia.
Qed.

(* ================================================================================================ *)
(* 4. Back-off arithmetic and the configuration domain                                                *)
(* ================================================================================================ *)
Definition valid_config (c : config) : Prop :=
  backoff_validate (c_enabled c) (c_init c) (fst (c_rf c)) (snd (c_rf c)) (fst (c_mult c)) (snd (c_mult c))
                   (c_maxint c) (c_maxel c) = None /\
  0 < snd (c_rf c) /\ 0 < snd (c_mult c).

Definition valid_draw (u : Z * Z) : Prop := 0 <= fst u < snd u.

Lemma validate_domain c :
  valid_config c -> c_enabled c = true ->
  0 <= c_init c /\ 0 <= fst (c_rf c) <= snd (c_rf c) /\ 0 <= fst (c_mult c) /\ 0 <= c_maxint c /\
  0 <= c_maxel c /\ (0 < c_maxel c -> c_init c <= c_maxel c /\ c_maxint c <= c_maxel c).
Proof.
  intros (V & Hr & Hm) En. unfold backoff_validate in V. rewrite En in V. cbn [negb] in V.
  repeat match type of V with context [if ?b then _ else _] => destruct b eqn:? end; try discriminate; lia.
Qed.

Lemma rand_interval_bounds c cur u :
  0 <= fst (c_rf c) <= snd (c_rf c) -> 0 < snd (c_rf c) -> valid_draw u -> 0 <= cur ->
  let next := rand_interval c cur u in
  0 <= next /\
  cur * (snd (c_rf c) - fst (c_rf c)) < (next + 1) * snd (c_rf c) /\
  next * snd (c_rf c) <= cur * (snd (c_rf c) + fst (c_rf c)) + snd (c_rf c).
Proof.
  unfold rand_interval, valid_draw. destruct (c_rf c) as [rn rd]. destruct u as [un ud]. cbn [fst snd].
  intros Hr Hd Hu Hc. cbv zeta. destruct (rn =? 0) eqn:R0.
  - apply Z.eqb_eq in R0. subst rn. nia.
  - set (N := cur * (rd - rn) * ud + un * (2 * rn * cur + rd)).
    set (D := rd * ud).
    assert (HD : 0 < D) by (unfold D; nia).
    pose proof (Z.mul_div_le N D HD) as Hlo.
    pose proof (Z.mul_succ_div_gt N D HD) as Hhi.
    assert (A1 : 0 <= cur * (rd - rn)) by (apply Z.mul_nonneg_nonneg; lia).
    assert (A2 : 0 <= 2 * rn * cur + rd) by nia.
    assert (H1 : cur * (rd - rn) * ud <= N) by (unfold N; nia).
    assert (H2 : N <= cur * (rd - rn) * ud + ud * (2 * rn * cur + rd)) by (unfold N; nia).
    assert (HN0 : 0 <= N) by nia.
    assert (Hq : 0 <= N / D) by (apply Z.div_pos; lia).
    set (q := N / D) in *.
    split; [exact Hq|]. unfold D in *. unfold Z.succ in Hhi. clearbody q. clearbody N. split.
    + assert (B : cur * (rd - rn) * ud < rd * (q + 1) * ud) by nia.
      assert (B' : cur * (rd - rn) < rd * (q + 1)). { apply Z.mul_lt_mono_pos_r with (p := ud); [lia|exact B]. }
      rewrite (Z.mul_comm (q + 1) rd). exact B'.
    + assert (B : q * rd * ud <= (cur * (rd + rn) + rd) * ud) by nia.
      assert (B' : q * rd <= cur * (rd + rn) + rd). { apply Z.mul_le_mono_pos_r with (p := ud); [lia|exact B]. }
      exact B'.
Qed.

Lemma increment_bounds c cur :
  0 <= cur -> 0 <= fst (c_mult c) -> 0 < snd (c_mult c) -> 0 <= c_maxint c ->
  0 <= increment c cur <= c_maxint c.
Proof.
  unfold increment. destruct (c_mult c) as [mn md]. simpl. intros Hc Hn Hd Hm.
  destruct (cur * mn >=? c_maxint c * md) eqn:E; [lia|].
  assert (cur * mn < c_maxint c * md) by lia.
  split; [apply Z.div_pos; nia|].
  assert (cur * mn / md < c_maxint c) by (apply Z.div_lt_upper_bound; nia). lia.
Qed.

(* the documented recurrence: interval' = min(interval * multiplier, max_interval), truncated *)
Lemma increment_min c cur :
  0 < snd (c_mult c) ->
  increment c cur = Z.min (cur * fst (c_mult c) / snd (c_mult c)) (c_maxint c).
Proof.
  unfold increment. destruct (c_mult c) as [mn md]. simpl. intros Hd.
  destruct (cur * mn >=? c_maxint c * md) eqn:E.
  - assert (c_maxint c <= cur * mn / md) by (apply Z.div_le_lower_bound; lia). lia.
  - assert (cur * mn / md < c_maxint c) by (apply Z.div_lt_upper_bound; lia). lia.
Qed.

Lemma reset_cur_bounds c cur lim :
  0 <= c_init c -> 0 <= cur <= lim -> 0 <= reset_cur c cur <= Z.max (c_init c) lim.
Proof. unfold reset_cur. destruct (cur =? 0); lia. Qed.

Lemma cur_seq_bounds c n :
  0 <= c_init c -> 0 <= fst (c_mult c) -> 0 < snd (c_mult c) -> 0 <= c_maxint c ->
  0 <= cur_seq c n <= Z.max (c_init c) (c_maxint c).
Proof.
  intros Hi Hn Hd Hm. induction n as [|n IH]; simpl.
  - unfold reset_cur. simpl. lia.
  - pose proof (increment_bounds c (cur_seq c n) ltac:(lia) Hn Hd Hm) as B.
    apply reset_cur_bounds; lia.
Qed.

(* the interval used by the n-th NextBackOff call *)
Lemma chain_cur sc script n now pl cur l v :
  chain sc script n now pl cur l v ->
  reset_cur (sc_cfg sc) cur = cur_seq (sc_cfg sc) n ->
  forall k st, nth_error l k = Some st -> s_cur st = cur_seq (sc_cfg sc) (n + k).
Proof.
  induction 1 as [| a rest n now pl cur v E | a rest n now pl cur l v E C IH]; intros Hc k st Hk.
  - destruct k; discriminate.
  - destruct k as [|k]; [|destruct k; discriminate]. inversion Hk; subst. unfold do_step; simpl. rewrite Nat.add_0_r. exact Hc.
  - destruct k as [|k].
    + inversion Hk; subst. unfold do_step; simpl. rewrite Nat.add_0_r. exact Hc.
    + simpl in Hk. replace (n + S k)%nat with (S n + k)%nat by lia. apply IH; [|exact Hk].
      unfold do_step; simpl. rewrite Hc. reflexivity.
Qed.

Lemma step_delay_def sc n now pl cur a :
  let st := do_step sc n now pl cur a in
  s_next st = rand_interval (sc_cfg sc) (s_cur st) (draw_at sc n) /\
  s_delay st = match s_res st with
               | RErr ch => match throttle_of ch with Some d => Z.max (s_next st) d | None => s_next st end
               | ROk => s_next st
               end.
Proof. unfold do_step; simpl. split; [reflexivity|]. destruct (snd (effective sc now a)); reflexivity. Qed.

(* ================================================================================================ *)
(* 5. Payload                                                                                         *)
(* ================================================================================================ *)
Lemma sub_ms_refl l : sub_ms l l.
Proof. intros x. lia. Qed.

Lemma sub_ms_trans a b c : sub_ms a b -> sub_ms b c -> sub_ms a c.
Proof. intros H1 H2 x. specialize (H1 x). specialize (H2 x). lia. Qed.

Lemma step_npayload sc n now pl cur a :
  let st := do_step sc n now pl cur a in
  s_npayload st = match s_res st with RErr ch => on_error (sc_sig sc) (s_payload st) ch | ROk => s_payload st end.
Proof. unfold do_step; simpl. destruct (snd (effective sc now a)); reflexivity. Qed.

Lemma chain_payload sc script n now pl cur l v :
  chain sc script n now pl cur l v ->
  (forall k st ch rem, nth_error l k = Some st -> s_res st = RErr ch ->
                       partial_of (sc_sig sc) ch = Some rem -> sub_ms rem (s_payload st)) ->
  forall k st, nth_error l k = Some st -> sub_ms (s_payload st) pl.
Proof.
  induction 1 as [| a rest n now pl cur v E | a rest n now pl cur l v E C IH]; intros Hp k st Hk.
  - destruct k; discriminate.
  - destruct k as [|k]; [|destruct k; discriminate]. inversion Hk; subst. apply sub_ms_refl.
  - destruct k as [|k].
    + inversion Hk; subst. apply sub_ms_refl.
    + simpl in Hk. eapply sub_ms_trans.
      * refine (IH _ k st Hk). intros k' st' ch rem Hk' Hr Hpa. exact (Hp (S k') st' ch rem Hk' Hr Hpa).
      * pose proof (step_npayload sc n now pl cur a) as NP. cbv zeta in NP. rewrite NP.
        destruct (s_res (do_step sc n now pl cur a)) as [|ch] eqn:R; [apply sub_ms_refl|].
        unfold on_error. destruct (partial_of (sc_sig sc) ch) as [rem|] eqn:Pa; [|apply sub_ms_refl].
        exact (Hp 0%nat _ ch rem eq_refl R Pa).
Qed.

(* ================================================================================================ *)
(* 6. Final error                                                                                     *)
(* ================================================================================================ *)
Lemma last_opt_nth {A} (l : list A) k : length l = S k -> last_opt l = nth_error l k.
Proof.
  revert k. induction l as [|a l IH]; intros k H; [discriminate|].
  destruct l as [|b l'].
  - destruct k; [reflexivity|discriminate].
  - destruct k as [|k]; [discriminate|]. simpl in H. change (last_opt (b :: l') = nth_error (b :: l') k).
    apply IH. simpl. lia.
Qed.

(* ================================================================================================ *)
(* 7. Error trees: errors.As finds a layer iff one occurs anywhere in the tree                        *)
(* ================================================================================================ *)
Fixpoint err_ind' (P : err -> Prop) (Hb : P EBase) (Hw : forall l e, P e -> P (EWrap l e))
         (Hj : forall es, Forall P es -> P (EJoin es))
         (Hc : forall ls b e, P e -> P (ECustom ls b e)) (e : err) : P e :=
  match e with
  | EBase => Hb
  | EWrap l e' => Hw l e' (err_ind' P Hb Hw Hj Hc e')
  | EJoin es =>
    Hj es ((fix go (es : list err) : Forall P es :=
              match es with
              | [] => Forall_nil P
              | x :: r => Forall_cons x (err_ind' P Hb Hw Hj Hc x) (go r)
              end) es)
  | ECustom ls b e' => Hc ls b e' (err_ind' P Hb Hw Hj Hc e')
  end.

Lemma find_first_is_some {A} (f : layer -> option A) ls :
  is_some (find_first f ls) = existsb (fun l => is_some (f l)) ls.
Proof. induction ls as [|l r IH]; [reflexivity|]. simpl. destruct (f l); simpl; [reflexivity|exact IH]. Qed.

Lemma find_first_witness {A} (f : layer -> option A) ls a :
  find_first f ls = Some a -> Exists (fun l => f l = Some a) ls.
Proof.
  induction ls as [|l r IH]; [discriminate|]. simpl. destruct (f l) eqn:F.
  - intros H. left. congruence.
  - intros H. right. auto.
Qed.

Lemma find_layer_join_cons {A} (f : layer -> option A) x r :
  find_layer f (EJoin (x :: r)) =
  match find_layer f x with Some a => Some a | None => find_layer f (EJoin r) end.
Proof. reflexivity. Qed.

Lemma find_layer_occurs {A} (f : layer -> option A) e :
  is_some (find_layer f e) = occurs (fun l => is_some (f l)) e.
Proof.
  induction e as [| l e IH | es IH | ls b e IH] using err_ind'.
  - reflexivity.
  - simpl. destruct (f l); simpl; [reflexivity|exact IH].
  - induction IH as [|x r Hx Hr IHr]; [reflexivity|].
    rewrite find_layer_join_cons. cbn [occurs existsb]. rewrite <- Hx.
    destruct (find_layer f x); simpl; [reflexivity|]. exact IHr.
  - cbn [find_layer occurs]. rewrite <- find_first_is_some, <- IH.
    destruct (find_first f ls); reflexivity.
Qed.

Lemma existsb_ext_l {A} (p q : A -> bool) l : (forall x, p x = q x) -> existsb p l = existsb q l.
Proof. intros H. induction l as [|x r IH]; [reflexivity|]. simpl. rewrite H, IH. reflexivity. Qed.

Lemma occurs_ext p q e : (forall l, p l = q l) -> occurs p e = occurs q e.
Proof.
  intros H. induction e as [| l e IH | es IH | ls b e IH] using err_ind'.
  - reflexivity.
  - simpl. rewrite H, IH. reflexivity.
  - induction IH as [|x r Hx Hr IHr]; [reflexivity|]. cbn [occurs existsb] in *. rewrite Hx, IHr. reflexivity.
  - cbn [occurs]. rewrite IH. f_equal. apply existsb_ext_l. exact H.
Qed.

(* Prop-valued occurrence, for "the value found is carried by some layer of the tree" *)
Fixpoint occursP (P : layer -> Prop) (e : err) : Prop :=
  match e with
  | EBase => False
  | EWrap l e' => P l \/ occursP P e'
  | EJoin es => (fix go (es : list err) : Prop := match es with [] => False | x :: r => occursP P x \/ go r end) es
  | ECustom ls _ e' => Exists P ls \/ occursP P e'
  end.

Lemma occursP_join_cons P x r : occursP P (EJoin (x :: r)) = (occursP P x \/ occursP P (EJoin r)).
Proof. reflexivity. Qed.

Lemma find_layer_witness {A} (f : layer -> option A) e a :
  find_layer f e = Some a -> occursP (fun l => f l = Some a) e.
Proof.
  induction e as [| l e IH | es IH | ls b e IH] using err_ind'.
  - discriminate.
  - simpl. destruct (f l) eqn:F; [intros H; left; congruence|intros H; right; auto].
  - induction IH as [|x r Hx Hr IHr]; [discriminate|].
    rewrite find_layer_join_cons, occursP_join_cons.
    destruct (find_layer f x) eqn:F; [intros H; left; apply Hx; congruence|intros H; right; auto].
  - cbn [find_layer occursP]. destruct (find_first f ls) eqn:F.
    + intros H. left. apply find_first_witness. congruence.
    + intros H. right. auto.
Qed.

Definition is_perm_layer (l : layer) : bool := match l with LPerm => true | _ => false end.
Definition is_shutdown_layer (l : layer) : bool := match l with LShutdown => true | _ => false end.
Definition is_throttle_layer (l : layer) : bool := match l with LThrottle _ => true | _ => false end.
Definition is_partial_layer (s : signal) (l : layer) : bool :=
  match l with LPartial s' _ => signal_eqb s s' | _ => false end.

Lemma is_permanent_occurs e : is_permanent e = occurs is_perm_layer e.
Proof. unfold is_permanent. rewrite find_layer_occurs. apply occurs_ext. intros []; reflexivity. Qed.

Lemma is_shutdown_occurs e : is_shutdown e = occurs is_shutdown_layer e.
Proof. unfold is_shutdown. rewrite find_layer_occurs. apply occurs_ext. intros []; reflexivity. Qed.

Lemma throttle_of_occurs e : is_some (throttle_of e) = occurs is_throttle_layer e.
Proof. unfold throttle_of. rewrite find_layer_occurs. apply occurs_ext. intros []; reflexivity. Qed.

Lemma partial_of_occurs s e : is_some (partial_of s e) = occurs (is_partial_layer s) e.
Proof.
  unfold partial_of. rewrite find_layer_occurs. apply occurs_ext. intros []; try reflexivity.
  simpl. destruct (signal_eqb s s0); reflexivity.
Qed.

Lemma occursP_impl (P Q : layer -> Prop) e : (forall l, P l -> Q l) -> occursP P e -> occursP Q e.
Proof.
  intros I. induction e as [| l e IH | es IH | ls b e IH] using err_ind'.
  - auto.
  - simpl. intros [H|H]; [left; auto|right; auto].
  - induction IH as [|x r Hx Hr IHr]; [auto|]. rewrite !occursP_join_cons. intros [H|H]; [left; auto|right; auto].
  - cbn [occursP]. intros [H|H]; [left|right; auto]. eapply Exists_impl; [exact I|exact H].
Qed.

Lemma throttle_of_witness e d : throttle_of e = Some d -> occursP (fun l => l = LThrottle d) e.
Proof.
  intros H. apply find_layer_witness in H. revert H. apply occursP_impl.
  intros l H. destruct l; try discriminate. congruence.
Qed.

Lemma partial_of_witness s e rem : partial_of s e = Some rem -> occursP (fun l => l = LPartial s rem) e.
Proof.
  intros H. apply find_layer_witness in H. revert H. apply occursP_impl.
  intros l H. destruct l; try discriminate.
  destruct (signal_eqb s s0) eqn:E; [|discriminate]. inversion H; subst.
  destruct s, s0; try discriminate; reflexivity.
Qed.

(* a combination is permanent iff one of its members is; likewise shutdown-classified *)
Lemma is_permanent_join es : is_permanent (EJoin es) = existsb is_permanent es.
Proof.
  rewrite is_permanent_occurs. cbn [occurs]. induction es as [|x r IH]; [reflexivity|].
  cbn [existsb]. rewrite IH, is_permanent_occurs. reflexivity.
Qed.

Lemma is_permanent_wrap l e : is_permanent (EWrap l e) = is_perm_layer l || is_permanent e.
Proof. rewrite !is_permanent_occurs. reflexivity. Qed.

(* ---- error types with their own As / Is methods ---------------------------------------------------------- *)
(* an Is method never influences any classification of the retry path (only errors.As is used there) *)
Lemma is_method_irrelevant {A} (f : layer -> option A) ls b b' e :
  find_layer f (ECustom ls b e) = find_layer f (ECustom ls b' e).
Proof. reflexivity. Qed.

(* a custom error that CLAIMS to be permanent / a shutdown error through its As method is classified as such,
   wherever it sits in the tree; one that claims nothing is transparent *)
Lemma claim_permanent ls b e : In LPerm ls -> is_permanent (ECustom ls b e) = true.
Proof.
  intros H. rewrite is_permanent_occurs. cbn [occurs]. apply orb_true_iff. left.
  apply existsb_exists. exists LPerm. split; [exact H|reflexivity].
Qed.

Lemma claim_shutdown ls b e : In LShutdown ls -> is_shutdown (ECustom ls b e) = true.
Proof.
  intros H. rewrite is_shutdown_occurs. cbn [occurs]. apply orb_true_iff. left.
  apply existsb_exists. exists LShutdown. split; [exact H|reflexivity].
Qed.

Lemma claim_nothing_transparent {A} (f : layer -> option A) b e : find_layer f (ECustom [] b e) = find_layer f e.
Proof. reflexivity. Qed.
