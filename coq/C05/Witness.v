(* C05/Witness.v — non-vacuity of the hypotheses of the theorems in Properties.v and concrete runs
   of the model (vm_compute). *)
From Verif Require Import Common.Base Generated.C05BackoffValidate C05.Model C05.Proofs C05.Proofs2 C05.Harness C05.Clauses.
Local Open Scope Z_scope.

Definition ms : Z := 1000000.

(* the default configuration of the collector: 5 s, factor 0.5, multiplier 1.5, 30 s, 5 min *)
Definition default_cfg : config :=
  {| c_enabled := true; c_init := 5000 * ms; c_rf := (1, 2); c_mult := (3, 2); c_maxint := 30000 * ms;
     c_maxel := 300000 * ms |}.

Example ex_default_valid : valid_config default_cfg.
Proof. unfold valid_config. vm_compute. repeat split; reflexivity. Qed.

(* Validate rejects: negative interval, factor > 1, budget below the initial interval *)
Example ex_validate_rejects :
  backoff_validate true (-1) 1 2 3 2 10 0 <> None /\
  backoff_validate true 5 3 2 3 2 10 0 <> None /\
  backoff_validate true 50 1 2 3 2 10 20 <> None /\
  backoff_validate false (-1) 3 2 (-3) 2 (-10) (-20) = None.
Proof. vm_compute. repeat split; try discriminate; reflexivity. Qed.

(* the interval sequence of the default configuration: 5 s, 7.5 s, 11.25 s, 16.875 s, 25.3125 s, 30 s, 30 s *)
Example ex_cur_seq :
  map (cur_seq default_cfg) [0; 1; 2; 3; 4; 5; 6]%nat =
  [5000 * ms; 7500 * ms; 11250 * ms; 16875 * ms; 25312500000; 30000 * ms; 30000 * ms].
Proof. vm_compute. reflexivity. Qed.

(* multiplier 1/2: the interval decays to 0 and is then reset to the initial interval *)
Example ex_cur_seq_decay :
  map (cur_seq {| c_enabled := true; c_init := 4; c_rf := (0, 1); c_mult := (1, 2); c_maxint := 100; c_maxel := 0 |})
      [0; 1; 2; 3; 4]%nat = [4; 2; 1; 4; 2].
Proof. vm_compute. reflexivity. Qed.

(* a draw in [0,1) exists and the envelope is hit at both ends: u = 0 gives cur/2, u -> 1 gives 3cur/2 + 1 - *)
Example ex_draws :
  valid_draw (0, 1) /\ valid_draw (999999, 1000000) /\
  rand_interval default_cfg 1000 (0, 1) = 500 /\ rand_interval default_cfg 1000 (999999, 1000000) = 1500.
Proof. vm_compute. repeat split; try discriminate; reflexivity. Qed.

(* ---- a scenario exercising most branches ------------------------------------------------------------- *)
Definition cfg1 : config :=
  {| c_enabled := true; c_init := 20 * ms; c_rf := (0, 1); c_mult := (2, 1); c_maxint := 100 * ms; c_maxel := 0 |}.

Definition sc1 (stop : option Z) (deadline : option Z) (maxel : Z) : scenario :=
  {| sc_cfg := {| c_enabled := true; c_init := 20 * ms; c_rf := (0, 1); c_mult := (2, 1); c_maxint := 100 * ms; c_maxel := maxel |};
     sc_timeout := 50 * ms; sc_sig := SLogs; sc_payload := [1; 2; 3; 3];
     sc_deadline := deadline; sc_cancel := None; sc_stop := stop; sc_draws := [];
     sc_tie := fun _ => [WCtx; WStop; WTimer] |}.

Definition script1 : list attempt :=
  [ {| a_dur := 10 * ms; a_res := RErr (echain [LWrap; LPartial SLogs [2; 3; 3]]); a_ignores_ctx := false |};          (* partial: resend 2,3,3 *)
    {| a_dur := 10 * ms; a_res := RErr (echain [LThrottle (70 * ms); LPartial STraces [9]]); a_ignores_ctx := false |}; (* throttle; foreign data ignored *)
    {| a_dur := 90 * ms; a_res := ROk; a_ignores_ctx := false |};                                              (* slower than the 50 ms timeout *)
    {| a_dur := 10 * ms; a_res := RErr (echain [LPartial SLogs [3]; LPerm]); a_ignores_ctx := false |};                 (* permanent deep in the chain *)
    {| a_dur := 10 * ms; a_res := ROk; a_ignores_ctx := false |} ].

(* starts, payloads and delays of the attempts; verdict *)
Example ex_run1 :
  (map (fun st => (s_start st, s_payload st, s_delay st)) (steps_of (sc1 None None 0) script1),
   verdict_of (sc1 None None 0) script1) =
  ([ (0, [1; 2; 3; 3], 20 * ms); (30 * ms, [2; 3; 3], 70 * ms); (110 * ms, [2; 3; 3], 80 * ms);
     (240 * ms, [2; 3; 3], 100 * ms) ], VPermanent).
Proof. vm_compute. reflexivity. Qed.

(* shutdown at 60 ms falls into the second wait (40 ms .. 110 ms): shutdown-classified *)
Example ex_run1_stop :
  (length (steps_of (sc1 (Some (60 * ms)) None 0) script1), verdict_of (sc1 (Some (60 * ms)) None 0) script1,
   final_is_shutdown (sc1 (Some (60 * ms)) None 0) script1) = (2%nat, VShutdown, true).
Proof. vm_compute. reflexivity. Qed.

(* the hypotheses of shutdown_classified hold for that run (step 1) *)
Example ex_stop_hyps :
  exists st, nth_error (steps_of (sc1 (Some (60 * ms)) None 0) script1) 1 = Some st /\
             reaches_wait (sc1 (Some (60 * ms)) None 0) st /\
             Z.max (s_end st) (60 * ms) < s_end st + s_delay st.
Proof.
  eexists. split; [vm_compute; reflexivity|]. split.
  - unfold reaches_wait, fits_elapsed, fits_deadline. cbn. split; [reflexivity|]. split.
    + eexists. split; reflexivity.
    + split; [discriminate|]. split; [intros H; vm_compute in H; discriminate|]. intros dl H. discriminate.
  - vm_compute. reflexivity.
Qed.

(* a deadline at 100 ms: the second delay (70 ms from 40 ms) does not fit *)
Example ex_run1_deadline :
  (length (steps_of (sc1 None (Some (100 * ms)) 0) script1), verdict_of (sc1 None (Some (100 * ms)) 0) script1)
  = (2%nat, VDeadline).
Proof. vm_compute. reflexivity. Qed.

(* an elapsed budget of 200 ms: the third delay (80 ms from 160 ms) does not fit *)
Example ex_run1_budget :
  (length (steps_of (sc1 None None (200 * ms)) script1), verdict_of (sc1 None None (200 * ms)) script1)
  = (3%nat, VNoMoreRetries).
Proof. vm_compute. reflexivity. Qed.

(* the hypothesis of payload_chain holds for script1 (every remainder is a sub-multiset) *)
Example ex_payload_hyp : sub_ms [2; 3; 3] [1; 2; 3; 3] /\ ~ sub_ms [3; 3; 3] [1; 2; 3; 3].
Proof.
  split.
  - intros x. unfold countZ. simpl.
    destruct (x =? 1) eqn:E1, (x =? 2) eqn:E2, (x =? 3) eqn:E3; simpl; lia.
  - intros H. specialize (H 3). vm_compute in H. lia.
Qed.

(* retry disabled: one attempt, the error comes back as it is *)
Example ex_disabled :
  let sc := {| sc_cfg := {| c_enabled := false; c_init := 0; c_rf := (0, 1); c_mult := (0, 1); c_maxint := 0; c_maxel := 0 |};
               sc_timeout := 0; sc_sig := SMetrics; sc_payload := [4]; sc_deadline := None; sc_cancel := None;
               sc_stop := None; sc_draws := []; sc_tie := fun _ => [] |} in
  (length (steps_of sc script1), verdict_of sc script1) = (1%nat, VRaw).
Proof. vm_compute. reflexivity. Qed.

(* the former S4 witness scenario (initial_interval 0, shutdown at 5 during the first attempt, the tie of
   the zero-length wait resolved for the TIMER): with the post-timer stop check the run ends after one
   attempt with the shutdown verdict, whichever way the tie goes *)
Example ex_s4_fixed :
  (map (fun st => (s_start st, s_delay st, s_wake st)) (steps_of s4_scenario s4_script),
   verdict_of s4_scenario s4_script, final_is_shutdown s4_scenario s4_script) = ([(0, 0, WTimer)], VShutdown, true).
Proof. vm_compute. reflexivity. Qed.

Example ex_s4_other :
  verdict_of {| sc_cfg := s4_cfg; sc_timeout := 0; sc_sig := SLogs; sc_payload := [1]; sc_deadline := None;
                sc_cancel := None; sc_stop := Some 5; sc_draws := []; sc_tie := fun _ => [WStop] |} s4_script = VShutdown.
Proof. vm_compute. reflexivity. Qed.

(* the tie oracle still matters for timer vs context: cancel at 10 = end of the first attempt = timer instant *)
Example ex_tie_ctx :
  let sc t := {| sc_cfg := s4_cfg; sc_timeout := 0; sc_sig := SLogs; sc_payload := [1]; sc_deadline := None;
                 sc_cancel := Some 10; sc_stop := None; sc_draws := []; sc_tie := fun _ => t |} in
  (verdict_of (sc [WCtx]) s4_script, length (steps_of (sc [WTimer]) s4_script)) = (VCancelled, 2%nat).
Proof. vm_compute. reflexivity. Qed.

(* ---- combined errors -------------------------------------------------------------------------------- *)
(* Join(plain, wrap(permanent)) is permanent; Join(throttle 30, Join(throttle 90, partial [2])): the first
   throttle in depth-first order wins and the partial data inside the nested combination is found *)
Example ex_join_classification :
  is_permanent (EJoin [EBase; EWrap LWrap (EWrap LPerm EBase)]) = true /\
  is_permanent (EWrap LWrap (EJoin [EBase; echain [LThrottle 5]])) = false /\
  throttle_of (EJoin [echain [LThrottle 30]; EJoin [echain [LThrottle 90]; echain [LPartial SLogs [2]]]]) = Some 30 /\
  partial_of SLogs (EJoin [echain [LThrottle 30]; EJoin [echain [LThrottle 90]; echain [LPartial SLogs [2]]]]) = Some [2] /\
  is_shutdown (EJoin [EBase; echain [LWrap; LShutdown]]) = true.
Proof. vm_compute. repeat split; reflexivity. Qed.

(* a fan-out exporter reports Join(transient, permanent): exactly one attempt, permanent verdict *)
Example ex_join_permanent_run :
  let script := [ {| a_dur := 10 * ms; a_res := RErr (EJoin [EBase; echain [LPerm]]); a_ignores_ctx := false |}; {| a_dur := 10 * ms; a_res := ROk; a_ignores_ctx := false |} ] in
  (length (steps_of (sc1 None None 0) script), verdict_of (sc1 None None 0) script,
   final_is_permanent (sc1 None None 0) script) = (1%nat, VPermanent, true).
Proof. vm_compute. reflexivity. Qed.

(* ---- several requests through one sender ------------------------------------------------------------------ *)
(* three requests: two are waiting in their first back-off (entered at 0 and at 3 ms) when shutdown comes at
   25 ms, the third is sent at 40 ms, after shutdown: all three end shutdown-classified after ONE attempt,
   and each used the initial interval *)
Example ex_sender_shutdown :
  let rq t := {| rq_start := t; rq_sc := sc1 None None 0; rq_script := script1 |} in
  map (fun p => (length (fst p), snd p, map s_cur (fst p)))
      (sender_runs cfg1 0 (Some (25 * ms)) [rq 0; rq (3 * ms); rq (40 * ms)]) =
  [ (1%nat, VShutdown, [20 * ms]); (1%nat, VShutdown, [20 * ms]); (1%nat, VShutdown, [20 * ms]) ].
Proof. vm_compute. reflexivity. Qed.

(* ---- round 5: non-vacuity of further hypotheses ----------------------------------------------------------------- *)
(* the run interrupted by shutdown at 60 ms is kept by a persistent queue, the permanently rejected one is not *)
Example ex_kept :
  (request_kept (sc1 (Some (60 * ms)) None 0) script1, request_kept (sc1 None None 0) script1) = (true, false).
Proof. vm_compute. reflexivity. Qed.

(* the third attempt of script1 (90 ms against a 50 ms timeout) is cut by its context: hypotheses of
   context_expiry_is_transient, and the run goes on after it *)
Example ex_ctx_expiry :
  a_ignores_ctx (nth 2 script1 ok_attempt) = false /\ att_done (sc1 None None 0) (110 * ms) = Some (160 * ms) /\ 160 * ms < 110 * ms + 90 * ms /\
  (length (steps_of (sc1 None None 0) script1) > 3)%nat.
Proof. vm_compute. repeat split; try reflexivity; lia. Qed.

(* wake_timer_iff: its distinct-instants hypotheses hold for the first wait of the stop-at-60ms run *)
Example ex_distinct_instants :
  exists st, nth_error (steps_of (sc1 (Some (60 * ms)) None 0) script1) 0 = Some st /\
             Z.max (s_end st) (60 * ms) <> s_end st + s_delay st /\ ctx_done (sc1 (Some (60 * ms)) None 0) = None.
Proof. eexists. split; [vm_compute; reflexivity|]. split; [vm_compute; discriminate|reflexivity]. Qed.

(* ---- the link theorem model_passes_checker: its guards hold for sc1 / script1, the checker accepts the model's own
   observation, and it is not vacuous: tampered observations are rejected with the right clause ------------------- *)
Example ex_link_guards :
  valid_config (sc_cfg (sc1 (Some (60 * ms)) None 0)) /\ valid_draw (draw_at (sc1 (Some (60 * ms)) None 0) 3) /\
  verdict_of (sc1 (Some (60 * ms)) None 0) script1 <> VPending.
Proof. unfold valid_config, valid_draw. vm_compute. repeat split; try reflexivity; discriminate. Qed.

Example ex_link_accepts :
  let sc := sc1 None None (200 * ms) in
  violations_core sc true script1 (observe_atts sc (steps_of sc script1)) (observe_delays (steps_of sc script1))
                  (observe_final sc script1) = [].
Proof. vm_compute. reflexivity. Qed.

(* one more attempt than the model makes (after the budget verdict): clauses 2 and 5; a shortened delay: clause 4 ... *)
Example ex_link_rejects :
  let sc := sc1 None None (200 * ms) in
  let l := steps_of sc script1 in
  violations_core sc true script1 (observe_atts sc l ++ [([2; 3; 3], 2)]) (observe_delays l) (observe_final sc script1) <> [] /\
  violations_core sc true script1 (observe_atts sc l) (map (fun d => d - 1) (observe_delays l)) (observe_final sc script1) <> [] /\
  violations_core sc true script1 (observe_atts sc l) (observe_delays l) [0; 0; 0] <> [].
Proof. vm_compute. repeat split; discriminate. Qed.

(* ---- a backend that ignores cancellation: the third attempt of script1 (90 ms against the 50 ms timeout) now
   answers Ok at 200 ms, after its context ended at 160 ms: that success is final (3 attempts, VOk); with the
   honouring backend the same attempt is cut at 160 ms and the run goes on (ex_run1: 4 attempts) ---------------------- *)
Example ex_late_success :
  let script := [ nth 0 script1 ok_attempt; nth 1 script1 ok_attempt;
                  {| a_dur := 90 * ms; a_res := ROk; a_ignores_ctx := true |}; nth 3 script1 ok_attempt ] in
  (map (fun st => (s_start st, s_end st)) (steps_of (sc1 None None 0) script), verdict_of (sc1 None None 0) script)
  = ([(0, 10 * ms); (30 * ms, 40 * ms); (110 * ms, 200 * ms)], VOk).
Proof. vm_compute. reflexivity. Qed.
