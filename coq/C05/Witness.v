From Verif Require Import Common.Base Generated.C05BackoffValidate C05.Model C05.Proofs.
Local Open Scope Z_scope.
