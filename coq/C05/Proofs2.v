(* C05/Proofs2.v — the statements of Properties.v, over whole runs. *)
From Verif Require Import Common.Base Generated.C05BackoffValidate C05.Model C05.Proofs.
From Coq Require Import ZifyBool.
Local Open Scope Z_scope.
Local Arguments do_step : simpl never.

Lemma run_nth sc script k st :
  nth_error (steps_of sc script) k = Some st ->
  exists now pl cur a, nth_error script k = Some a /\ st = do_step sc k now pl cur a.
Proof. intros H. exact (chain_nth _ _ _ _ _ _ _ _ (run_chain sc script) k st H). Qed.

Lemma nth_error_prev {A} (l : list A) k x : nth_error l (S k) = Some x -> exists y, nth_error l k = Some y.
Proof.
  intros H. assert (L : (S k < length l)%nat) by (apply nth_error_Some; congruence).
  destruct (nth_error l k) eqn:E; [eauto|]. apply nth_error_None in E. lia.
Qed.

Lemma last_opt_in {A} (l : list A) x : last_opt l = Some x -> exists k, nth_error l k = Some x /\ length l = S k.
Proof.
  induction l as [|a l IH]; [discriminate|]. destruct l as [|b l'].
  - simpl. intros H; inversion H; subst. exists 0%nat. split; reflexivity.
  - intros H. change (last_opt (b :: l') = Some x) in H. destruct (IH H) as (k & Hk & L).
    exists (S k). split; [exact Hk|simpl in *; lia].
Qed.

(* ---- retry_iff ---------------------------------------------------------------------------------- *)
Lemma retry_iff_l sc script k st :
  nth_error (steps_of sc script) k = Some st -> (s_dec st = DRetry <-> retry_conditions sc st).
Proof. intros H. destruct (run_nth _ _ _ _ H) as (now & pl & cur & a & _ & ->). apply step_retry_iff. Qed.

Lemma wake_def_l sc script k st :
  nth_error (steps_of sc script) k = Some st ->
  s_wake st = select_wait (sc_tie sc k) (s_end st) (s_delay st) (ctx_done sc) (sc_stop sc).
Proof. intros H. destruct (run_nth _ _ _ _ H) as (now & pl & cur & a & _ & ->). reflexivity. Qed.

Lemma next_attempt_iff_l sc script k st :
  nth_error (steps_of sc script) k = Some st ->
  ((exists st', nth_error (steps_of sc script) (S k) = Some st') <->
   (s_dec st = DRetry /\ (S k < length script)%nat)).
Proof.
  intros H. pose proof (run_chain sc script) as C. split.
  - intros (st' & H'). split.
    + exact (proj1 (chain_consecutive _ _ _ _ _ _ _ _ C k st st' H H')).
    + pose proof (chain_length _ _ _ _ _ _ _ _ C) as L.
      assert (S k < length (steps_of sc script))%nat by (apply nth_error_Some; congruence). lia.
  - intros (D & L). exact (chain_retry_next _ _ _ _ _ _ _ _ C k st H D L).
Qed.

Lemma attempt_happens_iff_l sc script k st :
  nth_error (steps_of sc script) k = Some st ->
  ((exists st', nth_error (steps_of sc script) (S k) = Some st') <->
   (retry_conditions sc st /\ (S k < length script)%nat)).
Proof. intros H. rewrite (next_attempt_iff_l _ _ _ _ H), (retry_iff_l _ _ _ _ H). reflexivity. Qed.

(* under distinct instants the select takes the timer iff neither the context nor the stop
   channel becomes ready before the end of the wait *)
Lemma wake_timer_iff_l sc script k st :
  nth_error (steps_of sc script) k = Some st ->
  (forall c, ctx_done sc = Some c -> Z.max (s_end st) c <> s_end st + s_delay st) ->
  (forall s, sc_stop sc = Some s -> Z.max (s_end st) s <> s_end st + s_delay st) ->
  (s_wake st = WTimer <->
   (forall c, ctx_done sc = Some c -> s_end st + s_delay st < Z.max (s_end st) c) /\
   (forall s, sc_stop sc = Some s -> s_end st + s_delay st < Z.max (s_end st) s)).
Proof.
  intros H Nc Ns. rewrite (wake_def_l _ _ _ _ H). split.
  - intros W. destruct (select_timer_only _ _ _ _ _ W) as [Hc Hs]. split.
    + intros c E. specialize (Hc c E). specialize (Nc c E). lia.
    + intros s E. specialize (Hs s E). specialize (Ns s E). lia.
  - intros [Hc Hs]. apply select_timer_wins; assumption.
Qed.

(* ---- no_attempt_after_verdict ---------------------------------------------------------------------- *)
Lemma verdict_is_final_l sc script k st v :
  nth_error (steps_of sc script) k = Some st -> s_dec st = DStop v ->
  length (steps_of sc script) = S k /\ nth_error (steps_of sc script) (S k) = None /\ verdict_of sc script = v.
Proof.
  intros H D. destruct (chain_stop_last _ _ _ _ _ _ _ _ (run_chain sc script) k st v H D) as [L V].
  split; [exact L|]. split; [|exact V]. apply nth_error_None. lia.
Qed.

Lemma no_attempt_after_verdict_l sc script k st :
  nth_error (steps_of sc script) k = Some st ->
  (s_res st = ROk \/ exists ch, s_res st = RErr ch /\ is_permanent ch = true) ->
  length (steps_of sc script) = S k /\ nth_error (steps_of sc script) (S k) = None /\
  verdict_of sc script =
    match s_res st with ROk => VOk | RErr _ => if c_enabled (sc_cfg sc) then VPermanent else VRaw end.
Proof.
  intros H Hv. destruct (run_nth _ _ _ _ H) as (now & pl & cur & a & _ & E).
  apply (verdict_is_final_l _ _ _ _ _ H). rewrite E. unfold do_step; simpl.
  rewrite E in Hv. unfold do_step in Hv; simpl in Hv.
  destruct Hv as [R|(ch & R & P)]; rewrite R.
  - reflexivity.
  - apply decide_permanent. exact P.
Qed.

(* ---- waits ------------------------------------------------------------------------------------------- *)
Lemma next_start_l sc script k st st' :
  nth_error (steps_of sc script) k = Some st -> nth_error (steps_of sc script) (S k) = Some st' ->
  s_start st' = s_end st + s_delay st.
Proof. intros H H'. exact (proj1 (proj2 (chain_consecutive _ _ _ _ _ _ _ _ (run_chain sc script) k st st' H H'))). Qed.

Lemma delay_def_l sc script k st :
  nth_error (steps_of sc script) k = Some st ->
  s_next st = rand_interval (sc_cfg sc) (s_cur st) (draw_at sc k) /\
  s_delay st = match s_res st with
               | RErr ch => match throttle_of ch with Some d => Z.max (s_next st) d | None => s_next st end
               | ROk => s_next st
               end.
Proof. intros H. destruct (run_nth _ _ _ _ H) as (now & pl & cur & a & _ & ->). apply step_delay_def. Qed.

Lemma wait_lower_bound_l sc script k st st' ch d :
  nth_error (steps_of sc script) k = Some st -> nth_error (steps_of sc script) (S k) = Some st' ->
  s_res st = RErr ch -> throttle_of ch = Some d ->
  d <= s_start st' - s_end st /\ s_start st' - s_end st = Z.max (s_next st) d.
Proof.
  intros H H' R T. rewrite (next_start_l _ _ _ _ _ H H').
  destruct (delay_def_l _ _ _ _ H) as [_ D]. rewrite R, T in D. rewrite D. lia.
Qed.

Lemma cur_is_seq_l sc script k st :
  nth_error (steps_of sc script) k = Some st -> s_cur st = cur_seq (sc_cfg sc) k.
Proof.
  intros H. exact (chain_cur _ _ _ _ _ _ _ _ (run_chain sc script) eq_refl k st H).
Qed.

Lemma wait_envelope_l sc script k st :
  valid_config (sc_cfg sc) -> c_enabled (sc_cfg sc) = true -> valid_draw (draw_at sc k) ->
  nth_error (steps_of sc script) k = Some st ->
  let rn := fst (c_rf (sc_cfg sc)) in
  let rd := snd (c_rf (sc_cfg sc)) in
  s_cur st = cur_seq (sc_cfg sc) k /\
  0 <= s_cur st <= Z.max (c_init (sc_cfg sc)) (c_maxint (sc_cfg sc)) /\
  0 <= s_next st /\ s_next st <> backoff_stop /\
  s_cur st * (rd - rn) < (s_next st + 1) * rd /\
  s_next st * rd <= s_cur st * (rd + rn) + rd /\
  s_next st <= s_delay st /\
  (forall ch, s_res st = RErr ch -> throttle_of ch = None -> s_delay st = s_next st).
Proof.
  intros V En Dr H rn rd. pose proof V as (_ & Hrd & Hmd).
  destruct (validate_domain _ V En) as (Hi & Hr & Hm & Hmi & _).
  pose proof (cur_is_seq_l _ _ _ _ H) as Hc.
  pose proof (cur_seq_bounds (sc_cfg sc) k Hi Hm Hmd Hmi) as Hb. rewrite <- Hc in Hb.
  destruct (delay_def_l _ _ _ _ H) as [Hn Hd].
  pose proof (rand_interval_bounds (sc_cfg sc) (s_cur st) (draw_at sc k) Hr Hrd Dr (proj1 Hb)) as B.
  cbv zeta in B. rewrite <- Hn in B. destruct B as (B0 & B1 & B2).
  split; [exact Hc|]. split; [exact Hb|]. split; [exact B0|].
  split; [unfold backoff_stop; lia|]. split; [exact B1|]. split; [exact B2|]. split.
  - rewrite Hd. destruct (s_res st) as [|ch]; [lia|]. destruct (throttle_of ch); lia.
  - intros ch R T. rewrite Hd, R, T. reflexivity.
Qed.

Lemma retry_within_limits_l sc script k st st' :
  nth_error (steps_of sc script) k = Some st -> nth_error (steps_of sc script) (S k) = Some st' ->
  fits_elapsed sc (s_start st') /\ fits_deadline sc (s_start st').
Proof.
  intros H H'. rewrite (next_start_l _ _ _ _ _ H H').
  assert (D : s_dec st = DRetry) by exact (proj1 (chain_consecutive _ _ _ _ _ _ _ _ (run_chain sc script) k st st' H H')).
  apply (retry_iff_l _ _ _ _ H) in D. destruct D as (_ & _ & _ & Fe & Fd & _). split; assumption.
Qed.

Lemma disabled_single_attempt_l sc script :
  c_enabled (sc_cfg sc) = false -> (length (steps_of sc script) <= 1)%nat.
Proof.
  intros En. destruct (steps_of sc script) as [|a [|b l]] eqn:E; simpl; try lia. exfalso.
  assert (H0 : nth_error (steps_of sc script) 0 = Some a) by (rewrite E; reflexivity).
  assert (H1 : nth_error (steps_of sc script) 1 = Some b) by (rewrite E; reflexivity).
  pose proof (proj1 (chain_consecutive _ _ _ _ _ _ _ _ (run_chain sc script) 0%nat a b H0 H1)) as D.
  apply (retry_iff_l _ _ _ _ H0) in D. destruct D as (En' & _). congruence.
Qed.

(* ---- payload ------------------------------------------------------------------------------------------- *)
Lemma first_payload_l sc script st :
  nth_error (steps_of sc script) 0 = Some st -> s_payload st = sc_payload sc /\ s_start st = 0.
Proof.
  intros H. pose proof (run_chain sc script) as C. destruct (steps_of sc script) as [|x l]; [discriminate|].
  inversion H; subst. destruct (chain_first _ _ _ _ _ _ _ _ _ C) as (a & rest & _ & ->). split; reflexivity.
Qed.

Lemma resend_remainder_only_l sc script k st st' :
  nth_error (steps_of sc script) k = Some st -> nth_error (steps_of sc script) (S k) = Some st' ->
  exists ch, s_res st = RErr ch /\
    s_payload st' = match partial_of (sc_sig sc) ch with Some rem => rem | None => s_payload st end.
Proof.
  intros H H'. destruct (chain_consecutive _ _ _ _ _ _ _ _ (run_chain sc script) k st st' H H') as (D & _ & P & _).
  apply (retry_iff_l _ _ _ _ H) in D. destruct D as (_ & (ch & R & _) & _).
  exists ch. split; [exact R|]. rewrite P.
  destruct (run_nth _ _ _ _ H) as (now & pl & cur & a & _ & E). subst st.
  pose proof (step_npayload sc k now pl cur a) as NP. cbv zeta in NP. rewrite NP, R. reflexivity.
Qed.

Lemma payload_chain_l sc script :
  (forall k st ch rem, nth_error (steps_of sc script) k = Some st -> s_res st = RErr ch ->
                       partial_of (sc_sig sc) ch = Some rem -> sub_ms rem (s_payload st)) ->
  forall i j sti stj, (i <= j)%nat ->
    nth_error (steps_of sc script) i = Some sti -> nth_error (steps_of sc script) j = Some stj ->
    sub_ms (s_payload stj) (s_payload sti).
Proof.
  intros Hp i j sti stj Le Hi Hj.
  destruct (chain_suffix _ _ _ _ _ _ _ _ (run_chain sc script) i sti Hi) as (script' & now' & cur' & l' & C' & N').
  apply (chain_payload _ _ _ _ _ _ _ _ C') with (k := (j - i)%nat).
  - intros k st ch rem Hk. rewrite N' in Hk. exact (Hp _ st ch rem Hk).
  - rewrite N'. replace (i + (j - i))%nat with j by lia. exact Hj.
Qed.

(* ---- shutdown -------------------------------------------------------------------------------------------- *)
Lemma shutdown_classified_l sc script :
  verdict_of sc script = VShutdown ->
  final_is_shutdown sc script = true /\
  final_err (verdict_of sc script) (last_err (steps_of sc script)) = Some (EWrap LShutdown (last_err (steps_of sc script))).
Proof. intros V. unfold final_is_shutdown. rewrite V. simpl. split; reflexivity. Qed.

Lemma reaches_wait_dec sc script k st :
  nth_error (steps_of sc script) k = Some st -> reaches_wait sc st ->
  s_dec st = match s_wake st with
             | WCtx => DStop VCancelled
             | WStop => DStop VShutdown
             | WTimer => if stop_closed_at sc (s_end st + s_delay st) then DStop VShutdown else DRetry
             end.
Proof.
  intros H (En & Tr & Ns & Fe & Fd). destruct (run_nth _ _ _ _ H) as (now & pl & cur & a & _ & E). subst st.
  unfold do_step in *; simpl in *. apply decide_wait; assumption.
Qed.

Lemma stop_in_wait_l sc script k st s :
  nth_error (steps_of sc script) k = Some st -> reaches_wait sc st ->
  sc_stop sc = Some s -> Z.max (s_end st) s <= s_end st + s_delay st ->
  (forall c, ctx_done sc = Some c -> Z.max (s_end st) s < Z.max (s_end st) c) ->
  verdict_of sc script = VShutdown /\ length (steps_of sc script) = S k /\ final_is_shutdown sc script = true.
Proof.
  intros H RW St Le Hc. pose proof (reaches_wait_dec _ _ _ _ H RW) as D.
  assert (D' : s_dec st = DStop VShutdown).
  { destruct (s_wake st) eqn:W.
    - exfalso. rewrite (wake_def_l _ _ _ _ H) in W.
      destruct (select_ctx_only _ _ _ _ _ W) as (c & Cd & _ & Hs).
      specialize (Hs s St). specialize (Hc c Cd). lia.
    - exact D.
    - rewrite D. unfold stop_closed_at. rewrite St.
      destruct (s <=? s_end st + s_delay st) eqn:E; [reflexivity|lia]. }
  destruct (verdict_is_final_l _ _ _ _ _ H D') as (L & _ & V).
  split; [exact V|]. split; [exact L|]. exact (proj1 (shutdown_classified_l _ _ V)).
Qed.

Lemma cancel_in_wait_l sc script k st c :
  nth_error (steps_of sc script) k = Some st -> reaches_wait sc st ->
  ctx_done sc = Some c -> Z.max (s_end st) c < s_end st + s_delay st ->
  (forall s, sc_stop sc = Some s -> Z.max (s_end st) c < Z.max (s_end st) s) ->
  verdict_of sc script = VCancelled /\ length (steps_of sc script) = S k.
Proof.
  intros H RW Cd Lt Hs. pose proof (reaches_wait_dec _ _ _ _ H RW) as D.
  rewrite (wake_def_l _ _ _ _ H) in D.
  rewrite (select_ctx_wins _ _ _ _ _ c Cd Lt Hs) in D.
  destruct (verdict_is_final_l _ _ _ _ _ H D) as (L & _ & V). split; assumption.
Qed.

Lemma shutdown_only_when_stopped_l sc script :
  verdict_of sc script = VShutdown ->
  exists st s, last_opt (steps_of sc script) = Some st /\ sc_stop sc = Some s /\
               s <= s_end st + s_delay st /\
               exists ch, s_res st = RErr ch /\ is_permanent ch = false.
Proof.
  intros V. pose proof (run_chain sc script) as C.
  destruct (last_opt (steps_of sc script)) as [st|] eqn:L.
  2:{ destruct (steps_of sc script) as [|x l] eqn:E.
      - inversion C; subst. cbv in V. discriminate V.
      - exfalso. clear -L. revert x L. induction l as [|y l IH]; intros x L; [discriminate|].
        change (last_opt (y :: l) = None) in L. exact (IH y L). }
  destruct (chain_last _ _ _ _ _ _ _ _ C st L) as [D|(_ & V' & _)]; [|congruence].
  rewrite V in D. destruct (last_opt_in _ _ L) as (k & Hk & _).
  destruct (run_nth _ _ _ _ Hk) as (now & pl & cur & a & _ & E).
  assert (W : exists s, sc_stop sc = Some s /\ s <= s_end st + s_delay st).
  { assert (W : s_wake st = WStop \/ (s_wake st = WTimer /\ stop_closed_at sc (s_end st + s_delay st) = true)).
    { rewrite E in D |- *. unfold do_step in *; simpl in *. exact (decide_shutdown_only _ _ _ _ _ _ D). }
    destruct W as [W|[_ W]].
    - rewrite (wake_def_l _ _ _ _ Hk) in W. destruct (select_stop_only _ _ _ _ _ W) as (s & St & Le & _).
      exists s. split; [exact St|lia].
    - unfold stop_closed_at in W. destruct (sc_stop sc) as [s|]; [|discriminate]. exists s. split; [reflexivity|lia]. }
  destruct W as (s & St & Le). exists st, s. split; [reflexivity|]. split; [exact St|]. split; [exact Le|].
  rewrite E in D |- *. unfold do_step in *; simpl in *. unfold decide in D.
  destruct (snd (effective sc now a)) as [|ch]; [discriminate|]. exists ch. split; [reflexivity|].
  destruct (negb (c_enabled (sc_cfg sc))); [discriminate|]. destruct (is_permanent ch); [discriminate|reflexivity].
Qed.

(* FULL statement (since the post-timer stop check, fix 9628cae8b in /repo): no hypothesis about ties *)
Lemma no_attempt_after_stop_l sc script s :
  sc_stop sc = Some s ->
  forall k st', nth_error (steps_of sc script) (S k) = Some st' -> s_start st' < s.
Proof.
  intros St k st' H'. destruct (nth_error_prev _ _ _ H') as (st & H).
  destruct (chain_consecutive _ _ _ _ _ _ _ _ (run_chain sc script) k st st' H H') as (D & S' & _).
  apply (retry_iff_l _ _ _ _ H) in D. destruct D as (_ & _ & _ & _ & _ & _ & Sc).
  unfold stop_closed_at in Sc. rewrite St in Sc. rewrite S'. lia.
Qed.

(* ---- timeout ----------------------------------------------------------------------------------------------- *)
Lemma timeout_per_attempt_l sc script k st :
  nth_error (steps_of sc script) k = Some st ->
  s_deadline st = omin (sc_deadline sc) (if sc_timeout sc =? 0 then None else Some (s_start st + sc_timeout sc)).
Proof. intros H. destruct (run_nth _ _ _ _ H) as (now & pl & cur & a & _ & ->). reflexivity. Qed.

(* ---- the former S4 scenario (initial_interval = 0, shutdown during the first attempt, the select tie
   resolved for the timer); used in Witness.v: with the post-timer stop check the run now ends with
   the shutdown verdict after ONE attempt --------------------------------------------------------- *)
Definition s4_cfg : config :=
  {| c_enabled := true; c_init := 0; c_rf := (0, 1); c_mult := (3, 2); c_maxint := 30000000000; c_maxel := 0 |}.
Definition s4_scenario : scenario :=
  {| sc_cfg := s4_cfg; sc_timeout := 0; sc_sig := SLogs; sc_payload := [1]; sc_deadline := None; sc_cancel := None;
     sc_stop := Some 5; sc_draws := []; sc_tie := fun _ => [WTimer] |}.
Definition s4_script : list attempt :=
  [ {| a_dur := 10; a_res := RErr EBase; a_ignores_ctx := false |}; {| a_dur := 10; a_res := ROk; a_ignores_ctx := false |} ].

Lemma s4_valid : valid_config s4_cfg.
Proof. unfold valid_config. vm_compute. repeat split; reflexivity. Qed.

(* the property's wording, for configurations accepted by Validate (backoff.Stop cannot occur) *)
Lemma retry_iff_validated_l sc script k st :
  valid_config (sc_cfg sc) -> valid_draw (draw_at sc k) ->
  nth_error (steps_of sc script) k = Some st ->
  (s_dec st = DRetry <->
   c_enabled (sc_cfg sc) = true /\ (exists ch, s_res st = RErr ch /\ is_permanent ch = false) /\
   fits_elapsed sc (s_end st + s_delay st) /\ fits_deadline sc (s_end st + s_delay st) /\ s_wake st = WTimer /\
   stop_closed_at sc (s_end st + s_delay st) = false).
Proof.
  intros V Dr H. rewrite (retry_iff_l _ _ _ _ H). unfold retry_conditions. split.
  - intros (En & Tr & _ & Fe & Fd & W & Sc). repeat split; assumption.
  - intros (En & Tr & Fe & Fd & W & Sc). split; [exact En|]. split; [exact Tr|]. split; [|repeat split; assumption].
    pose proof (wait_envelope_l sc script k st V En Dr H) as E. cbv zeta in E. tauto.
Qed.

(* ---- several requests through one retry sender --------------------------------------------------------- *)
Lemma sends_independent_l c timeout T rs i r :
  nth_error rs i = Some r ->
  nth_error (sender_runs c timeout T rs) i = Some (run (request_scenario c timeout T r) (rq_script r)).
Proof.
  intros H. unfold sender_runs.
  exact (map_nth_error (fun r => run (request_scenario c timeout T r) (rq_script r)) i rs H).
Qed.

Lemma no_attempt_after_stop_any_request_l c timeout t rs i r :
  nth_error rs i = Some r ->
  forall k st', nth_error (steps_of (request_scenario c timeout (Some t) r) (rq_script r)) (S k) = Some st' ->
  rq_start r + s_start st' < t.
Proof.
  intros _ k st' H.
  pose proof (no_attempt_after_stop_l (request_scenario c timeout (Some t) r) (rq_script r) (t - rq_start r) eq_refl k st' H).
  lia.
Qed.

Lemma every_waiting_request_gets_shutdown_l c timeout t rs i r k st :
  nth_error rs i = Some r ->
  let sc := request_scenario c timeout (Some t) r in
  nth_error (steps_of sc (rq_script r)) k = Some st -> reaches_wait sc st ->
  rq_start r + s_end st <= rq_start r + s_end st + s_delay st ->
  t <= rq_start r + s_end st + s_delay st ->
  (forall cd, ctx_done sc = Some cd -> Z.max (s_end st) (t - rq_start r) < Z.max (s_end st) cd) ->
  verdict_of sc (rq_script r) = VShutdown /\ length (steps_of sc (rq_script r)) = S k /\
  final_is_shutdown sc (rq_script r) = true.
Proof.
  intros _ sc H RW D0 Le Hc. apply (stop_in_wait_l sc (rq_script r) k st (t - rq_start r) H RW eq_refl); [lia|exact Hc].
Qed.

Lemma fresh_backoff_every_request_l c timeout T rs i r k st :
  nth_error rs i = Some r ->
  nth_error (steps_of (request_scenario c timeout T r) (rq_script r)) k = Some st ->
  s_cur st = cur_seq c k /\ (k = 0%nat -> s_start st = 0).
Proof.
  intros _ H. split; [exact (cur_is_seq_l _ _ _ _ H)|]. intros ->. exact (proj2 (first_payload_l _ _ _ H)).
Qed.

(* ---- the classification of the returned error --------------------------------------------------------------- *)
Lemma final_is_shutdown_iff_l sc script :
  final_is_shutdown sc script = true <->
  verdict_of sc script = VShutdown \/
  (verdict_of sc script <> VOk /\ verdict_of sc script <> VPending /\
   is_shutdown (last_err (steps_of sc script)) = true).
Proof.
  unfold final_is_shutdown. destruct (verdict_of sc script); unfold final_err; unfold is_shutdown; simpl;
    split; try discriminate; try tauto; try (intros [H|(H1 & H2 & H3)]; congruence);
    try (intros H; right; repeat split; try discriminate; exact H).
Qed.

Lemma final_is_permanent_iff_l sc script :
  final_is_permanent sc script = true <->
  (verdict_of sc script <> VOk /\ verdict_of sc script <> VPending /\
   is_permanent (last_err (steps_of sc script)) = true).
Proof.
  unfold final_is_permanent. destruct (verdict_of sc script); unfold final_err; unfold is_permanent; simpl;
    split; try discriminate; try tauto; try (intros (H1 & H2 & H3); congruence);
    try (intros H; repeat split; try discriminate; exact H).
Qed.

(* ---- "... so that a persistent queue keeps the request" ---------------------------------------------------------- *)
Lemma request_kept_is_final_shutdown sc script : request_kept sc script = final_is_shutdown sc script.
Proof. unfold request_kept, final_is_shutdown, pq_keeps. destruct (final_err _ _); reflexivity. Qed.

Lemma interrupted_request_is_kept_l sc script k st s :
  nth_error (steps_of sc script) k = Some st -> reaches_wait sc st ->
  sc_stop sc = Some s -> Z.max (s_end st) s <= s_end st + s_delay st ->
  (forall c, ctx_done sc = Some c -> Z.max (s_end st) s < Z.max (s_end st) c) ->
  request_kept sc script = true.
Proof.
  intros H RW St Le Hc. rewrite request_kept_is_final_shutdown.
  exact (proj2 (proj2 (stop_in_wait_l sc script k st s H RW St Le Hc))).
Qed.

(* a delivered or finally rejected request is NOT kept, unless the exporter's own error is/claims shutdown *)
Lemma finished_request_not_kept_l sc script :
  verdict_of sc script = VOk \/
  (verdict_of sc script <> VShutdown /\ is_shutdown (last_err (steps_of sc script)) = false) ->
  request_kept sc script = false.
Proof.
  intros H. rewrite request_kept_is_final_shutdown.
  destruct (final_is_shutdown sc script) eqn:F; [|reflexivity].
  apply final_is_shutdown_iff_l in F. destruct H as [H|[H1 H2]]; destruct F as [F|(F1 & F2 & F3)]; congruence.
Qed.

(* ---- a context expiry is a transient outcome --------------------------------------------------------------------- *)
Lemma context_expiry_is_transient_l sc s a c :
  a_ignores_ctx a = false -> att_done sc s = Some c -> c < s + a_dur a ->
  effective sc s a = (Z.max c s, RErr EBase) /\ is_permanent EBase = false /\ throttle_of EBase = None /\
  (forall sg, partial_of sg EBase = None) /\ is_shutdown EBase = false.
Proof.
  intros I D L. unfold effective. rewrite I, D. destruct (c <? s + a_dur a) eqn:E; [|lia].
  repeat split; reflexivity.
Qed.

(* ---- timeoutSender.Send hands the exporter's answer back unchanged, however late ---------------------------------- *)
Lemma late_answer_is_the_answer_l sc s a :
  a_ignores_ctx a = true -> effective sc s a = (s + a_dur a, a_res a).
Proof. intros I. unfold effective. rewrite I. reflexivity. Qed.

Lemma answer_in_time_is_the_answer_l sc s a :
  (forall c, att_done sc s = Some c -> s + a_dur a <= c) -> effective sc s a = (s + a_dur a, a_res a).
Proof.
  intros H. unfold effective. destruct (a_ignores_ctx a); [reflexivity|].
  destruct (att_done sc s) as [c|]; [|reflexivity]. specialize (H c eq_refl).
  destruct (c <? s + a_dur a) eqn:E; [lia|reflexivity].
Qed.

Lemma step_is_scripted sc script k st :
  nth_error (steps_of sc script) k = Some st ->
  exists a, nth_error script k = Some a /\ (s_end st, s_res st) = effective sc (s_start st) a.
Proof.
  intros H. destruct (run_nth _ _ _ _ H) as (now & pl & cur & a & Ha & ->). exists a. split; [exact Ha|].
  unfold do_step; simpl. destruct (effective sc now a); reflexivity.
Qed.

(* a success or a permanent error that arrives AFTER the attempt's context ended (per-attempt timeout, deadline,
   cancellation) from a backend that ignores cancellation is still the verdict: nothing follows it *)
Lemma late_verdict_is_final_l sc script k st a :
  nth_error (steps_of sc script) k = Some st -> nth_error script k = Some a -> a_ignores_ctx a = true ->
  (a_res a = ROk \/ exists ch, a_res a = RErr ch /\ is_permanent ch = true) ->
  s_res st = a_res a /\ s_end st = s_start st + a_dur a /\
  length (steps_of sc script) = S k /\ nth_error (steps_of sc script) (S k) = None.
Proof.
  intros H Ha I Hv. destruct (step_is_scripted _ _ _ _ H) as (a' & Ha' & E).
  rewrite Ha in Ha'. inversion Ha'; subst a'. rewrite (late_answer_is_the_answer_l _ _ _ I) in E.
  inversion E as [[E1 E2]]. split; [reflexivity|]. split; [reflexivity|].
  assert (Hv' : s_res st = ROk \/ exists ch, s_res st = RErr ch /\ is_permanent ch = true) by (rewrite E2; exact Hv).
  destruct (no_attempt_after_verdict_l _ _ _ _ H Hv') as (L & N & _). split; assumption.
Qed.

