From Verif Require Import Common.Base Generated.C05BackoffValidate C05.Model C05.Proofs.
Local Open Scope Z_scope.
Theorem timeout_per_attempt_step : forall sc n now pl cur a,
  s_deadline (do_step sc n now pl cur a) = att_deadline sc now.
Proof. exact timeout_per_attempt_l. Qed.
Print Assumptions timeout_per_attempt_step.
