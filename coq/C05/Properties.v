(* C05/Properties.v — the property theorems, nothing else.  Each is closed by [exact lemma] and
   followed by Print Assumptions (captured into the evidence by the check driver).

   Every theorem quantifies over EVERY scenario [sc] (back-off configuration, per-attempt timeout,
   signal, payload, caller deadline, cancel instant, shutdown instant, random draws, resolution of
   simultaneous select branches) and EVERY finite script of backend outcomes (success, transient,
   permanent, throttle d, partial failure with remainder, shutdown-classified, wrapped, COMBINED
   errors (errors.Join / several %w / multierr) of any of these, nested to any depth; context
   expiry arises from the timeout/deadline/cancel instants).  [steps_of sc script] is the list of
   calls of the exporter function made by the model of retrySender.Send, [verdict_of] the class of
   the error it returns.  [nth_error (steps_of sc script) k = Some st] reads "attempt k is made
   and st records it". *)
From Verif Require Import Common.Base Generated.C05BackoffValidate Generated.C05RetryGo C05.Model C05.Proofs C05.Proofs2 C05.Tie C05.Harness C05.Clauses C05.ClausesProofs C05.LinkProofs.
Local Open Scope Z_scope.

(* ---- clause 1: retried if and only if ... ---------------------------------------------------------- *)

(* After attempt k the loop goes on to another attempt iff: retrying is enabled, attempt k failed
   with a non-permanent error, the back-off did not say Stop, the next attempt still fits in the
   elapsed budget (end + delay <= max_elapsed when set) and in the request's deadline, the wait
   ended by its timer (not by the context, not by shutdown) and the stop channel is still open when
   the timer has fired (the non-blocking re-check added by fix 9628cae8b). *)
Theorem retry_iff : forall sc script k st,
  nth_error (steps_of sc script) k = Some st -> (s_dec st = DRetry <-> retry_conditions sc st).
Proof. exact retry_iff_l. Qed.

(* the same in the property's own words, for configurations accepted by BackOffConfig.Validate
   (the library's Stop value cannot occur there) *)
Theorem retry_iff_validated : forall sc script k st,
  valid_config (sc_cfg sc) -> valid_draw (draw_at sc k) ->
  nth_error (steps_of sc script) k = Some st ->
  (s_dec st = DRetry <->
   c_enabled (sc_cfg sc) = true /\ (exists ch, s_res st = RErr ch /\ is_permanent ch = false) /\
   fits_elapsed sc (s_end st + s_delay st) /\ fits_deadline sc (s_end st + s_delay st) /\ s_wake st = WTimer /\
   stop_closed_at sc (s_end st + s_delay st) = false).
Proof. exact retry_iff_validated_l. Qed.

(* ... and attempt k+1 is made iff those conditions hold (and the script has a (k+1)-th outcome). *)
Theorem attempt_happens_iff : forall sc script k st,
  nth_error (steps_of sc script) k = Some st ->
  ((exists st', nth_error (steps_of sc script) (S k) = Some st') <->
   (retry_conditions sc st /\ (S k < length script)%nat)).
Proof. exact attempt_happens_iff_l. Qed.

(* "the wait ended by its timer", spelled out for instants that differ: neither the end of the
   caller's context nor the shutdown instant falls before the end of the wait. *)
Theorem wake_timer_iff : forall sc script k st,
  nth_error (steps_of sc script) k = Some st ->
  (forall c, ctx_done sc = Some c -> Z.max (s_end st) c <> s_end st + s_delay st) ->
  (forall s, sc_stop sc = Some s -> Z.max (s_end st) s <> s_end st + s_delay st) ->
  (s_wake st = WTimer <->
   (forall c, ctx_done sc = Some c -> s_end st + s_delay st < Z.max (s_end st) c) /\
   (forall s, sc_stop sc = Some s -> s_end st + s_delay st < Z.max (s_end st) s)).
Proof. exact wake_timer_iff_l. Qed.

(* consequences: a retry never starts beyond the elapsed budget or the deadline; with retry
   disabled there is at most one attempt *)
Theorem retry_within_limits : forall sc script k st st',
  nth_error (steps_of sc script) k = Some st -> nth_error (steps_of sc script) (S k) = Some st' ->
  fits_elapsed sc (s_start st') /\ fits_deadline sc (s_start st').
Proof. exact retry_within_limits_l. Qed.

Theorem disabled_single_attempt : forall sc script,
  c_enabled (sc_cfg sc) = false -> (length (steps_of sc script) <= 1)%nat.
Proof. exact disabled_single_attempt_l. Qed.

(* ---- clause 2: after a success or a permanent error no further attempt -------------------------------- *)
Theorem no_attempt_after_verdict : forall sc script k st,
  nth_error (steps_of sc script) k = Some st ->
  (s_res st = ROk \/ exists ch, s_res st = RErr ch /\ is_permanent ch = true) ->
  length (steps_of sc script) = S k /\ nth_error (steps_of sc script) (S k) = None /\
  verdict_of sc script =
    match s_res st with ROk => VOk | RErr _ => if c_enabled (sc_cfg sc) then VPermanent else VRaw end.
Proof. exact no_attempt_after_verdict_l. Qed.

(* more generally: whatever makes the loop stop, nothing follows and that is the returned class *)
Theorem verdict_is_final : forall sc script k st v,
  nth_error (steps_of sc script) k = Some st -> s_dec st = DStop v ->
  length (steps_of sc script) = S k /\ nth_error (steps_of sc script) (S k) = None /\ verdict_of sc script = v.
Proof. exact verdict_is_final_l. Qed.

(* "permanent" is decided as errors.As does, over the whole error TREE: an error is permanent iff a
   permanent layer occurs anywhere in it — under any number of wrappers and inside any member of a
   combined error (errors.Join, several %w, multierr).  Together with no_attempt_after_verdict: a
   combined error with a permanent member is never retried. *)
Theorem permanent_anywhere : forall e, is_permanent e = occurs is_perm_layer e.
Proof. exact is_permanent_occurs. Qed.

Theorem permanent_in_combination : forall es, is_permanent (EJoin es) = existsb is_permanent es.
Proof. exact is_permanent_join. Qed.

(* the same for the other classifications made through errors.As: shutdown-classified, throttle
   (the delay of the FIRST throttle error in depth-first order), partial failure of the request's
   own signal (the data of the first one) *)
Theorem shutdown_anywhere : forall e, is_shutdown e = occurs is_shutdown_layer e.
Proof. exact is_shutdown_occurs. Qed.

Theorem throttle_found_iff_present : forall e,
  is_some (throttle_of e) = occurs is_throttle_layer e /\
  (forall d, throttle_of e = Some d -> occursP (fun l => l = LThrottle d) e).
Proof. exact (fun e => conj (throttle_of_occurs e) (throttle_of_witness e)). Qed.

Theorem partial_found_iff_present : forall s e,
  is_some (partial_of s e) = occurs (is_partial_layer s) e /\
  (forall rem, partial_of s e = Some rem -> occursP (fun l => l = LPartial s rem) e).
Proof. exact (fun s e => conj (partial_of_occurs s e) (partial_of_witness s e)). Qed.

(* error types with their OWN As / Is methods (ECustom), as the Go documentation of errors.As specifies:
   a node matches a target type if its As method answers true for it.  The theorems above (permanent_anywhere,
   shutdown_anywhere, throttle/partial_found_iff_present) hold for them with "occurs" counting such claims.  In
   particular: an error whose As method claims to be permanent is permanent (hence never retried, by
   no_attempt_after_verdict) wherever it sits in the tree; one that claims to be a shutdown error is
   shutdown-classified; one that claims nothing is transparent; an Is method has no influence at all. *)
Theorem claim_permanent : forall ls b e, In LPerm ls -> is_permanent (ECustom ls b e) = true.
Proof. exact Proofs.claim_permanent. Qed.

Theorem claim_shutdown : forall ls b e, In LShutdown ls -> is_shutdown (ECustom ls b e) = true.
Proof. exact Proofs.claim_shutdown. Qed.

Theorem claim_nothing_transparent : forall A (f : layer -> option A) b e,
  find_layer f (ECustom [] b e) = find_layer f e.
Proof. exact (fun A f b e => @Proofs.claim_nothing_transparent A f b e). Qed.

Theorem is_method_irrelevant : forall A (f : layer -> option A) ls b b' e,
  find_layer f (ECustom ls b e) = find_layer f (ECustom ls b' e).
Proof. exact (fun A f ls b b' e => @Proofs.is_method_irrelevant A f ls b b' e). Qed.

(* the error returned by Send is shutdown-classified (so that a persistent queue keeps the request) iff the run was
   interrupted by shutdown OR the exporter's own last error is / claims to be shutdown-classified; it is
   permanent iff the exporter's last error is / claims to be permanent *)
Theorem final_is_shutdown_iff : forall sc script,
  final_is_shutdown sc script = true <->
  verdict_of sc script = VShutdown \/
  (verdict_of sc script <> VOk /\ verdict_of sc script <> VPending /\
   is_shutdown (last_err (steps_of sc script)) = true).
Proof. exact final_is_shutdown_iff_l. Qed.

Theorem final_is_permanent_iff : forall sc script,
  final_is_permanent sc script = true <->
  (verdict_of sc script <> VOk /\ verdict_of sc script <> VPending /\
   is_permanent (last_err (steps_of sc script)) = true).
Proof. exact final_is_permanent_iff_l. Qed.

(* ---- clause 3: the wait ------------------------------------------------------------------------------- *)

(* the time between the end of attempt k and the start of attempt k+1 is at least the delay the
   backend asked for (first throttle error in the chain) *)
Theorem wait_lower_bound : forall sc script k st st' ch d,
  nth_error (steps_of sc script) k = Some st -> nth_error (steps_of sc script) (S k) = Some st' ->
  s_res st = RErr ch -> throttle_of ch = Some d ->
  d <= s_start st' - s_end st /\ s_start st' - s_end st = Z.max (s_next st) d.
Proof. exact wait_lower_bound_l. Qed.

(* for a configuration accepted by BackOffConfig.Validate and a draw in [0,1): the interval used at
   attempt k is cur_seq k (initial, then min(cur*multiplier, max_interval) truncated, reset to
   initial when it reaches 0), the value returned by NextBackOff lies in
   (cur*(1-r) - 1, cur*(1+r) + 1], is never backoff.Stop, the delay is at least that value and equals
   it when the error carries no throttle. *)
Theorem wait_envelope : forall sc script k st,
  valid_config (sc_cfg sc) -> c_enabled (sc_cfg sc) = true -> valid_draw (draw_at sc k) ->
  nth_error (steps_of sc script) k = Some st ->
  let rn := fst (c_rf (sc_cfg sc)) in
  let rd := snd (c_rf (sc_cfg sc)) in
  s_cur st = cur_seq (sc_cfg sc) k /\
  0 <= s_cur st <= Z.max (c_init (sc_cfg sc)) (c_maxint (sc_cfg sc)) /\
  0 <= s_next st /\ s_next st <> backoff_stop /\
  s_cur st * (rd - rn) < (s_next st + 1) * rd /\
  s_next st * rd <= s_cur st * (rd + rn) + rd /\
  s_next st <= s_delay st /\
  (forall ch, s_res st = RErr ch -> throttle_of ch = None -> s_delay st = s_next st).
Proof. exact wait_envelope_l. Qed.

Theorem next_start : forall sc script k st st',
  nth_error (steps_of sc script) k = Some st -> nth_error (steps_of sc script) (S k) = Some st' ->
  s_start st' = s_end st + s_delay st.
Proof. exact next_start_l. Qed.

(* the documented recurrence of the interval *)
Theorem interval_recurrence : forall c cur,
  0 < snd (c_mult c) ->
  increment c cur = Z.min (cur * fst (c_mult c) / snd (c_mult c)) (c_maxint c).
Proof. exact increment_min. Qed.

(* the configuration domain, from the translated Validate *)
Theorem validate_domain : forall c,
  valid_config c -> c_enabled c = true ->
  0 <= c_init c /\ 0 <= fst (c_rf c) <= snd (c_rf c) /\ 0 <= fst (c_mult c) /\ 0 <= c_maxint c /\
  0 <= c_maxel c /\ (0 < c_maxel c -> c_init c <= c_maxel c /\ c_maxint c <= c_maxel c).
Proof. exact Proofs.validate_domain. Qed.

(* ---- clause 4: only the named subset is resent ---------------------------------------------------------- *)
Theorem resend_remainder_only : forall sc script k st st',
  nth_error (steps_of sc script) k = Some st -> nth_error (steps_of sc script) (S k) = Some st' ->
  exists ch, s_res st = RErr ch /\
    s_payload st' = match partial_of (sc_sig sc) ch with Some rem => rem | None => s_payload st end.
Proof. exact resend_remainder_only_l. Qed.

Theorem first_payload : forall sc script st,
  nth_error (steps_of sc script) 0 = Some st -> s_payload st = sc_payload sc /\ s_start st = 0.
Proof. exact first_payload_l. Qed.

(* if every partial failure names a sub-multiset of what it was sent, the payloads of the attempts
   form a decreasing chain of sub-multisets of the original request *)
Theorem payload_chain : forall sc script,
  (forall k st ch rem, nth_error (steps_of sc script) k = Some st -> s_res st = RErr ch ->
                       partial_of (sc_sig sc) ch = Some rem -> sub_ms rem (s_payload st)) ->
  forall i j sti stj, (i <= j)%nat ->
    nth_error (steps_of sc script) i = Some sti -> nth_error (steps_of sc script) j = Some stj ->
    sub_ms (s_payload stj) (s_payload sti).
Proof. exact payload_chain_l. Qed.

(* ---- clause 5: shutdown ------------------------------------------------------------------------------------ *)

(* a wait that is reached and into which the shutdown instant falls (no later than its timer — a tie
   with the timer included — and before the end of the context) ends the run with a
   shutdown-classified error *)
Theorem shutdown_classified : forall sc script k st s,
  nth_error (steps_of sc script) k = Some st -> reaches_wait sc st ->
  sc_stop sc = Some s -> Z.max (s_end st) s <= s_end st + s_delay st ->
  (forall c, ctx_done sc = Some c -> Z.max (s_end st) s < Z.max (s_end st) c) ->
  verdict_of sc script = VShutdown /\ length (steps_of sc script) = S k /\ final_is_shutdown sc script = true.
Proof. exact stop_in_wait_l. Qed.

(* the shutdown verdict always yields IsShutdownErr and wraps the last error of the exporter *)
Theorem shutdown_error_wraps_last : forall sc script,
  verdict_of sc script = VShutdown ->
  final_is_shutdown sc script = true /\
  final_err (verdict_of sc script) (last_err (steps_of sc script)) = Some (EWrap LShutdown (last_err (steps_of sc script))).
Proof. exact shutdown_classified_l. Qed.

(* and it is only ever returned when shutdown really arrived no later than the end of the last wait,
   after a non-permanent failure *)
Theorem shutdown_only_when_stopped : forall sc script,
  verdict_of sc script = VShutdown ->
  exists st s, last_opt (steps_of sc script) = Some st /\ sc_stop sc = Some s /\
               s <= s_end st + s_delay st /\
               exists ch, s_res st = RErr ch /\ is_permanent ch = false.
Proof. exact shutdown_only_when_stopped_l. Qed.

(* the symmetric statement for the caller's context *)
Theorem cancel_in_wait : forall sc script k st c,
  nth_error (steps_of sc script) k = Some st -> reaches_wait sc st ->
  ctx_done sc = Some c -> Z.max (s_end st) c < s_end st + s_delay st ->
  (forall s, sc_stop sc = Some s -> Z.max (s_end st) c < Z.max (s_end st) s) ->
  verdict_of sc script = VCancelled /\ length (steps_of sc script) = S k.
Proof. exact cancel_in_wait_l. Qed.

(* "not retried while shutting down", FULL statement: no attempt ever STARTS at or after the shutdown
   instant — whatever the configuration (initial_interval = 0 included), the delays, the draws and the
   resolution of simultaneously ready select branches.  (Before fix 9628cae8b in /repo this was false
   for zero delays: finding S4, then refuted by a witness; now repaired, and the former witness
   scenario ends after one attempt with the shutdown verdict: Witness.ex_s4_fixed.) *)
Theorem no_attempt_after_stop : forall sc script s,
  sc_stop sc = Some s ->
  forall k st', nth_error (steps_of sc script) (S k) = Some st' -> s_start st' < s.
Proof. exact no_attempt_after_stop_l. Qed.

(* ---- several requests through one retry sender (sequentially or concurrently) ---------------------------- *)

(* the run of a request depends on that request, the configuration and the shutdown instant only — not
   on the other requests that go through the same sender, before or at the same time *)
Theorem sends_independent : forall c timeout T rs i r,
  nth_error rs i = Some r ->
  nth_error (sender_runs c timeout T rs) i = Some (run (request_scenario c timeout T r) (rq_script r)).
Proof. exact sends_independent_l. Qed.

(* every request starts its back-off from the initial interval, at its own instant 0 (its own elapsed budget) *)
Theorem fresh_backoff_every_request : forall c timeout T rs i r k st,
  nth_error rs i = Some r ->
  nth_error (steps_of (request_scenario c timeout T r) (rq_script r)) k = Some st ->
  s_cur st = cur_seq c k /\ (k = 0%nat -> s_start st = 0).
Proof. exact fresh_backoff_every_request_l. Qed.

(* shutdown at the absolute instant t: NO request of the sender starts a retry at or after t ... *)
Theorem no_attempt_after_stop_any_request : forall c timeout t rs i r,
  nth_error rs i = Some r ->
  forall k st', nth_error (steps_of (request_scenario c timeout (Some t) r) (rq_script r)) (S k) = Some st' ->
  rq_start r + s_start st' < t.
Proof. exact no_attempt_after_stop_any_request_l. Qed.

(* ... and EVERY request whose wait is reached and ends at or after t (context not ending first) returns the
   shutdown-classified error — however many requests are waiting, and also requests that fail after t *)
Theorem every_waiting_request_gets_shutdown : forall c timeout t rs i r k st,
  nth_error rs i = Some r ->
  let sc := request_scenario c timeout (Some t) r in
  nth_error (steps_of sc (rq_script r)) k = Some st -> reaches_wait sc st ->
  rq_start r + s_end st <= rq_start r + s_end st + s_delay st ->
  t <= rq_start r + s_end st + s_delay st ->
  (forall cd, ctx_done sc = Some cd -> Z.max (s_end st) (t - rq_start r) < Z.max (s_end st) cd) ->
  verdict_of sc (rq_script r) = VShutdown /\ length (steps_of sc (rq_script r)) = S k /\
  final_is_shutdown sc (rq_script r) = true.
Proof. exact every_waiting_request_gets_shutdown_l. Qed.

(* ---- obligations tying the hand-written model to the Go source as translated by T1 on this run (C05/Tie.v) ---- *)
Theorem tie_backoff_stop : backoff_stop = Stop.
Proof. exact Tie.tie_backoff_stop. Qed.

Theorem tie_timeout_validate : forall t, timeout_validate t = None <-> timeout_ok t = true.
Proof. exact Tie.tie_timeout_validate. Qed.

Theorem tie_default_timeout : timeout_ok default_timeout = true /\ default_timeout <> 0.
Proof. exact Tie.tie_default_timeout. Qed.

Theorem tie_is_permanent : forall found, IsPermanent_go true found = false /\ IsPermanent_go false found = found.
Proof. exact Tie.tie_is_permanent. Qed.

Theorem tie_wrapper_types :
  forallb plain_wrapper [throttleRetry_methods; shutdownErr_methods; permanent_methods;
                         Logs_methods; Traces_methods; Metrics_methods] = true.
Proof. exact Tie.tie_wrapper_types. Qed.

Theorem tie_signal_errors_carry_data : forallb (has m_Data) [Logs_methods; Traces_methods; Metrics_methods] = true.
Proof. exact Tie.tie_signal_errors_carry_data. Qed.

Theorem tie_requests_handle_errors :
  forallb (has m_OnError) [logsRequest_methods; tracesRequest_methods; metricsRequest_methods] = true.
Proof. exact Tie.tie_requests_handle_errors. Qed.

(* "... so that a persistent queue keeps the request": persistentQueue.onDone keeps an item iff IsShutdownErr of
   the error Send returned (pq_keeps).  A request whose reached wait is overtaken by shutdown is kept; a delivered
   or finally rejected one is not (unless the exporter's own last error is/claims to be a shutdown error). *)
Theorem interrupted_request_is_kept : forall sc script k st s,
  nth_error (steps_of sc script) k = Some st -> reaches_wait sc st ->
  sc_stop sc = Some s -> Z.max (s_end st) s <= s_end st + s_delay st ->
  (forall c, ctx_done sc = Some c -> Z.max (s_end st) s < Z.max (s_end st) c) ->
  request_kept sc script = true.
Proof. exact interrupted_request_is_kept_l. Qed.

Theorem finished_request_not_kept : forall sc script,
  verdict_of sc script = VOk \/
  (verdict_of sc script <> VShutdown /\ is_shutdown (last_err (steps_of sc script)) = false) ->
  request_kept sc script = false.
Proof. exact finished_request_not_kept_l. Qed.

(* the backend outcome "context expiry": an attempt cut short by its context (per-attempt timeout, caller deadline
   or cancellation) ends at that instant with a plain error: not permanent, no throttle, no remainder, not
   shutdown-classified — it is retried under exactly the conditions of retry_iff, like any transient failure *)
Theorem context_expiry_is_transient : forall sc s a c,
  a_ignores_ctx a = false -> att_done sc s = Some c -> c < s + a_dur a ->
  effective sc s a = (Z.max c s, RErr EBase) /\ is_permanent EBase = false /\ throttle_of EBase = None /\
  (forall sg, partial_of sg EBase = None) /\ is_shutdown EBase = false.
Proof. exact context_expiry_is_transient_l. Qed.

(* timeoutSender.Send (and every sender between the retry loop and the exporter function) hands the exporter's
   answer back UNCHANGED: what the retry loop sees of attempt k is the scripted answer when it arrives in time or
   when the call ignores its context — in the latter case however late, also after the per-attempt timeout, the
   deadline or a cancellation ... *)
Theorem late_answer_is_the_answer : forall sc s a,
  a_ignores_ctx a = true -> effective sc s a = (s + a_dur a, a_res a).
Proof. exact late_answer_is_the_answer_l. Qed.

Theorem answer_in_time_is_the_answer : forall sc s a,
  (forall c, att_done sc s = Some c -> s + a_dur a <= c) -> effective sc s a = (s + a_dur a, a_res a).
Proof. exact answer_in_time_is_the_answer_l. Qed.

(* ... so a success or a permanent error that arrives after the attempt's context ended is still THE verdict:
   no further attempt (no duplicate delivery, the permanent classification is not lost) *)
Theorem late_verdict_is_final : forall sc script k st a,
  nth_error (steps_of sc script) k = Some st -> nth_error script k = Some a -> a_ignores_ctx a = true ->
  (a_res a = ROk \/ exists ch, a_res a = RErr ch /\ is_permanent ch = true) ->
  s_res st = a_res a /\ s_end st = s_start st + a_dur a /\
  length (steps_of sc script) = S k /\ nth_error (steps_of sc script) (S k) = None.
Proof. exact late_verdict_is_final_l. Qed.


(* ---- the decidable clause checker run by the check over every observed case (C05/Clauses.v) ------------------ *)
(* what prop_ok = true means, on the timeline reconstructed from the observation (scenario + logged delays):
   every attempt that was followed by another satisfied "retried only if enabled, failed non-permanently, wait
   entered, fits budget and deadline, context not over, not shutting down"; every entered wait was at least the
   throttle delay and fitted; no retry started at or after the shutdown instant *)
Theorem clause_checker_sound : forall h payload script atts delays final,
  zn h 0 = 0 ->
  prop_ok (h, (payload, (script, (atts, (delays, final))))) = true ->
  let sc := scenario_of h payload delays in
  let l := rebuild sc (map attempt_of script) atts delays 0%nat 0 in
  (forall st st', In (st, st') (pairs l) -> Followed sc st) /\
  (forall st, In st l -> WaitOk sc st) /\
  (forall st, In st l -> AfterStopOk sc st).
Proof. exact prop_ok_sound_l. Qed.

Theorem clause_followed_reflects : forall sc st, followed_ok sc st = true <-> Followed sc st.
Proof. exact followed_ok_iff. Qed.

Theorem clause_after_stop_reflects : forall sc st, after_stop_ok sc st = true <-> AfterStopOk sc st.
Proof. exact after_stop_ok_iff. Qed.

(* THE LINK: what the model produces always passes the checker.  For every scenario with a configuration accepted
   by Validate and draws in [0,1) (exactly the guards of wait_envelope) and every script inside which the run ends,
   the observation of the model's own run — built as the harness builds it from the implementation's: payload and
   deadline class of every attempt, the logged delays, verdict and flags — violates none of the eight clauses.  So
   the checker never demands more than the model delivers (no false alarm on behaviour the theorems allow), and a
   clause violation reported on the implementation is a behaviour the model cannot produce. *)
Theorem model_passes_checker : forall sc script,
  valid_config (sc_cfg sc) -> (forall n, valid_draw (draw_at sc n)) -> verdict_of sc script <> VPending ->
  violations_core sc true script (observe_atts sc (steps_of sc script)) (observe_delays (steps_of sc script))
                  (observe_final sc script) = [].
Proof. exact model_passes_checker_l. Qed.

Theorem model_run_is_observe : forall h payload script delays,
  let sc := scenario_of h payload delays in
  let sp := map attempt_of script in
  model_run h payload script delays =
  (observe_atts sc (steps_of sc sp), (observe_delays (steps_of sc sp), observe_final sc sp)).
Proof. exact LinkProofs.model_run_is_observe. Qed.

(* ---- per-attempt timeout -------------------------------------------------------------------------------------- *)
Theorem timeout_per_attempt : forall sc script k st,
  nth_error (steps_of sc script) k = Some st ->
  s_deadline st = omin (sc_deadline sc) (if sc_timeout sc =? 0 then None else Some (s_start st + sc_timeout sc)).
Proof. exact timeout_per_attempt_l. Qed.

Print Assumptions retry_iff.
Print Assumptions retry_iff_validated.
Print Assumptions attempt_happens_iff.
Print Assumptions wake_timer_iff.
Print Assumptions retry_within_limits.
Print Assumptions disabled_single_attempt.
Print Assumptions no_attempt_after_verdict.
Print Assumptions verdict_is_final.
Print Assumptions permanent_anywhere.
Print Assumptions permanent_in_combination.
Print Assumptions shutdown_anywhere.
Print Assumptions throttle_found_iff_present.
Print Assumptions partial_found_iff_present.
Print Assumptions claim_permanent.
Print Assumptions claim_shutdown.
Print Assumptions claim_nothing_transparent.
Print Assumptions is_method_irrelevant.
Print Assumptions final_is_shutdown_iff.
Print Assumptions final_is_permanent_iff.
Print Assumptions wait_lower_bound.
Print Assumptions wait_envelope.
Print Assumptions next_start.
Print Assumptions interval_recurrence.
Print Assumptions validate_domain.
Print Assumptions resend_remainder_only.
Print Assumptions first_payload.
Print Assumptions payload_chain.
Print Assumptions shutdown_classified.
Print Assumptions shutdown_error_wraps_last.
Print Assumptions shutdown_only_when_stopped.
Print Assumptions cancel_in_wait.
Print Assumptions no_attempt_after_stop.
Print Assumptions sends_independent.
Print Assumptions fresh_backoff_every_request.
Print Assumptions no_attempt_after_stop_any_request.
Print Assumptions every_waiting_request_gets_shutdown.
Print Assumptions tie_backoff_stop.
Print Assumptions tie_timeout_validate.
Print Assumptions tie_default_timeout.
Print Assumptions tie_is_permanent.
Print Assumptions tie_wrapper_types.
Print Assumptions tie_signal_errors_carry_data.
Print Assumptions tie_requests_handle_errors.
Print Assumptions interrupted_request_is_kept.
Print Assumptions finished_request_not_kept.
Print Assumptions context_expiry_is_transient.
Print Assumptions late_answer_is_the_answer.
Print Assumptions answer_in_time_is_the_answer.
Print Assumptions late_verdict_is_final.
Print Assumptions clause_checker_sound.
Print Assumptions clause_followed_reflects.
Print Assumptions clause_after_stop_reflects.
Print Assumptions model_passes_checker.
Print Assumptions model_run_is_observe.
Print Assumptions timeout_per_attempt.
