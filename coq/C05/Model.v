(* C05/Model.v — executable model of the exporter retry path.  No proofs here.

   Code modelled (opentelemetry-collector, pinned tree):
     exporter/exporterhelper/internal/retry_sender.go    retrySender.Send (incl. the post-timer stopCh
                                                         re-check of fix 9628cae8b), throttleRetry
     exporter/exporterhelper/internal/timeout_sender.go  timeoutSender.Send
     exporter/exporterhelper/internal/base_exporter.go   NewBaseExporter: which senders are installed
     exporter/exporterhelper/{logs,traces,metrics}.go    xRequest.OnError
     consumer/consumererror/permanent.go, signalerrors.go  IsPermanent, NewLogs/NewTraces/NewMetrics
     exporter/exporterhelper/internal/experr/err.go      NewShutdownErr, IsShutdownErr
     github.com/cenkalti/backoff/v5 exponential.go       NextBackOff, incrementCurrentInterval,
                                                         getRandomValueFromInterval
   The configuration domain (BackOffConfig.Validate) is Generated/C05BackoffValidate.v.

   Time is Z nanoseconds, relative to the entry of Send (so the instant `time.Now()` read for the
   elapsed budget is 0).  float64 arithmetic of the back-off library is modelled by exact
   rational arithmetic: Multiplier = mn/md, RandomizationFactor = rn/rd (denominators > 0), the
   random draw u = un/ud in [0,1) is an oracle input.  `time.Duration(float)` truncates: Z.div on
   non-negative values. *)
From Verif Require Import Common.Base.
Local Open Scope Z_scope.

(* ---- errors: trees.  A node is the opaque base error, a wrapper with ONE wrapped error
   (Unwrap() error), or a combination of several errors (Unwrap() []error: errors.Join, fmt.Errorf
   with several %w, go.uber.org/multierr) ------------------------------------------------------- *)
Inductive signal := SLogs | STraces | SMetrics.

Definition signal_eqb (a b : signal) : bool :=
  match a, b with SLogs, SLogs | STraces, STraces | SMetrics, SMetrics => true | _, _ => false end.

Inductive layer :=
| LPerm                                   (* consumererror.NewPermanent *)
| LThrottle (d : Z)                       (* internal.NewThrottleRetry(err, d) *)
| LPartial (s : signal) (rem : list Z)    (* consumererror.NewLogs/NewTraces/NewMetrics(err, data) *)
| LShutdown                               (* experr.NewShutdownErr *)
| LWrap.                                  (* fmt.Errorf("...: %w", err) *)

Inductive err :=
| EBase                                   (* errors.New(...), ctx.Err() *)
| EWrap (l : layer) (e : err)
| EJoin (es : list err)
| ECustom (claims : list layer) (is_any : bool) (e : err).
(* ECustom: an error type of somebody else's that wraps e and has its OWN `As(any) bool` method (and possibly
   an `Is(error) bool` method answering is_any to every target).  claims = what its As method answers:
   for a target of the type of layer l it returns true and sets the target to l's value (Go documentation of
   errors.As: "An error matches target if the error's concrete value is assignable to the value pointed to by
   target, or if the error has a method As(any) bool such that As(target) returns true").  EWrap l e is the
   special case of the real wrapper types (assignable, one type).  errors.Is is never called on the retry
   path, so an Is method has no influence (is_any is carried only to state exactly that). *)

Fixpoint find_first {A} (f : layer -> option A) (ls : list layer) : option A :=
  match ls with
  | [] => None
  | l :: r => match f l with Some a => Some a | None => find_first f r end
  end.

(* a linear chain of wrappers, outermost first, around the base error *)
Fixpoint echain (ls : list layer) : err :=
  match ls with [] => EBase | l :: r => EWrap l (echain r) end.

(* errors.As(err, &target): depth-first, pre-order; a node is examined before what it wraps, the
   members of a combination from left to right; the first node of the target type wins *)
Fixpoint find_layer {A} (f : layer -> option A) (e : err) : option A :=
  match e with
  | EBase => None
  | EWrap l e' => match f l with Some a => Some a | None => find_layer f e' end
  | EJoin es =>
    (fix go (es : list err) : option A :=
       match es with
       | [] => None
       | x :: r => match find_layer f x with Some a => Some a | None => go r end
       end) es
  | ECustom ls _ e' => match find_first f ls with Some a => Some a | None => find_layer f e' end
  end.

Definition is_some {A} (o : option A) : bool := match o with Some _ => true | None => false end.

Definition is_permanent (e : err) : bool :=
  is_some (find_layer (fun l => match l with LPerm => Some tt | _ => None end) e).

Definition is_shutdown (e : err) : bool :=
  is_some (find_layer (fun l => match l with LShutdown => Some tt | _ => None end) e).

Definition throttle_of (e : err) : option Z :=
  find_layer (fun l => match l with LThrottle d => Some d | _ => None end) e.

Definition partial_of (s : signal) (e : err) : option (list Z) :=
  find_layer (fun l => match l with LPartial s' rem => if signal_eqb s s' then Some rem else None | _ => None end) e.

(* a layer satisfying p occurs somewhere in the tree (as a real wrapper or as a claim of a custom As method) *)
Fixpoint occurs (p : layer -> bool) (e : err) : bool :=
  match e with
  | EBase => false
  | EWrap l e' => p l || occurs p e'
  | EJoin es => existsb (occurs p) es
  | ECustom ls _ e' => existsb p ls || occurs p e'
  end.

(* logsRequest.OnError and twins: the request is REPLACED by the data carried by the first
   error of the request's own signal type; otherwise unchanged *)
Definition on_error (s : signal) (payload : list Z) (e : err) : list Z :=
  match partial_of s e with Some rem => rem | None => payload end.

Inductive result := ROk | RErr (e : err).

(* one scripted outcome of the exporter function: it answers a_res after a_dur.  a_ignores_ctx: a backend call
   that does NOT abort when its context ends (a slow client that ignores cancellation): the answer still arrives
   after a_dur, however late.  Otherwise the call honours its context (see `effective`). *)
Record attempt := { a_dur : Z; a_res : result; a_ignores_ctx : bool }.

(* ---- configuration ---------------------------------------------------------------------------- *)
Record config := {
  c_enabled : bool;
  c_init : Z;            (* InitialInterval *)
  c_rf : Z * Z;          (* RandomizationFactor = fst/snd *)
  c_mult : Z * Z;        (* Multiplier = fst/snd *)
  c_maxint : Z;          (* MaxInterval *)
  c_maxel : Z            (* MaxElapsedTime, 0 = unlimited *)
}.

(* ---- backoff/v5 -------------------------------------------------------------------------------- *)
(* getRandomValueFromInterval(rf, u, cur):
     rf == 0 -> cur ;  else  Duration(min + u*(max-min+1)), min = cur - rf*cur, max = cur + rf*cur
   with rf = rn/rd, u = un/ud:  floor( (cur*(rd-rn)*ud + un*(2*rn*cur + rd)) / (rd*ud) ) *)
Definition rand_interval (c : config) (cur : Z) (u : Z * Z) : Z :=
  let '(rn, rd) := c_rf c in
  let '(un, ud) := u in
  if rn =? 0 then cur
  else (cur * (rd - rn) * ud + un * (2 * rn * cur + rd)) / (rd * ud).

(* incrementCurrentInterval:
     if float64(cur) >= float64(MaxInterval)/Multiplier { cur = MaxInterval } else { cur = Duration(float64(cur)*Multiplier) }
   (Multiplier 0: x/0 = +Inf or NaN, the comparison is false and cur becomes 0; the rational form
   below yields the same value: 0 >= Max*md holds only for Max = 0, and then cur = Max = 0) *)
Definition increment (c : config) (cur : Z) : Z :=
  let '(mn, md) := c_mult c in
  if cur * mn >=? c_maxint c * md then c_maxint c else (cur * mn) / md.

(* NextBackOff: `if b.currentInterval == 0 { b.currentInterval = b.InitialInterval }` *)
Definition reset_cur (c : config) (cur : Z) : Z := if cur =? 0 then c_init c else cur.

Definition backoff_stop : Z := -1.      (* backoff.Stop; tied to the library's constant by Tie.tie_backoff_stop *)

(* TimeoutConfig.Validate accepts exactly the non-negative timeouts (tied by Tie.tie_timeout_validate);
   sc_timeout ranges over these, 0 = no timeout sender *)
Definition timeout_ok (t : Z) : bool := 0 <=? t.

(* ---- scenario: everything outside retrySender that a run depends on ----------------------------- *)
Inductive wake := WCtx | WStop | WTimer.

Definition wake_eqb (a b : wake) : bool :=
  match a, b with WCtx, WCtx | WStop, WStop | WTimer, WTimer => true | _, _ => false end.

Record scenario := {
  sc_cfg : config;
  sc_timeout : Z;                (* TimeoutConfig.Timeout; 0 = no timeout sender installed *)
  sc_sig : signal;               (* type of the request *)
  sc_payload : list Z;           (* item ids of the request *)
  sc_deadline : option Z;        (* deadline of the caller's context *)
  sc_cancel : option Z;          (* instant at which the caller's context is cancelled *)
  sc_stop : option Z;            (* instant at which retrySender.Shutdown closes stopCh *)
  sc_draws : list (Z * Z);       (* rand.Float64() per NextBackOff call, indexed by attempt *)
  sc_tie : nat -> list wake      (* Go's select picks at random among branches that are ready
                                    together: the preference order used at wait n (oracle) *)
}.

Definition omin (a b : option Z) : option Z :=
  match a, b with
  | Some x, Some y => Some (Z.min x y)
  | Some x, None => Some x
  | None, y => y
  end.

(* timeoutSender: tCtx = context.WithTimeout(ctx, Timeout); ctx.Deadline() seen by the attempt *)
Definition att_deadline (sc : scenario) (s : Z) : option Z :=
  omin (sc_deadline sc) (if sc_timeout sc =? 0 then None else Some (s + sc_timeout sc)).

(* instant at which the attempt's context is done *)
Definition att_done (sc : scenario) (s : Z) : option Z := omin (att_deadline sc s) (sc_cancel sc).

(* instant at which the caller's context (the one retrySender selects on) is done *)
Definition ctx_done (sc : scenario) : option Z := omin (sc_deadline sc) (sc_cancel sc).

(* what next.Send returns to the retry loop and when.  timeoutSender.Send is `return ts.next.Send(tCtx, req)`: it
   only derives the attempt's context and hands the exporter's answer back UNCHANGED, also when that answer comes
   after the timeout has fired.  A backend that honours its context answers after a_dur unless the context ends
   first, in which case it returns the context's error (a plain, non-permanent error) at that instant; a backend
   that ignores its context answers a_res after a_dur whatever happened to the context. *)
Definition effective (sc : scenario) (s : Z) (a : attempt) : Z * result :=
  if a_ignores_ctx a then (s + a_dur a, a_res a)
  else match att_done sc s with
       | Some c => if c <? s + a_dur a then (Z.max c s, RErr EBase) else (s + a_dur a, a_res a)
       | None => (s + a_dur a, a_res a)
       end.

(* select { case <-ctx.Done(): ; case <-rs.stopCh: ; case <-time.After(delay): } entered at e.
   Each branch becomes ready at an instant; the earliest wins; among branches ready at the same
   earliest instant the oracle order `pref` decides. *)
Definition ready_at (e delay : Z) (ctxd stop : option Z) (w : wake) : option Z :=
  match w with
  | WCtx => option_map (Z.max e) ctxd
  | WStop => option_map (Z.max e) stop
  | WTimer => Some (e + delay)
  end.

Definition first_instant (e delay : Z) (ctxd stop : option Z) : Z :=
  let t := e + delay in
  let t := match ready_at e delay ctxd stop WCtx with Some c => Z.min t c | None => t end in
  match ready_at e delay ctxd stop WStop with Some s => Z.min t s | None => t end.

Definition is_ready (e delay : Z) (ctxd stop : option Z) (w : wake) : bool :=
  match ready_at e delay ctxd stop w with
  | Some t => t =? first_instant e delay ctxd stop
  | None => false
  end.

Definition select_wait (pref : list wake) (e delay : Z) (ctxd stop : option Z) : wake :=
  match find (is_ready e delay ctxd stop) (pref ++ [WCtx; WStop; WTimer]) with
  | Some w => w
  | None => WTimer
  end.

(* ---- one iteration of the loop in retrySender.Send ------------------------------------------------ *)
Inductive verdict :=
| VOk              (* nil *)
| VPermanent       (* "not retryable error: %w" *)
| VNoMoreRetries   (* "no more retries left: %w" (elapsed budget, or backoff.Stop) *)
| VDeadline        (* "request will be cancelled before next retry: %w" *)
| VCancelled       (* "request is cancelled or timed out: %w" *)
| VShutdown        (* experr.NewShutdownErr(err) *)
| VRaw             (* retry disabled: no retrySender in the chain, the error is returned as is *)
| VPending.        (* the script ended while the model still wanted another attempt *)

Inductive decision := DRetry | DStop (v : verdict).

Record step := {
  s_idx : nat;
  s_start : Z;                 (* instant at which next.Send is called *)
  s_payload : list Z;          (* the request handed to next.Send *)
  s_deadline : option Z;       (* ctx.Deadline() seen by the exporter function *)
  s_end : Z;                   (* instant at which next.Send returns *)
  s_res : result;              (* what it returned *)
  s_cur : Z;                   (* currentInterval used by NextBackOff (after the ==0 reset) *)
  s_next : Z;                  (* value returned by NextBackOff *)
  s_delay : Z;                 (* backoffDelay after the throttle override *)
  s_wake : wake;               (* branch the select takes *)
  s_npayload : list Z;         (* request after OnError *)
  s_ncur : Z;                  (* currentInterval after incrementCurrentInterval *)
  s_dec : decision
}.

Definition draw_at (sc : scenario) (n : nat) : Z * Z := nth n (sc_draws sc) (0, 1).

(* the non-blocking `select { case <-rs.stopCh: ...; default: }` executed after the timer branch
   fired at instant t: the stop channel is closed iff Shutdown happened no later than t *)
Definition stop_closed_at (sc : scenario) (t : Z) : bool :=
  match sc_stop sc with Some s => s <=? t | None => false end.

(* the decision part of the loop body, in source order *)
Definition decide (sc : scenario) (r : result) (e next delay : Z) (w : wake) : decision :=
  let c := sc_cfg sc in
  match r with
  | ROk => DStop VOk                                          (* if err == nil { return nil } *)
  | RErr ch =>
    if negb (c_enabled c) then DStop VRaw                     (* no retrySender installed *)
    else if is_permanent ch then DStop VPermanent             (* consumererror.IsPermanent(err) *)
    else if next =? backoff_stop then DStop VNoMoreRetries    (* backoffDelay == backoff.Stop *)
    else if (0 <? c_maxel c) && (c_maxel c <? e + delay)      (* maxElapsedTime.Before(nextRetryTime) *)
    then DStop VNoMoreRetries
    else if match sc_deadline sc with Some dl => dl <? e + delay | None => false end
    then DStop VDeadline                                      (* deadline.Before(nextRetryTime) *)
    else match w with
         | WCtx => DStop VCancelled
         | WStop => DStop VShutdown
         | WTimer =>                                          (* timer fired: look at stopCh once more *)
           if stop_closed_at sc (e + delay) then DStop VShutdown else DRetry
         end
  end.

(* All quantities of one iteration.  The back-off fields are computed for every step (for a step
   that ends with a verdict before NextBackOff is reached they are the values that WOULD be used;
   nothing observable depends on them). *)
Definition do_step (sc : scenario) (n : nat) (now : Z) (pl : list Z) (cur : Z) (a : attempt) : step :=
  let c := sc_cfg sc in
  let e := fst (effective sc now a) in
  let r := snd (effective sc now a) in
  let ch := match r with RErr ch => ch | ROk => EBase end in
  let cur1 := reset_cur c cur in
  let next := rand_interval c cur1 (draw_at sc n) in
  let delay := match throttle_of ch with Some d => Z.max next d | None => next end in   (* max(backoffDelay, throttleErr.delay) *)
  let w := select_wait (sc_tie sc n) e delay (ctx_done sc) (sc_stop sc) in
  {| s_idx := n; s_start := now; s_payload := pl; s_deadline := att_deadline sc now; s_end := e; s_res := r;
     s_cur := cur1; s_next := next; s_delay := delay; s_wake := w;
     s_npayload := on_error (sc_sig sc) pl ch; s_ncur := increment c cur1;
     s_dec := decide sc r e next delay w |}.

(* ---- the loop ------------------------------------------------------------------------------------ *)
Fixpoint loop (sc : scenario) (script : list attempt) (n : nat) (now : Z) (pl : list Z) (cur : Z)
  : list step * verdict :=
  match script with
  | [] => ([], VPending)
  | a :: rest =>
    let st := do_step sc n now pl cur a in
    match s_dec st with
    | DStop v => ([st], v)
    | DRetry =>
      let '(l, v) := loop sc rest (S n) (s_end st + s_delay st) (s_npayload st) (s_ncur st) in
      (st :: l, v)
    end
  end.

(* expBackoff is a struct literal: currentInterval starts at 0 *)
Definition run (sc : scenario) (script : list attempt) : list step * verdict :=
  loop sc script 0%nat 0 (sc_payload sc) 0.

Definition steps_of (sc : scenario) (script : list attempt) : list step := fst (run sc script).
Definition verdict_of (sc : scenario) (script : list attempt) : verdict := snd (run sc script).

(* the error value returned by Send *)
Definition last_err (l : list step) : err :=
  match last_opt l with
  | Some st => match s_res st with RErr ch => ch | ROk => EBase end
  | None => EBase
  end.

Definition final_err (v : verdict) (ch : err) : option err :=
  match v with
  | VOk | VPending => None
  | VRaw => Some ch
  | VShutdown => Some (EWrap LShutdown ch)
  | _ => Some (EWrap LWrap ch)
  end.

Definition final_is_shutdown (sc : scenario) (script : list attempt) : bool :=
  match final_err (verdict_of sc script) (last_err (steps_of sc script)) with
  | Some e => is_shutdown e
  | None => false
  end.

Definition final_is_permanent (sc : scenario) (script : list attempt) : bool :=
  match final_err (verdict_of sc script) (last_err (steps_of sc script)) with
  | Some e => is_permanent e
  | None => false
  end.

(* ---- closed forms used by the theorems ------------------------------------------------------------ *)
(* currentInterval used by the n-th NextBackOff call *)
Fixpoint cur_seq (c : config) (n : nat) : Z :=
  match n with
  | O => reset_cur c 0
  | S k => reset_cur c (increment c (cur_seq c k))
  end.

(* multiset inclusion of item ids *)
Definition countZ (x : Z) (l : list Z) : nat := length (filter (Z.eqb x) l).
Definition sub_ms (l1 l2 : list Z) : Prop := forall x, (countZ x l1 <= countZ x l2)%nat.

(* ---- several requests through ONE retry sender ------------------------------------------------------
   retrySender keeps no state between Send calls except its configuration and the stop channel, which
   Shutdown closes once and for all requests, current and future.  A request enters Send at the
   absolute instant rq_start; its run is the run of the loop above in its own time (relative to
   rq_start), with a FRESH back-off state, its own elapsed budget and the shared stop instant. *)
Record request := { rq_start : Z; rq_sc : scenario; rq_script : list attempt }.

Definition request_scenario (c : config) (timeout : Z) (stop_abs : option Z) (r : request) : scenario :=
  {| sc_cfg := c; sc_timeout := timeout; sc_sig := sc_sig (rq_sc r); sc_payload := sc_payload (rq_sc r);
     sc_deadline := sc_deadline (rq_sc r); sc_cancel := sc_cancel (rq_sc r);
     sc_stop := option_map (fun t => t - rq_start r) stop_abs;
     sc_draws := sc_draws (rq_sc r); sc_tie := sc_tie (rq_sc r) |}.

Definition sender_runs (c : config) (timeout : Z) (stop_abs : option Z) (rs : list request)
  : list (list step * verdict) :=
  map (fun r => run (request_scenario c timeout stop_abs r) (rq_script r)) rs.

(* ---- what the persistent queue does with the error Send returned (queuebatch/persistent_queue.go onDone):
   `if experr.IsShutdownErr(consumeErr) { return }` — the item is NOT marked as dispatched-and-finished, so it
   is picked up again after a restart; any other outcome (nil or another error) deletes it. *)
Definition pq_keeps (final : option err) : bool :=
  match final with Some e => is_shutdown e | None => false end.

Definition request_kept (sc : scenario) (script : list attempt) : bool :=
  pq_keeps (final_err (verdict_of sc script) (last_err (steps_of sc script))).
