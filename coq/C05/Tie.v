(* C05/Tie.v — OBLIGATIONS tying hand-written pieces of C05/Model.v to what translator T1 reads from the
   CURRENT Go source on every run (Generated/C05RetryGo.v, spec props/C05/t1_spec.json).  An edit of the Go
   source changes the generated file; if the model no longer says what the code says, a named lemma below
   stops compiling (or T1 fails to translate), which the check driver reports as a broken obligation. *)
From Verif Require Import Common.Base Generated.C05RetryGo C05.Model.
From Coq Require Import String ZifyBool.
Local Open Scope Z_scope.

(* backoff.Stop, the value retrySender.Send compares NextBackOff() with *)
Lemma tie_backoff_stop : backoff_stop = Stop.
Proof. reflexivity. Qed.

(* TimeoutConfig.Validate: nil exactly for the timeouts the model ranges over *)
Lemma tie_timeout_validate : forall t, timeout_validate t = None <-> timeout_ok t = true.
Proof.
  intros t. unfold timeout_validate, timeout_ok. destruct (t <? 0) eqn:E; split; intros H; try discriminate; try reflexivity; lia.
Qed.

(* NewDefaultTimeoutConfig: valid and non-zero, i.e. by default NewBaseExporter installs the timeout sender *)
Lemma tie_default_timeout : timeout_ok default_timeout = true /\ default_timeout <> 0.
Proof. split; [reflexivity|discriminate]. Qed.

(* consumererror.IsPermanent: false for nil, otherwise exactly the answer of errors.As(err, &permanent{}) —
   the model's is_permanent is that errors.As (find_layer) *)
Lemma tie_is_permanent : forall found, IsPermanent_go true found = false /\ IsPermanent_go false found = found.
Proof. intros found. split; reflexivity. Qed.

(* the wrapper types the model represents by EWrap (throttleRetry, shutdownErr, permanent, consumererror.Logs /
   Traces / Metrics) are PLAIN wrappers: they have Error and a single-error Unwrap, and no As / Is method of
   their own (an own As/Is method would make them ECustom nodes with other matching rules) *)
Definition has (m : string) (ms : list string) : bool := existsb (String.eqb m) ms.

Definition m_Data : string := "Data".
Definition m_OnError : string := "OnError".

Definition plain_wrapper (ms : list string) : bool :=
  has "Error" ms && has "Unwrap" ms && negb (has "As" ms) && negb (has "Is" ms).

Lemma tie_wrapper_types :
  forallb plain_wrapper [throttleRetry_methods; shutdownErr_methods; permanent_methods;
                         Logs_methods; Traces_methods; Metrics_methods] = true.
Proof. vm_compute. reflexivity. Qed.

(* the signal errors carry their data (OnError reads it with Data()) *)
Lemma tie_signal_errors_carry_data : forallb (has m_Data) [Logs_methods; Traces_methods; Metrics_methods] = true.
Proof. vm_compute. reflexivity. Qed.

(* all three request types implement request.ErrorHandler (OnError), so retrySender.Send narrows them *)
Lemma tie_requests_handle_errors :
  forallb (has m_OnError) [logsRequest_methods; tracesRequest_methods; metricsRequest_methods] = true.
Proof. vm_compute. reflexivity. Qed.
