(* C05/Clauses.v — a DECIDABLE checker of the property's clauses over the OBSERVED behaviour of the
   implementation (one correspondence case = scenario + script + observed attempts, logged delays, verdict and
   flags).  It does not use the model's step function (decide / do_step / loop): only the scenario, the
   environment functions (effective, att_deadline: when does a scripted outcome arrive, which deadline does an
   attempt see), the classification of errors (errors.As) and the closed form of the interval (cur_seq).

   violations c = the list of clause codes that the observation of case c violates; prop_ok c = no violation.
   The check driver runs prop_ok over ALL observed cases (an oracle that does not trust the model) and, when
   model and implementation disagree on a case, reports the violated clause with that case as the failing
   input.  Clause codes:
     1 first attempt: exists, carries the original request
     2 an attempt is followed by another one ONLY IF retry is enabled, it failed, not permanently, the wait was
       entered, end+delay fits max_elapsed_time and the deadline, the context did not end before the end of the
       wait and shutdown did not arrive by then            (=> never after a verdict, never after shutdown)
     3 the next attempt carries the remainder named by the failure (own signal), else the same request
     4 every wait that is entered: delay >= throttle delay; within the back-off envelope (or equal to the
       throttle delay); end+delay fits max_elapsed_time and the deadline (a wait is only entered when it fits)
     5 the run ENDS only for a reason: success <-> nil; permanent <-> permanent verdict; retry disabled <-> raw
       error; otherwise budget / deadline really too short for the largest possible delay, or the context ended /
       shutdown arrived by the end of the entered wait; number of logged delays consistent
     6 IsShutdownErr / IsPermanent of the returned error
     7 every attempt sees deadline min(caller deadline, start + timeout)
     8 no attempt starts at or after the shutdown instant *)
From Verif Require Import Common.Base Generated.C05BackoffValidate C05.Model C05.Harness.
Local Open Scope Z_scope.

Record ostep := {
  o_idx : nat; o_start : Z; o_end : Z; o_res : result; o_payload : list Z; o_dl : Z; o_delay : option Z
}.

Definition ok_attempt : attempt := {| a_dur := 0; a_res := ROk; a_ignores_ctx := false |}.

(* the observed timeline: attempt k starts when the previous one ended plus the delay that was logged for it *)
Fixpoint rebuild (sc : scenario) (script : list attempt) (atts : list (list Z * Z)) (delays : list Z)
         (n : nat) (now : Z) : list ostep :=
  match atts with
  | [] => []
  | (p, dl) :: ra =>
    let a := match script with a :: _ => a | [] => ok_attempt end in   (* beyond the script the harness answers ok at once *)
    let er := effective sc now a in
    let d := nth_error delays n in
    {| o_idx := n; o_start := now; o_end := fst er; o_res := snd er; o_payload := p; o_dl := dl; o_delay := d |}
      :: rebuild sc (tl script) ra delays (S n) (fst er + match d with Some x => x | None => 0 end)
  end.

Definition res_err (r : result) : err := match r with RErr ch => ch | ROk => EBase end.
Definition is_ok (r : result) : bool := match r with ROk => true | RErr _ => false end.

Definition fits_b (sc : scenario) (t : Z) : bool :=
  (negb (0 <? c_maxel (sc_cfg sc)) || (t <=? c_maxel (sc_cfg sc))) &&
  match sc_deadline sc with Some dl => t <=? dl | None => true end.

(* clause 2 for one attempt that is followed by another *)
Definition followed_ok (sc : scenario) (st : ostep) : bool :=
  c_enabled (sc_cfg sc) && negb (is_ok (o_res st)) && negb (is_permanent (res_err (o_res st))) &&
  match o_delay st with
  | None => false
  | Some d =>
    let t := o_end st + d in
    fits_b sc t &&
    match sc_stop sc with Some s => t <? s | None => true end &&
    match ctx_done sc with Some c => t <=? Z.max (o_end st) c | None => true end   (* a tie with the timer is allowed *)
  end.

Definition payload_ok (sc : scenario) (st st' : ostep) : bool :=
  listZ_eqb (o_payload st') (on_error (sc_sig sc) (o_payload st) (res_err (o_res st))).

Definition config_valid (h : list Z) : bool :=
  match validate_model h with None => (0 <? zn h 4) && (0 <? zn h 6) | Some _ => false end.

Definition env_lo_ok (c : config) (cur d : Z) : bool :=
  let '(rn, rd) := c_rf c in cur * (rd - rn) <? (d + 1) * rd.
Definition env_hi_ok (c : config) (cur d : Z) : bool :=
  let '(rn, rd) := c_rf c in d * rd <=? cur * (rd + rn) + rd.
Definition env_max (c : config) (cur : Z) : Z :=
  let '(rn, rd) := c_rf c in (cur * (rd + rn) + rd) / rd.

(* clause 4 for one entered wait *)
Definition wait_ok (valid : bool) (sc : scenario) (st : ostep) : bool :=
  match o_delay st with
  | None => true
  | Some d =>
    let th := throttle_of (res_err (o_res st)) in
    let cur := cur_seq (sc_cfg sc) (o_idx st) in
    match th with Some t => t <=? d | None => true end &&
    (negb valid ||
     (env_lo_ok (sc_cfg sc) cur d &&
      (env_hi_ok (sc_cfg sc) cur d || match th with Some t => d =? t | None => false end))) &&
    fits_b sc (o_end st + d)
  end.

(* clause 5 for the last attempt *)
Definition last_ok (valid : bool) (sc : scenario) (st : ostep) (v : Z) : bool :=
  match o_res st with
  | ROk => (v =? 0) && match o_delay st with None => true | Some _ => false end
  | RErr ch =>
    if negb (c_enabled (sc_cfg sc)) then (v =? 6) && match o_delay st with None => true | Some _ => false end
    else if is_permanent ch then (v =? 1) && match o_delay st with None => true | Some _ => false end
    else
      let dmax := match throttle_of ch with
                  | Some t => Z.max (env_max (sc_cfg sc) (cur_seq (sc_cfg sc) (o_idx st))) t
                  | None => env_max (sc_cfg sc) (cur_seq (sc_cfg sc) (o_idx st))
                  end in
      match o_delay st with
      | None =>
        ((v =? 2) && (0 <? c_maxel (sc_cfg sc)) && (negb valid || (c_maxel (sc_cfg sc) <? o_end st + dmax))) ||
        ((v =? 3) && match sc_deadline sc with Some dl => negb valid || (dl <? o_end st + dmax) | None => false end)
      | Some d =>
        ((v =? 4) && match ctx_done sc with Some c => c <=? o_end st + d | None => false end) ||
        ((v =? 5) && match sc_stop sc with Some s => s <=? o_end st + d | None => false end)
      end
  end.

Definition flags_ok (st : ostep) (v fsd fpm : Z) : bool :=
  let ch := res_err (o_res st) in
  (fsd =? b2z ((v =? 5) || (negb (v =? 0) && is_shutdown ch))) &&
  (fpm =? b2z (negb (v =? 0) && is_permanent ch)).

Definition dl_expected (sc : scenario) (start : Z) : Z :=
  match att_deadline sc start with
  | None => 0
  | Some d => match sc_deadline sc with Some d' => if d =? d' then 1 else 2 | None => 2 end
  end.

Definition after_stop_ok (sc : scenario) (st : ostep) : bool :=
  match o_idx st, sc_stop sc with
  | S _, Some s => o_start st <? s
  | _, _ => true
  end.

Fixpoint pairs {A} (l : list A) : list (A * A) :=
  match l with
  | a :: ((b :: _) as r) => (a, b) :: pairs r
  | _ => []
  end.

Definition flag (code : Z) (b : bool) : list Z := if b then [] else [code].

(* the checker proper: scenario, script and the observation (attempts, logged delays, final) *)
Definition violations_core (sc : scenario) (valid : bool) (script : list attempt)
           (atts : list (list Z * Z)) (delays final : list Z) : list Z :=
  let l := rebuild sc script atts delays 0%nat 0 in
  let v := zn final 0 in
  let n := List.length l in
  flag 1 (match l with st :: _ => listZ_eqb (o_payload st) (sc_payload sc) | [] => false end) ++
  flag 2 (forallb (fun p => followed_ok sc (fst p)) (pairs l)) ++
  flag 3 (forallb (fun p => payload_ok sc (fst p) (snd p)) (pairs l)) ++
  flag 4 (forallb (wait_ok valid sc) l) ++
  flag 5 (match last_opt l with
          | Some st => last_ok valid sc st v &&
                       (Z.of_nat (List.length delays) =? Z.of_nat n - 1 + (if (v =? 4) || (v =? 5) then 1 else 0))
          | None => false
          end) ++
  flag 6 (match last_opt l with Some st => flags_ok st v (zn final 1) (zn final 2) | None => false end) ++
  flag 7 (forallb (fun st => o_dl st =? dl_expected sc (o_start st)) l) ++
  flag 8 (forallb (after_stop_ok sc) l).

(* ... applied to a wire case (the scenario is read from the header; the checker never looks at sc_draws / sc_tie) *)
Definition violations_run (c : wire_case) : list Z :=
  let '(h, (payload, (script, (atts, (delays, final))))) := c in
  violations_core (scenario_of h payload delays) (config_valid h) (map attempt_of script) atts delays final.

(* the observation of the MODEL's own run, built the way the harness builds it from the implementation's
   (Harness.model_run is exactly this triple) *)
Definition observe_atts (sc : scenario) (l : list step) : list (list Z * Z) :=
  map (fun st => (s_payload st, dl_class sc st)) l.
Definition observe_delays (l : list step) : list Z := map s_delay (filter logged l).
Definition observe_final (sc : scenario) (script : list attempt) : list Z :=
  [verdict_code (verdict_of sc script); b2z (final_is_shutdown sc script); b2z (final_is_permanent sc script)].

Definition violations (c : wire_case) : list Z :=
  let '(h, _) := c in if zn h 0 =? 0 then violations_run c else [].

Definition prop_ok (c : wire_case) : bool := match violations c with [] => true | _ => false end.

(* ---- the Prop-level reading of the two central clauses and the reflection ---------------------------------- *)
(* clause 2, as the property words it: an attempt is followed by another one only if ... *)
Definition Followed (sc : scenario) (st : ostep) : Prop :=
  c_enabled (sc_cfg sc) = true /\
  (exists ch, o_res st = RErr ch /\ is_permanent ch = false) /\
  exists d, o_delay st = Some d /\
    (0 < c_maxel (sc_cfg sc) -> o_end st + d <= c_maxel (sc_cfg sc)) /\
    (forall dl, sc_deadline sc = Some dl -> o_end st + d <= dl) /\
    (forall s, sc_stop sc = Some s -> o_end st + d < s) /\
    (forall c, ctx_done sc = Some c -> o_end st + d <= Z.max (o_end st) c).

(* clause 4: a wait that is entered is at least the throttle delay and fits the budget and the deadline *)
Definition WaitOk (sc : scenario) (st : ostep) : Prop :=
  forall d, o_delay st = Some d ->
    (forall t, throttle_of (res_err (o_res st)) = Some t -> t <= d) /\
    (0 < c_maxel (sc_cfg sc) -> o_end st + d <= c_maxel (sc_cfg sc)) /\
    (forall dl, sc_deadline sc = Some dl -> o_end st + d <= dl).

(* clause 8 *)
Definition AfterStopOk (sc : scenario) (st : ostep) : Prop :=
  forall s, sc_stop sc = Some s -> (0 < o_idx st)%nat -> o_start st < s.
