package main

// func.go — translation of loop-free decision functions into Coq expressions by symbolic
// execution of the function body.
//
// Subset:
//   statements : return; if/else (with optional init assignment); switch (tag or tagless, no
//                fallthrough); =, :=, var; nested blocks.  Anything else (loops, go, defer, channel
//                ops, expression statements) is a translation failure.
//   expressions: constants (anything the type checker folds, including foreign named constants);
//                parameters and locals; field selections on parameters/receiver (each distinct
//                selection path becomes a parameter of the Coq definition, e.g. cfg.CheckInterval
//                -> cfg_CheckInterval); + - * / % on integers (unsigned types wrap mod 2^w
//                explicitly, signed are unbounded Z: recorded in the manifest); comparisons;
//                && || !; integer conversions; x == nil / x != nil on pointers and interfaces
//                (-> boolean parameter x_isnil); composite literals of structs (-> tuple in field
//                order of the literal); package-level error variables and errors.New/fmt.Errorf
//                (-> Some "<name>"), nil error (-> None); any other call (method on a parameter,
//                time.Since(..), consumererror.IsPermanent(..)) -> an extra *parameter* named
//                after the call text, listed in the manifest.
//
// Output: Definition <out> (params…) : <type> := <expr>.

import (
	"fmt"
	"go/ast"
	"go/constant"
	"go/token"
	"go/types"
	"regexp"
	"sort"
	"strings"

	"golang.org/x/tools/go/packages"
)

type sval struct {
	kind   string // "Z" | "bool" | "string" | "err" | "tuple" | "unit"
	expr   string
	elems  []sval // tuple
	gotype types.Type
	coqty  string // explicit Coq type (inlined calls)
}

// outcome is a decision tree.
type outcome struct {
	ret  []sval // leaf: return
	env  map[string]sval
	fall bool // leaf: fell through with env
	cond string
	a, b *outcome
}

type ftrans struct {
	t       *translator
	p       *packages.Package
	fd      *ast.FuncDecl
	params  []string          // ordered Coq parameter names
	ptypes  map[string]string // name -> Coq type
	objName map[types.Object]string
	tg      Target
}

var identRe = regexp.MustCompile(`[^A-Za-z0-9_]+`)

func sanitize(s string) string {
	s = identRe.ReplaceAllString(s, "_")
	s = strings.Trim(s, "_")
	if s == "" {
		s = "x"
	}
	if s[0] >= '0' && s[0] <= '9' {
		s = "x" + s
	}
	return s
}

func (f *ftrans) pos(n ast.Node) string { return f.p.Fset.Position(n.Pos()).String() }

func (f *ftrans) addParam(name, ty string) string {
	if _, ok := f.ptypes[name]; !ok {
		f.params = append(f.params, name)
		f.ptypes[name] = ty
	}
	return name
}

func coqKind(t types.Type) string {
	switch u := t.Underlying().(type) {
	case *types.Basic:
		switch {
		case u.Info()&types.IsBoolean != 0:
			return "bool"
		case u.Info()&types.IsInteger != 0:
			return "Z"
		case u.Info()&types.IsString != 0:
			return "string"
		}
	case *types.Interface:
		if types.Identical(t, types.Universe.Lookup("error").Type()) {
			return "err"
		}
	}
	return ""
}

func unsignedWidth(t types.Type) int {
	b, ok := t.Underlying().(*types.Basic)
	if !ok {
		return 0
	}
	switch b.Kind() {
	case types.Uint8:
		return 8
	case types.Uint16:
		return 16
	case types.Uint32:
		return 32
	case types.Uint64, types.Uint, types.Uintptr:
		return 64
	}
	return 0
}

func pow2(w int) string {
	switch w {
	case 8:
		return "256"
	case 16:
		return "65536"
	case 32:
		return "4294967296"
	}
	return "18446744073709551616"
}

func coqString(s string) string {
	for _, r := range s {
		if r < 32 || r > 126 {
			fail("string constant %q contains a non-printable-ASCII character (outside the subset)", s)
		}
	}
	return "\"" + strings.ReplaceAll(s, "\"", "\"\"") + "\"%string"
}

func (f *ftrans) constVal(e ast.Expr) (sval, bool) {
	tv, ok := f.p.TypesInfo.Types[e]
	if !ok || tv.Value == nil {
		return sval{}, false
	}
	switch tv.Value.Kind() {
	case constant.Int:
		z, _ := constZ(tv.Value)
		return sval{kind: "Z", expr: z, gotype: tv.Type}, true
	case constant.Bool:
		if constant.BoolVal(tv.Value) {
			return sval{kind: "bool", expr: "true", gotype: tv.Type}, true
		}
		return sval{kind: "bool", expr: "false", gotype: tv.Type}, true
	case constant.String:
		return sval{kind: "string", expr: coqString(constant.StringVal(tv.Value)), gotype: tv.Type}, true
	}
	return sval{}, false
}

// selectorPath renders a.b.c for parameter-rooted selector chains.
func (f *ftrans) selectorPath(e ast.Expr) (string, bool) {
	switch x := e.(type) {
	case *ast.Ident:
		obj := f.p.TypesInfo.Uses[x]
		if obj == nil {
			obj = f.p.TypesInfo.Defs[x]
		}
		if n, ok := f.objName[obj]; ok {
			return n, true
		}
		return "", false
	case *ast.SelectorExpr:
		base, ok := f.selectorPath(x.X)
		if !ok {
			return "", false
		}
		return base + "_" + x.Sel.Name, true
	case *ast.StarExpr:
		return f.selectorPath(x.X)
	case *ast.ParenExpr:
		return f.selectorPath(x.X)
	}
	return "", false
}

func (f *ftrans) opaque(e ast.Expr) sval {
	tv := f.p.TypesInfo.Types[e]
	k := coqKind(tv.Type)
	if k != "Z" && k != "bool" {
		fail("%s: expression %s of type %s is outside the subset", f.pos(e), types.ExprString(e), tv.Type)
	}
	name := f.addParam(sanitize(types.ExprString(e)), k)
	return sval{kind: k, expr: name, gotype: tv.Type}
}

func (f *ftrans) eval(e ast.Expr, env map[string]sval) sval {
	if v, ok := f.constVal(e); ok {
		return v
	}
	switch x := e.(type) {
	case *ast.ParenExpr:
		return f.eval(x.X, env)
	case *ast.Ident:
		if x.Name == "nil" {
			return sval{kind: "err", expr: "None"}
		}
		obj := f.p.TypesInfo.Uses[x]
		if obj == nil {
			obj = f.p.TypesInfo.Defs[x]
		}
		if v, ok := env[x.Name]; ok {
			return v
		}
		if n, ok := f.objName[obj]; ok {
			k := coqKind(obj.Type())
			if k == "" {
				fail("%s: parameter %s of type %s used as a value (outside the subset)", f.pos(e), x.Name, obj.Type())
			}
			f.addParam(n, map[string]string{"Z": "Z", "bool": "bool", "string": "string", "err": "option string"}[k])
			return sval{kind: k, expr: n, gotype: obj.Type()}
		}
		// package-level error variable
		if v, ok := obj.(*types.Var); ok && coqKind(v.Type()) == "err" && v.Parent() == v.Pkg().Scope() {
			return sval{kind: "err", expr: "(Some " + coqString(v.Name()) + ")"}
		}
		fail("%s: identifier %s is outside the subset", f.pos(e), x.Name)
	case *ast.SelectorExpr:
		// package-level error var of another package, or field path on a parameter
		if obj, ok := f.p.TypesInfo.Uses[x.Sel].(*types.Var); ok && !obj.IsField() && coqKind(obj.Type()) == "err" {
			return sval{kind: "err", expr: "(Some " + coqString(obj.Name()) + ")"}
		}
		if path, ok := f.selectorPath(x); ok {
			tv := f.p.TypesInfo.Types[e]
			k := coqKind(tv.Type)
			if k == "Z" || k == "bool" {
				f.addParam(path, k)
				return sval{kind: k, expr: path, gotype: tv.Type}
			}
		}
		fail("%s: selector %s is outside the subset", f.pos(e), types.ExprString(e))
	case *ast.UnaryExpr:
		switch x.Op {
		case token.NOT:
			v := f.eval(x.X, env)
			return sval{kind: "bool", expr: "(negb " + v.expr + ")"}
		case token.SUB:
			v := f.eval(x.X, env)
			return sval{kind: "Z", expr: "(- " + v.expr + ")", gotype: v.gotype}
		case token.AND:
			if cl, ok := x.X.(*ast.CompositeLit); ok {
				return f.eval(cl, env)
			}
		}
		fail("%s: unary %s outside the subset", f.pos(e), x.Op)
	case *ast.CompositeLit:
		var elems []sval
		var parts []string
		for _, el := range x.Elts {
			var ve ast.Expr = el
			if kv, ok := el.(*ast.KeyValueExpr); ok {
				ve = kv.Value
			}
			v := f.eval(ve, env)
			elems = append(elems, v)
			parts = append(parts, v.expr)
		}
		return sval{kind: "tuple", expr: "(" + strings.Join(parts, ", ") + ")", elems: elems}
	case *ast.BinaryExpr:
		// nil comparisons on pointers / interfaces
		if x.Op == token.EQL || x.Op == token.NEQ {
			isNil := func(e ast.Expr) bool { id, ok := e.(*ast.Ident); return ok && id.Name == "nil" }
			var other ast.Expr
			if isNil(x.Y) {
				other = x.X
			} else if isNil(x.X) {
				other = x.Y
			}
			if other != nil {
				if v, ok := other.(*ast.Ident); ok {
					if sv, ok2 := env[v.Name]; ok2 && sv.kind == "err" {
						// local error value: compare with None
						c := "(match " + sv.expr + " with None => true | Some _ => false end)"
						if x.Op == token.NEQ {
							c = "(negb " + c + ")"
						}
						return sval{kind: "bool", expr: c}
					}
				}
				path, ok := f.selectorPath(other)
				if !ok {
					path = sanitize(types.ExprString(other))
				}
				n := f.addParam(path+"_isnil", "bool")
				if x.Op == token.NEQ {
					return sval{kind: "bool", expr: "(negb " + n + ")"}
				}
				return sval{kind: "bool", expr: n}
			}
		}
		a := f.eval(x.X, env)
		b := f.eval(x.Y, env)
		tv := f.p.TypesInfo.Types[e]
		switch x.Op {
		case token.LAND:
			return sval{kind: "bool", expr: "(" + a.expr + " && " + b.expr + ")"}
		case token.LOR:
			return sval{kind: "bool", expr: "(" + a.expr + " || " + b.expr + ")"}
		}
		if a.kind == "bool" && b.kind == "bool" && (x.Op == token.EQL || x.Op == token.NEQ) {
			c := "(Bool.eqb " + a.expr + " " + b.expr + ")"
			if x.Op == token.NEQ {
				c = "(negb " + c + ")"
			}
			return sval{kind: "bool", expr: c}
		}
		if a.kind != "Z" || b.kind != "Z" {
			fail("%s: operator %s on non-integers (outside the subset)", f.pos(e), x.Op)
		}
		cmp := map[token.Token]string{token.LSS: "<?", token.LEQ: "<=?", token.EQL: "=?", token.GTR: ">?", token.GEQ: ">=?"}
		if op, ok := cmp[x.Op]; ok {
			return sval{kind: "bool", expr: "(" + a.expr + " " + op + " " + b.expr + ")"}
		}
		if x.Op == token.NEQ {
			return sval{kind: "bool", expr: "(negb (" + a.expr + " =? " + b.expr + "))"}
		}
		w := unsignedWidth(tv.Type)
		wrap := func(s string) string {
			if w > 0 {
				return "((" + s + ") mod " + pow2(w) + ")"
			}
			return "(" + s + ")"
		}
		switch x.Op {
		case token.ADD:
			return sval{kind: "Z", expr: wrap(a.expr + " + " + b.expr), gotype: tv.Type}
		case token.SUB:
			return sval{kind: "Z", expr: wrap(a.expr + " - " + b.expr), gotype: tv.Type}
		case token.MUL:
			return sval{kind: "Z", expr: wrap(a.expr + " * " + b.expr), gotype: tv.Type}
		case token.QUO:
			if w > 0 {
				return sval{kind: "Z", expr: "(" + a.expr + " / " + b.expr + ")", gotype: tv.Type}
			}
			return sval{kind: "Z", expr: "(Z.quot " + a.expr + " " + b.expr + ")", gotype: tv.Type}
		case token.REM:
			if w > 0 {
				return sval{kind: "Z", expr: "(" + a.expr + " mod " + b.expr + ")", gotype: tv.Type}
			}
			return sval{kind: "Z", expr: "(Z.rem " + a.expr + " " + b.expr + ")", gotype: tv.Type}
		}
		fail("%s: operator %s outside the subset", f.pos(e), x.Op)
	case *ast.CallExpr:
		// conversion?
		if tvf, ok := f.p.TypesInfo.Types[x.Fun]; ok && tvf.IsType() && len(x.Args) == 1 {
			v := f.eval(x.Args[0], env)
			tk := coqKind(tvf.Type)
			if v.kind == "Z" && tk == "Z" {
				w := unsignedWidth(tvf.Type)
				sw := 0
				if v.gotype != nil {
					sw = unsignedWidth(v.gotype)
				}
				if w > 0 && (sw == 0 || sw > w) {
					return sval{kind: "Z", expr: "(" + v.expr + " mod " + pow2(w) + ")", gotype: tvf.Type}
				}
				return sval{kind: "Z", expr: v.expr, gotype: tvf.Type}
			}
			if v.kind == "string" { // []byte("const") or string conversions of constants
				return sval{kind: "string", expr: v.expr, gotype: tvf.Type}
			}
			fail("%s: conversion %s outside the subset", f.pos(e), types.ExprString(e))
		}
		// errors.New / fmt.Errorf -> an error value named by position
		if sel, ok := x.Fun.(*ast.SelectorExpr); ok {
			if id, ok := sel.X.(*ast.Ident); ok {
				if pn, ok := f.p.TypesInfo.Uses[id].(*types.PkgName); ok {
					full := pn.Imported().Path() + "." + sel.Sel.Name
					if full == "errors.New" || full == "fmt.Errorf" {
						pos := f.p.Fset.Position(x.Pos())
						return sval{kind: "err", expr: "(Some " + coqString(fmt.Sprintf("error_at_line_%d", pos.Line)) + ")"}
					}
				}
			}
		}
		// call of a function of the same package whose body is in the subset: inline it
		if id, ok := x.Fun.(*ast.Ident); ok {
			if fn, ok := f.p.TypesInfo.Uses[id].(*types.Func); ok && fn.Pkg() == f.p.Types {
				if callee := findFunc(f.p, fn.Name()); callee != nil && callee.Body != nil && callee.Recv == nil {
					ienv := map[string]sval{}
					ai := 0
					for _, fld := range callee.Type.Params.List {
						for _, n := range fld.Names {
							if ai >= len(x.Args) {
								fail("%s: variadic/short call outside the subset", f.pos(e))
							}
							ienv[n.Name] = f.eval(x.Args[ai], env)
							ai++
						}
					}
					saved := f.fd
					f.fd = callee
					o := f.exec(callee.Body.List, ienv)
					body, ty := f.render(o, "      ")
					f.fd = saved
					kind := "tuple"
					switch ty {
					case "Z":
						kind = "Z"
					case "bool":
						kind = "bool"
					case "option string":
						kind = "err"
					case "string":
						kind = "string"
					}
					return sval{kind: kind, expr: "(" + body + ")", coqty: ty, gotype: f.p.TypesInfo.Types[e].Type}
				}
			}
		}
		return f.opaque(e)
	}
	fail("%s: expression %s is outside the subset", f.pos(e), types.ExprString(e))
	return sval{}
}

func copyEnv(env map[string]sval) map[string]sval {
	n := make(map[string]sval, len(env))
	for k, v := range env {
		n[k] = v
	}
	return n
}

func (f *ftrans) assign(lhs ast.Expr, v sval, env map[string]sval) {
	id, ok := lhs.(*ast.Ident)
	if !ok {
		fail("%s: assignment target %s outside the subset", f.pos(lhs), types.ExprString(lhs))
	}
	if id.Name == "_" {
		return
	}
	env[id.Name] = v
}

// exec runs the statement list; every fall-through leaf continues with `rest`.
func (f *ftrans) exec(stmts []ast.Stmt, env map[string]sval) *outcome {
	if len(stmts) == 0 {
		return &outcome{fall: true, env: env}
	}
	first := f.execStmt(stmts[0], env)
	return f.seq(first, stmts[1:])
}

func (f *ftrans) seq(o *outcome, rest []ast.Stmt) *outcome {
	if o.cond != "" {
		return &outcome{cond: o.cond, a: f.seq(o.a, rest), b: f.seq(o.b, rest)}
	}
	if o.fall {
		return f.exec(rest, o.env)
	}
	return o
}

func (f *ftrans) execStmt(s ast.Stmt, env map[string]sval) *outcome {
	switch x := s.(type) {
	case *ast.ReturnStmt:
		var vs []sval
		for _, r := range x.Results {
			vs = append(vs, f.eval(r, env))
		}
		if len(x.Results) == 0 && f.fd.Type.Results != nil {
			// named results
			for _, fl := range f.fd.Type.Results.List {
				for _, n := range fl.Names {
					v, ok := env[n.Name]
					if !ok {
						fail("%s: bare return with unset named result %s", f.pos(s), n.Name)
					}
					vs = append(vs, v)
				}
			}
		}
		return &outcome{ret: vs}
	case *ast.BlockStmt:
		return f.exec(x.List, env)
	case *ast.AssignStmt:
		if len(x.Lhs) != len(x.Rhs) {
			fail("%s: multi-value assignment outside the subset", f.pos(s))
		}
		if x.Tok != token.ASSIGN && x.Tok != token.DEFINE {
			fail("%s: assignment operator %s outside the subset", f.pos(s), x.Tok)
		}
		e2 := copyEnv(env)
		vals := make([]sval, len(x.Rhs))
		for i := range x.Rhs {
			vals[i] = f.eval(x.Rhs[i], env)
		}
		for i := range x.Lhs {
			f.assign(x.Lhs[i], vals[i], e2)
		}
		return &outcome{fall: true, env: e2}
	case *ast.DeclStmt:
		gd, ok := x.Decl.(*ast.GenDecl)
		if !ok || gd.Tok != token.VAR {
			fail("%s: declaration outside the subset", f.pos(s))
		}
		e2 := copyEnv(env)
		for _, sp := range gd.Specs {
			vs := sp.(*ast.ValueSpec)
			for i, n := range vs.Names {
				if i < len(vs.Values) {
					e2[n.Name] = f.eval(vs.Values[i], env)
					continue
				}
				obj := f.p.TypesInfo.Defs[n]
				switch coqKind(obj.Type()) {
				case "Z":
					e2[n.Name] = sval{kind: "Z", expr: "0", gotype: obj.Type()}
				case "bool":
					e2[n.Name] = sval{kind: "bool", expr: "false"}
				case "err":
					e2[n.Name] = sval{kind: "err", expr: "None"}
				default:
					fail("%s: var %s of type %s outside the subset", f.pos(s), n.Name, obj.Type())
				}
			}
		}
		return &outcome{fall: true, env: e2}
	case *ast.IfStmt:
		if x.Init != nil {
			o := f.execStmt(x.Init, env)
			if !o.fall {
				fail("%s: if-init outside the subset", f.pos(s))
			}
			env = o.env
		}
		c := f.eval(x.Cond, env)
		a := f.exec(x.Body.List, copyEnv(env))
		var b *outcome
		if x.Else != nil {
			b = f.execStmt(x.Else, copyEnv(env))
		} else {
			b = &outcome{fall: true, env: env}
		}
		return &outcome{cond: c.expr, a: a, b: b}
	case *ast.SwitchStmt:
		if x.Init != nil {
			o := f.execStmt(x.Init, env)
			if !o.fall {
				fail("%s: switch-init outside the subset", f.pos(s))
			}
			env = o.env
		}
		var tag *sval
		if x.Tag != nil {
			v := f.eval(x.Tag, env)
			tag = &v
		}
		var deflt *ast.CaseClause
		type arm struct {
			cond string
			body []ast.Stmt
		}
		var arms []arm
		for _, cs := range x.Body.List {
			cc := cs.(*ast.CaseClause)
			for _, st := range cc.Body {
				if br, ok := st.(*ast.BranchStmt); ok && br.Tok == token.FALLTHROUGH {
					fail("%s: fallthrough outside the subset", f.pos(st))
				}
			}
			if cc.List == nil {
				deflt = cc
				continue
			}
			var conds []string
			for _, ce := range cc.List {
				v := f.eval(ce, env)
				if tag != nil {
					if tag.kind != "Z" || v.kind != "Z" {
						fail("%s: switch on non-integer outside the subset", f.pos(ce))
					}
					conds = append(conds, "("+tag.expr+" =? "+v.expr+")")
				} else {
					conds = append(conds, v.expr)
				}
			}
			arms = append(arms, arm{"(" + strings.Join(conds, " || ") + ")", cc.Body})
		}
		var res *outcome
		if deflt != nil {
			res = f.exec(deflt.Body, copyEnv(env))
		} else {
			res = &outcome{fall: true, env: env}
		}
		for i := len(arms) - 1; i >= 0; i-- {
			res = &outcome{cond: arms[i].cond, a: f.exec(arms[i].body, copyEnv(env)), b: res}
		}
		return res
	case *ast.EmptyStmt:
		return &outcome{fall: true, env: env}
	}
	fail("%s: statement %T is outside the subset", f.pos(s), s)
	return nil
}

func (f *ftrans) render(o *outcome, indent string) (string, string) {
	if o.cond != "" {
		a, ta := f.render(o.a, indent+"  ")
		b, tb := f.render(o.b, indent+"  ")
		if ta != tb {
			fail("%s: branches return different shapes (%s vs %s)", f.tg.Func, ta, tb)
		}
		return "if " + o.cond + "\n" + indent + "then " + a + "\n" + indent + "else " + b, ta
	}
	if o.fall {
		if f.fd.Type.Results == nil || len(f.fd.Type.Results.List) == 0 {
			return "tt", "unit"
		}
		fail("%s: control reaches the end of the function without return", f.tg.Func)
	}
	var parts, tys []string
	for _, v := range o.ret {
		parts = append(parts, v.expr)
		tys = append(tys, svalType(v))
	}
	if len(parts) == 1 {
		return parts[0], tys[0]
	}
	return "(" + strings.Join(parts, ", ") + ")", "(" + strings.Join(tys, " * ") + ")"
}

func svalType(v sval) string {
	if v.coqty != "" {
		return v.coqty
	}
	switch v.kind {
	case "Z":
		return "Z"
	case "bool":
		return "bool"
	case "string":
		return "string"
	case "err":
		return "option string"
	case "tuple":
		var t []string
		for _, e := range v.elems {
			t = append(t, svalType(e))
		}
		return "(" + strings.Join(t, " * ") + ")"
	}
	return "unit"
}

func (t *translator) doFunc(tg Target) {
	p := t.load(tg.Pkg)
	fd := findFunc(p, tg.Func)
	if fd == nil || fd.Body == nil {
		fail("func: %s not found in %s", tg.Func, tg.Pkg)
	}
	f := &ftrans{t: t, p: p, fd: fd, ptypes: map[string]string{}, objName: map[types.Object]string{}, tg: tg}
	// receiver and parameters get stable names; scalar parameters become Coq parameters up front
	// (in declaration order) so that the signature does not depend on use order.
	reg := func(fl *ast.FieldList) {
		if fl == nil {
			return
		}
		for _, fld := range fl.List {
			for _, n := range fld.Names {
				obj := p.TypesInfo.Defs[n]
				if obj == nil || n.Name == "_" {
					continue
				}
				f.objName[obj] = n.Name
				switch coqKind(obj.Type()) {
				case "Z":
					f.addParam(n.Name, "Z")
				case "bool":
					f.addParam(n.Name, "bool")
				}
			}
		}
	}
	reg(fd.Recv)
	reg(fd.Type.Params)
	env := map[string]sval{}
	o := f.exec(fd.Body.List, env)
	body, ty := f.render(o, "    ")
	var ps []string
	for _, n := range f.params {
		ps = append(ps, fmt.Sprintf("(%s : %s)", n, f.ptypes[n]))
	}
	fmt.Fprintf(&t.out, "(* %s.%s — parameters in order: %s *)\n", p.PkgPath, tg.Func, strings.Join(f.params, ", "))
	fmt.Fprintf(&t.out, "Definition %s %s : %s :=\n    %s.\n\n", tg.Out, strings.Join(ps, " "), ty, body)
	t.record(tg, p, fd.Pos(), fd.End(), []string{tg.Out}, f.params)
}

// doStrMethod: a method whose result must not depend on its receiver (C14).  Emits
//   Definition <out>_mentions_receiver : bool   — does any identifier in the body resolve to the receiver?
//   Definition <out>_const : option string      — the returned string constant when the body is `return <const>`
//                                                 (possibly wrapped in a []byte conversion and followed by nil)
func (t *translator) doStrMethod(tg Target) {
	p := t.load(tg.Pkg)
	fd := findFunc(p, tg.Func)
	if fd == nil || fd.Body == nil {
		fail("strmethod: %s not found in %s", tg.Func, tg.Pkg)
	}
	var recvObj types.Object
	if fd.Recv != nil && len(fd.Recv.List) == 1 && len(fd.Recv.List[0].Names) == 1 {
		recvObj = p.TypesInfo.Defs[fd.Recv.List[0].Names[0]]
	}
	mentions := false
	ast.Inspect(fd.Body, func(n ast.Node) bool {
		if id, ok := n.(*ast.Ident); ok && recvObj != nil && p.TypesInfo.Uses[id] == recvObj {
			mentions = true
		}
		return true
	})
	// pointer receiver changes which values have the method: record it
	ptrRecv := false
	if fd.Recv != nil && len(fd.Recv.List) == 1 {
		_, ptrRecv = fd.Recv.List[0].Type.(*ast.StarExpr)
	}
	cst := "None"
	if len(fd.Body.List) == 1 {
		if rs, ok := fd.Body.List[0].(*ast.ReturnStmt); ok && len(rs.Results) >= 1 {
			e := rs.Results[0]
			if call, ok := e.(*ast.CallExpr); ok && len(call.Args) == 1 {
				if tvf, ok := p.TypesInfo.Types[call.Fun]; ok && tvf.IsType() {
					e = call.Args[0]
				}
			}
			if tv, ok := p.TypesInfo.Types[e]; ok && tv.Value != nil && tv.Value.Kind() == constant.String {
				cst = "(Some " + coqString(constant.StringVal(tv.Value)) + ")"
			}
		}
	}
	fmt.Fprintf(&t.out, "(* %s.%s *)\n", p.PkgPath, tg.Func)
	fmt.Fprintf(&t.out, "Definition %s_mentions_receiver : bool := %v.\n", tg.Out, mentions)
	fmt.Fprintf(&t.out, "Definition %s_pointer_receiver : bool := %v.\n", tg.Out, ptrRecv)
	fmt.Fprintf(&t.out, "Definition %s_const : option string := %s.\n\n", tg.Out, cst)
	t.record(tg, p, fd.Pos(), fd.End(), []string{tg.Out + "_mentions_receiver", tg.Out + "_pointer_receiver", tg.Out + "_const"}, nil)
}

// doMethodSet: the sorted list of method names of a named type (value and pointer method sets),
// so that a newly added method (e.g. Format) is visible to the proofs.
func (t *translator) doMethodSet(tg Target) {
	p := t.load(tg.Pkg)
	obj := p.Types.Scope().Lookup(tg.Type)
	if obj == nil {
		fail("methodset: type %s not found in %s", tg.Type, tg.Pkg)
	}
	var names []string
	ms := types.NewMethodSet(types.NewPointer(obj.Type()))
	for i := 0; i < ms.Len(); i++ {
		names = append(names, ms.At(i).Obj().Name())
	}
	sort.Strings(names)
	var q []string
	for _, n := range names {
		q = append(q, coqString(n))
	}
	fmt.Fprintf(&t.out, "(* method set of *%s.%s *)\n", p.PkgPath, tg.Type)
	fmt.Fprintf(&t.out, "Definition %s : list string := [%s].\n\n", tg.Out, strings.Join(q, "; "))
	t.record(tg, p, obj.Pos(), obj.Pos(), []string{tg.Out}, nil)
}
