package main

// func.go — translation of loop-free decision functions (filled in with the C15/C18 work).

func (t *translator) doFunc(tg Target)      { fail("func targets not implemented yet: %s", tg.Func) }
func (t *translator) doStrMethod(tg Target) { fail("strmethod targets not implemented yet: %s", tg.Func) }
