// go2coq — translator T1: reads the CURRENT Go source of /repo (type-checked through
// go/packages, offline) and emits Coq definitions for a deliberately small Go subset:
//
//	consts    : every constant of a named type        -> Definition <Name> : Z := v.
//	maptable  : a composite literal map[K]map[K]struct{} found inside a function
//	            -> Definition <out> : list (Z * list Z)
//	func      : loop-free decision functions (see func.go)
//
// Anything outside the subset is a translation failure (exit 2), which the check driver treats
// like a failed proof obligation.
//
// usage: go2coq -spec spec.json -out Generated/X.v -manifest work/X.manifest.json
// (run with cwd = the Go module directory that contains the package)
package main

import (
	"crypto/sha256"
	"encoding/hex"
	"encoding/json"
	"flag"
	"fmt"
	"go/ast"
	"go/constant"
	"go/token"
	"go/types"
	"os"
	"sort"
	"strings"

	"golang.org/x/tools/go/packages"
)

type Target struct {
	Kind string `json:"kind"` // consts | maptable | func | strmethods
	Pkg  string `json:"pkg"`  // import path pattern, relative to cwd, e.g. ./internal/status
	// consts: Type = named type whose constants are dumped (prefix optional)
	Type string `json:"type,omitempty"`
	// maptable / func: Func = enclosing function (or Recv.Method)
	Func string `json:"func,omitempty"`
	Out  string `json:"out,omitempty"` // Coq identifier to define
	// func: optional list of parameter names (in order) the Coq definition takes; calls outside
	// the subset become extra parameters, listed in the manifest.
	Prefix string `json:"prefix,omitempty"`
}

type Spec struct {
	Module  string   `json:"module"` // Coq module comment
	Header  []string `json:"header,omitempty"`
	Targets []Target `json:"targets"`
}

type ManEntry struct {
	Target  Target   `json:"target"`
	File    string   `json:"file"`
	Lines   [2]int   `json:"lines"`
	SHA256  string   `json:"sha256"`
	Defines []string `json:"defines"`
	Params  []string `json:"params,omitempty"`
}

type translator struct {
	pkgs map[string]*packages.Package
	out  strings.Builder
	man  []ManEntry
}

func fail(format string, a ...any) {
	fmt.Fprintf(os.Stderr, "go2coq: TRANSLATION FAILURE: "+format+"\n", a...)
	os.Exit(2)
}

func (t *translator) load(pattern string) *packages.Package {
	if p, ok := t.pkgs[pattern]; ok {
		return p
	}
	cfg := &packages.Config{
		Mode: packages.NeedName | packages.NeedFiles | packages.NeedSyntax | packages.NeedTypes |
			packages.NeedTypesInfo | packages.NeedImports | packages.NeedDeps,
		BuildFlags: []string{"-tags=verif"},
		Overlay:    extraOverlay(),
	}
	ps, err := packages.Load(cfg, pattern)
	if err != nil {
		fail("load %s: %v", pattern, err)
	}
	if len(ps) != 1 {
		fail("load %s: %d packages", pattern, len(ps))
	}
	if len(ps[0].Errors) > 0 {
		fail("load %s: %v", pattern, ps[0].Errors)
	}
	t.pkgs[pattern] = ps[0]
	return ps[0]
}

// extraOverlay honours VERIF_EXTRA_OVERLAY (same JSON as `go build -overlay`): lets a check run
// against an edited copy of some source files without touching /repo.
func extraOverlay() map[string][]byte {
	p := os.Getenv("VERIF_EXTRA_OVERLAY")
	if p == "" {
		return nil
	}
	b, err := os.ReadFile(p)
	if err != nil {
		return nil
	}
	var ov struct{ Replace map[string]string }
	if json.Unmarshal(b, &ov) != nil {
		return nil
	}
	m := map[string][]byte{}
	for k, v := range ov.Replace {
		if c, err := os.ReadFile(v); err == nil {
			m[k] = c
		}
	}
	return m
}

func fileSHA(path string) string {
	b, err := os.ReadFile(path)
	if err != nil {
		return ""
	}
	s := sha256.Sum256(b)
	return hex.EncodeToString(s[:])
}

func (t *translator) record(tg Target, p *packages.Package, from, to token.Pos, defines, params []string) {
	f := p.Fset.Position(from)
	e := p.Fset.Position(to)
	t.man = append(t.man, ManEntry{Target: tg, File: f.Filename, Lines: [2]int{f.Line, e.Line},
		SHA256: fileSHA(f.Filename), Defines: defines, Params: params})
}

// findFunc locates a function or method declaration "Name" or "Recv.Name".
func findFunc(p *packages.Package, name string) *ast.FuncDecl {
	recv := ""
	if i := strings.Index(name, "."); i >= 0 {
		recv, name = name[:i], name[i+1:]
	}
	for _, f := range p.Syntax {
		for _, d := range f.Decls {
			fd, ok := d.(*ast.FuncDecl)
			if !ok || fd.Name.Name != name {
				continue
			}
			if recv == "" && fd.Recv == nil {
				return fd
			}
			if recv != "" && fd.Recv != nil && len(fd.Recv.List) == 1 {
				rt := fd.Recv.List[0].Type
				if s, ok := rt.(*ast.StarExpr); ok {
					rt = s.X
				}
				if ix, ok := rt.(*ast.IndexExpr); ok {
					rt = ix.X
				}
				if id, ok := rt.(*ast.Ident); ok && id.Name == recv {
					return fd
				}
			}
		}
	}
	return nil
}

func constZ(v constant.Value) (string, bool) {
	if v == nil {
		return "", false
	}
	switch v.Kind() {
	case constant.Int:
		s := v.ExactString()
		if strings.HasPrefix(s, "-") {
			return "(" + s + ")", true
		}
		return s, true
	}
	return "", false
}

// ---- consts -------------------------------------------------------------------------------
func (t *translator) doConsts(tg Target) {
	p := t.load(tg.Pkg)
	scope := p.Types.Scope()
	type cv struct {
		name string
		val  string
		pos  token.Pos
	}
	var cs []cv
	for _, n := range scope.Names() {
		c, ok := scope.Lookup(n).(*types.Const)
		if !ok {
			continue
		}
		nt, ok := c.Type().(*types.Named)
		if !ok || nt.Obj().Name() != tg.Type {
			continue
		}
		z, ok := constZ(c.Val())
		if !ok {
			continue
		}
		cs = append(cs, cv{n, z, c.Pos()})
	}
	if len(cs) == 0 {
		fail("consts: no constants of type %s in %s", tg.Type, tg.Pkg)
	}
	sort.Slice(cs, func(i, j int) bool { return cs[i].pos < cs[j].pos })
	var defs []string
	fmt.Fprintf(&t.out, "(* constants of type %s.%s *)\n", p.PkgPath, tg.Type)
	for _, c := range cs {
		fmt.Fprintf(&t.out, "Definition %s%s : Z := %s.\n", tg.Prefix, c.name, c.val)
		defs = append(defs, tg.Prefix+c.name)
	}
	// also the list of all of them, in declaration order
	if tg.Out != "" {
		fmt.Fprintf(&t.out, "Definition %s : list Z := [", tg.Out)
		for i, c := range cs {
			if i > 0 {
				t.out.WriteString("; ")
			}
			t.out.WriteString(c.val)
		}
		t.out.WriteString("].\n")
		defs = append(defs, tg.Out)
	}
	t.out.WriteString("\n")
	t.record(tg, p, cs[0].pos, cs[len(cs)-1].pos, defs, nil)
}

// ---- maptable -----------------------------------------------------------------------------
func (t *translator) doMapTable(tg Target) {
	p := t.load(tg.Pkg)
	fd := findFunc(p, tg.Func)
	if fd == nil {
		fail("maptable: function %s not found in %s", tg.Func, tg.Pkg)
	}
	var lit *ast.CompositeLit
	ast.Inspect(fd.Body, func(n ast.Node) bool {
		cl, ok := n.(*ast.CompositeLit)
		if !ok || lit != nil {
			return lit == nil
		}
		tv, ok := p.TypesInfo.Types[cl]
		if !ok {
			return true
		}
		m, ok := tv.Type.Underlying().(*types.Map)
		if !ok {
			return true
		}
		if _, ok := m.Elem().Underlying().(*types.Map); ok {
			lit = cl
			return false
		}
		return true
	})
	if lit == nil {
		fail("maptable: no map[K]map[K]… literal in %s", tg.Func)
	}
	keyZ := func(e ast.Expr) string {
		tv, ok := p.TypesInfo.Types[e]
		if !ok || tv.Value == nil {
			fail("maptable: key at %s is not a constant", p.Fset.Position(e.Pos()))
		}
		z, ok := constZ(tv.Value)
		if !ok {
			fail("maptable: key at %s is not an integer constant", p.Fset.Position(e.Pos()))
		}
		return z
	}
	var rows []string
	for _, el := range lit.Elts {
		kv, ok := el.(*ast.KeyValueExpr)
		if !ok {
			fail("maptable: non key-value element at %s", p.Fset.Position(el.Pos()))
		}
		inner, ok := kv.Value.(*ast.CompositeLit)
		if !ok {
			fail("maptable: inner value at %s is not a literal", p.Fset.Position(kv.Value.Pos()))
		}
		var tos []string
		for _, iel := range inner.Elts {
			ikv, ok := iel.(*ast.KeyValueExpr)
			if !ok {
				fail("maptable: inner non key-value element at %s", p.Fset.Position(iel.Pos()))
			}
			tos = append(tos, keyZ(ikv.Key))
		}
		rows = append(rows, fmt.Sprintf("(%s, [%s])", keyZ(kv.Key), strings.Join(tos, "; ")))
	}
	// the literal must be used unmodified: reject any later index-assignment / delete on a map
	// inside the same function (outside the subset).
	ast.Inspect(fd.Body, func(n ast.Node) bool {
		switch x := n.(type) {
		case *ast.AssignStmt:
			for _, l := range x.Lhs {
				if _, ok := l.(*ast.IndexExpr); ok {
					fail("maptable: %s mutates a map at %s (outside the subset)", tg.Func, p.Fset.Position(l.Pos()))
				}
			}
		case *ast.CallExpr:
			if id, ok := x.Fun.(*ast.Ident); ok && id.Name == "delete" {
				fail("maptable: %s deletes from a map at %s (outside the subset)", tg.Func, p.Fset.Position(x.Pos()))
			}
		}
		return true
	})
	fmt.Fprintf(&t.out, "(* map literal in %s.%s *)\n", p.PkgPath, tg.Func)
	fmt.Fprintf(&t.out, "Definition %s : list (Z * list Z) :=\n  [ %s ].\n\n", tg.Out, strings.Join(rows, ";\n    "))
	t.record(tg, p, lit.Pos(), lit.End(), []string{tg.Out}, nil)
}

func main() {
	specPath := flag.String("spec", "", "spec json")
	outPath := flag.String("out", "", "output .v")
	manPath := flag.String("manifest", "", "manifest json")
	flag.Parse()
	b, err := os.ReadFile(*specPath)
	if err != nil {
		fail("%v", err)
	}
	var spec Spec
	if err := json.Unmarshal(b, &spec); err != nil {
		fail("spec: %v", err)
	}
	t := &translator{pkgs: map[string]*packages.Package{}}
	fmt.Fprintf(&t.out, "(* GENERATED by /verif/tools/go2coq from the current /repo working tree — do not edit.\n   %s *)\n", spec.Module)
	t.out.WriteString("From Coq Require Import ZArith List Bool String.\nImport ListNotations.\nLocal Open Scope Z_scope.\n\n")
	for _, h := range spec.Header {
		t.out.WriteString(h + "\n")
	}
	for _, tg := range spec.Targets {
		switch tg.Kind {
		case "consts":
			t.doConsts(tg)
		case "maptable":
			t.doMapTable(tg)
		case "func":
			t.doFunc(tg)
		case "strmethod":
			t.doStrMethod(tg)
		case "methodset":
			t.doMethodSet(tg)
		default:
			fail("unknown target kind %q", tg.Kind)
		}
	}
	newc := t.out.String()
	old, _ := os.ReadFile(*outPath)
	if string(old) != newc {
		if err := os.WriteFile(*outPath, []byte(newc), 0o644); err != nil {
			fail("%v", err)
		}
	}
	mb, _ := json.MarshalIndent(t.man, "", " ")
	if *manPath != "" {
		_ = os.WriteFile(*manPath, mb, 0o644)
	}
}
