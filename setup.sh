#!/bin/sh
# MANIFEST.setup_cmd — offline, from files on disk only.
cd /verif || exit 1
export GOFLAGS=-mod=mod GOPROXY=off GOSUMDB=off GOTOOLCHAIN=local
exec python3 lib/setup.py
