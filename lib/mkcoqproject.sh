#!/bin/sh
# regenerate coq/_CoqProject (all .v files under coq/, deterministic order) and the Makefile
cd /verif/coq || exit 1
{ echo "-Q . Verif"; echo "-arg -w -arg -notation-overridden,-deprecated-hint-without-locality,-deprecated-instance-without-locality"; find . -name '*.v' | sed 's|^\./||' | LC_ALL=C sort; } > _CoqProject.new
if ! cmp -s _CoqProject.new _CoqProject 2>/dev/null; then mv _CoqProject.new _CoqProject; coq_makefile -f _CoqProject -o Makefile >/dev/null; else rm _CoqProject.new; [ -f Makefile ] || coq_makefile -f _CoqProject -o Makefile >/dev/null; fi
