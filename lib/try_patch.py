#!/usr/bin/env python3
"""try_patch.py <patch.diff> <Cxx> [--tier quick] — run a check against /repo + a patch WITHOUT touching /repo.

The patch is applied to copies of the touched files under work/mut/<hash>/ and handed to the
check through VERIF_EXTRA_OVERLAY (honoured by the Go harness runs and by translator T1).
Exit code = the check's exit code."""
import hashlib
import json
import os
import re
import shutil
import subprocess
import sys

patch = os.path.abspath(sys.argv[1])
pid = sys.argv[2]
rest = sys.argv[3:]
h = hashlib.sha256(open(patch, "rb").read()).hexdigest()[:10]
root = "/verif/work/mut/%s" % h
shutil.rmtree(root, ignore_errors=True)
os.makedirs(root)
files = []
for line in open(patch, encoding="utf-8", errors="replace"):
    m = re.match(r"^\+\+\+ b/(.+)$", line.rstrip("\n"))
    if m:
        files.append(m.group(1))
    m = re.match(r"^--- a/(.+)$", line.rstrip("\n"))
    if m and m.group(1) not in files:
        files.append(m.group(1))
for f in files:
    src = os.path.join("/repo", f)
    dst = os.path.join(root, f)
    os.makedirs(os.path.dirname(dst), exist_ok=True)
    if os.path.exists(src):
        shutil.copy(src, dst)
r = subprocess.run(["patch", "-p1", "-s", "-i", patch], cwd=root)
if r.returncode != 0:
    print("try_patch: patch does not apply")
    sys.exit(3)
ov = {}
for f in files:
    dst = os.path.join(root, f)
    ov[os.path.join("/repo", f)] = dst if os.path.exists(dst) else ""
ovp = os.path.join(root, "overlay.json")
json.dump({"Replace": ov}, open(ovp, "w"), indent=1)
env = dict(os.environ, VERIF_EXTRA_OVERLAY=ovp)
r = subprocess.run(["./check", pid] + rest, cwd="/verif", env=env)
sys.exit(r.returncode)
