#!/usr/bin/env python3
"""lib/mkmut.py Cxx [N] — create a scratch worktree /tmp/mut/Cxx of /repo HEAD and write the mutation-agent prompt
to /verif/work/mutprompt_Cxx.txt (the agent gets only the property text, nothing from /verif)."""
import json, os, subprocess, sys
pid = sys.argv[1]
n = sys.argv[2] if len(sys.argv) > 2 else "3"
tag = sys.argv[3] if len(sys.argv) > 3 else ""
props = {json.loads(l)["id"]: json.loads(l) for l in open("/verif/properties.jsonl")}
p = props[pid]
wt = "/tmp/mut/%s%s" % (pid, tag)
out = wt + "-out"
os.makedirs("/tmp/mut", exist_ok=True)
if not os.path.exists(wt):
    subprocess.check_call(["git", "-C", "/repo", "worktree", "add", "--detach", wt, "HEAD"], stdout=subprocess.DEVNULL)
os.makedirs(out, exist_ok=True)
t = open("/verif/work/mut_prompt.tmpl").read()
anch = p.get("anchors", {})
files = ", ".join(anch.get("files", [])) if isinstance(anch, dict) else str(anch)
rep = {"@WT@": wt, "@OUT@": out, "@PID@": pid, "@TITLE@": p.get("title", ""), "@STATEMENT@": p.get("statement", p.get("text", "")),
       "@QUANT@": (p.get("quantifier") or {}).get("text", ""), "@FILES@": files, "@N@": n}
for k, v in rep.items():
    t = t.replace(k, str(v))
if tag:
    # later rounds: ask for changes different in kind from the ones already kept (titles only)
    import glob
    prev = []
    for mp in sorted(glob.glob("/verif/seeded/%s-*/meta.json" % pid)):
        m = json.load(open(mp))
        prev.append("  - %s (%s)" % (m.get("title", "?"), ", ".join((m.get("confirmed_by_integrator") or {}).get("touched", []))))
    if prev:
        t = t.replace("YOUR TASK:", "Other engineers have ALREADY produced the following changes for this property; yours must be different in kind "
                      "(other functions, other clauses of the property, other triggering conditions — not variations of these):\n" + "\n".join(prev) + "\n\nYOUR TASK:", 1)
    t += "\n(The machine is heavily loaded by other jobs: give go test generous timeouts. Never let go rewrite a go.mod or go.sum: if your demo would need a module that is only an indirect requirement, pick another way. Name your result directories m1, m2, m3 as described.)\n"
open("/verif/work/mutprompt_%s%s.txt" % (pid, tag), "w").write(t)
print(wt, out)
