#!/usr/bin/env python3
"""lib/merge_findings.py Cxx [id ...] — integrator's tool (never run by a check): copy the proposed known-finding
entries of props/Cxx/findings.json (all, or the listed ids) into known_findings.json, replacing entries with the same id."""
import json, sys
pid = sys.argv[1]
only = set(sys.argv[2:])
src = json.load(open("/verif/props/%s/findings.json" % pid))
k = json.load(open("/verif/known_findings.json"))
byid = {f["id"]: f for f in k["findings"]}
for f in src.get("findings", []):
    if only and f["id"] not in only:
        continue
    f.setdefault("status", "open"); f.setdefault("property", pid)
    byid[f["id"]] = f
    print("merged", f["id"])
k["findings"] = sorted(byid.values(), key=lambda f: (f["property"], f["id"]))
json.dump(k, open("/verif/known_findings.json", "w"), indent=1)
