#!/usr/bin/env python3
"""setup — run once after a fresh restore (offline): build tools, regenerate translator outputs,
full .vo build of the whole development, warm the Go build cache for every harness package."""
import importlib.util
import os
import sys

HERE = os.path.dirname(os.path.dirname(os.path.abspath(__file__)))
sys.path.insert(0, os.path.join(HERE, "lib"))
import vlib  # noqa: E402


def load_props():
    out = []
    pd = os.path.join(HERE, "props")
    integrated = set(open(os.path.join(pd, "INTEGRATED")).read().split())
    for pid in sorted(os.listdir(pd)):
        path = os.path.join(pd, pid, "check.py")
        # only integrated (claimed) properties take part in setup: work in progress must not break it
        if pid not in integrated or not os.path.exists(path) or not os.path.exists(os.path.join(pd, pid, "manifest.json")):
            continue
        spec = importlib.util.spec_from_file_location("prop_" + pid, path)
        mod = importlib.util.module_from_spec(spec)
        spec.loader.exec_module(mod)
        out.append(mod.P())
    return out


def main():
    os.makedirs(os.path.join(HERE, "work"), exist_ok=True)
    ok = True
    props = load_props()
    for P in props:
        ctx = vlib.Ctx(P.pid, "quick", 1)
        try:
            P.translate(ctx)
            ctx.log("translated")
        except vlib.Broken as b:
            ok = False
            print("setup: translator failed for", P.pid, b.what, b.detail[-2000:])
    for P in props:
        ctx = vlib.Ctx(P.pid, "quick", 1)
        try:
            vlib.coq_make(ctx, list(P.coq_targets), timeout=3 * 3600)
            ctx.log("coq closure built")
        except vlib.Broken as b:
            ok = False
            print("setup: coq build failed for", P.pid, b.what, b.detail[-3000:])
    # warm the go build cache (compile the harness packages, run nothing)
    for P in props:
        ctx = vlib.Ctx(P.pid, "quick", 1)
        for h in P.harnesses:
            import copy
            h2 = copy.copy(h)
            h2.run = "^$"
            _, _, _, err = vlib.run_harness(ctx, h2)
            # DONE marker is absent when nothing runs; only a build failure matters here
            if err and "does not build" in err.what:
                ok = False
                print("setup: harness build failed", P.pid, h.name, err.detail[-2000:])
            else:
                ctx.log("harness %s compiled" % h.name)
        if hasattr(P, "setup_extra"):
            P.setup_extra(ctx)
    print("setup:", "OK" if ok else "FAILED")
    return 0 if ok else 1


if __name__ == "__main__":
    sys.exit(main())
