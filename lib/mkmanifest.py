#!/usr/bin/env python3
"""Assemble MANIFEST.json from props/*/manifest.json fragments (one per claimed property)."""
import json
import os

HERE = os.path.dirname(os.path.dirname(os.path.abspath(__file__)))
base = json.load(open("/root/.vp/BASELINE.json"))
props = [json.loads(l) for l in open(os.path.join(HERE, "properties.jsonl"))]
checks, na = [], []
na_reasons = {}
nap = os.path.join(HERE, "props", "not_applicable.json")
if os.path.exists(nap):
    na_reasons = json.load(open(nap))
# only properties the integrator has reviewed and listed in props/INTEGRATED are claimed
integrated = set(open(os.path.join(HERE, "props", "INTEGRATED")).read().split())
for p in props:
    pid = p["id"]
    frag = os.path.join(HERE, "props", pid, "manifest.json")
    if pid in integrated and os.path.exists(frag):
        f = json.load(open(frag))
        c = {"property_id": pid,
             "quick_cmd": "./check %s --tier quick" % pid,
             "thorough_cmd": "./check %s --tier thorough" % pid,
             "evidence_file": "/verif/evidence/%s.json" % pid,
             "replay_cmd_template": "./check %s --tier quick --replay {path}" % pid,
             "engine": "coq-proof+correspondence",
             "level_claimed": {"category": f.get("category", "proof"), "text": f["level_text"], "design_ref": f.get("design_ref", "DESIGN.md section 5, " + pid)},
             "level_note": f["level_note"],
             "technique": f.get("technique", "machine-checked proof in Coq 8.16.1 over an executable model; model tied to the code by translator and/or correspondence run")}
        checks.append(c)
    else:
        na.append({"property_id": pid, "reason": na_reasons.get(pid, "no check built yet: the Coq model and correspondence harness for this property are planned (DESIGN.md section 5) but not finished; nothing is claimed")})
m = {
    "version": 1,
    "setup_cmd": "./setup.sh",
    "hooks": {"guard": "verif",
              "enable": "no source hooks: harness files are injected with `go test -overlay -tags verif` (add-only, virtual); see DESIGN.md 2.3",
              "baseline_off_cmd": base["cmd"],
              "source_commits": [],
              "add_only": True},
    "engines": [{"name": "coq-proof+correspondence", "path": "/verif/check",
                 "serves_properties": [c["property_id"] for c in checks],
                 "kind_free_text": "Coq 8.16.1 theorems over executable Gallina models (coq/), translator T1 go2coq (tools/), Go correspondence harnesses injected by overlay (harness/), in-Coq vm_compute evaluation of the recorded cases"}],
    "checks": checks,
    "notes": "See DESIGN.md. known_findings.json lists recorded genuine defects. Evidence is rewritten by every run.",
    "not_applicable": na,
}
json.dump(m, open(os.path.join(HERE, "MANIFEST.json"), "w"), indent=1)
print("MANIFEST.json: %d checks, %d not claimed" % (len(checks), len(na)))
