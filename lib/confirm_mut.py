#!/usr/bin/env python3
"""lib/confirm_mut.py <agent-out-dir>/m<k> <seeded-id> — confirm a proposed breaking change in a fresh scratch worktree
and, if everything holds, keep it as /verif/seeded/<seeded-id>/ {patch.diff, demo test, meta.json}.

Confirmed means, all run by this script (not taken from the proposer's report):
  1. the demonstration PASSES on the unchanged tree,
  2. the patch applies, the touched module(s) build, and their existing tests still pass,
  3. the demonstration FAILS with the patch applied.
The scratch worktree is removed afterwards."""
import glob
import json
import os
import shutil
import subprocess
import sys
import time

src = os.path.abspath(sys.argv[1])
sid = sys.argv[2]
meta = json.load(open(os.path.join(src, "meta.json")))
wt = "/tmp/confirm/%s" % sid
env = dict(os.environ, GOFLAGS="-mod=mod", GOPROXY="off", GOSUMDB="off", GOTOOLCHAIN="local")


def sh(cmd, cwd, timeout=2400):
    t0 = time.time()
    try:
        r = subprocess.run(cmd, cwd=cwd, env=env, shell=isinstance(cmd, str), stdout=subprocess.PIPE, stderr=subprocess.STDOUT,
                           timeout=timeout, text=True, errors="replace")
        return r.returncode, r.stdout, round(time.time() - t0, 1)
    except subprocess.TimeoutExpired as e:
        return 124, (e.stdout or "") + "\nTIMEOUT", round(time.time() - t0, 1)


def module_of(path):
    d = os.path.dirname(path)
    while d and not os.path.exists(os.path.join(wt, d, "go.mod")):
        d = os.path.dirname(d)
    return d or "."


subprocess.run(["git", "-C", "/repo", "worktree", "remove", "--force", wt], stdout=subprocess.DEVNULL, stderr=subprocess.DEVNULL)
os.makedirs("/tmp/confirm", exist_ok=True)
subprocess.check_call(["git", "-C", "/repo", "worktree", "add", "--detach", wt, "HEAD"], stdout=subprocess.DEVNULL, stderr=subprocess.DEVNULL)
ok = False
rec = {}
try:
    demos = [f for f in glob.glob(os.path.join(src, "*_test.go"))] + [f for f in glob.glob(os.path.join(src, "*.go")) if not f.endswith("_test.go")]
    if not demos:
        print("no demo file"); sys.exit(2)
    pkgdir = os.path.join(wt, meta["demo_pkg_dir"])
    os.makedirs(pkgdir, exist_ok=True)
    for d in demos:
        shutil.copy(d, pkgdir)
    moddir = os.path.join(wt, meta.get("demo_module_dir") or module_of(os.path.join(meta["demo_pkg_dir"], "x.go")))
    demo_cmd = meta["demo_run"].replace(meta.get("_wt", "\0"), wt)
    # strip a leading "cd ... &&" the proposer may have written
    import re as _re
    demo_cmd = _re.sub(r"^\s*export [^;&]*(;|&&)\s*", "", demo_cmd)
    if "&&" in demo_cmd and demo_cmd.strip().startswith("cd "):
        demo_cmd = demo_cmd.split("&&", 1)[1].strip()
    if "-count=1" not in demo_cmd:
        demo_cmd = demo_cmd.replace("go test", "go test -count=1", 1)
    rc1, out1, t1 = sh(demo_cmd, moddir, 900)
    rec["demo_on_unchanged_tree"] = {"cmd": demo_cmd, "cwd": os.path.relpath(moddir, wt), "exit": rc1, "s": t1}
    print("demo on unchanged tree: exit", rc1, t1, "s")
    if rc1 != 0:
        print(out1[-3000:]); raise SystemExit(1)
    rc, out, _ = sh(["git", "apply", os.path.join(src, "patch.diff")], wt)
    if rc != 0:
        print("patch does not apply", out); raise SystemExit(1)
    rc, out, _ = sh(["git", "diff", "--name-only"], wt)
    touched = [l for l in out.split("\n") if l.strip()]
    if any(t.endswith("_test.go") for t in touched):
        print("patch touches test files:", touched); raise SystemExit(1)
    mods = sorted({module_of(t) for t in touched})
    rec["touched"] = touched
    rec["existing_tests"] = []
    for m in mods:
        # the demo file must not take part in the existing-tests run
        for d in demos:
            p = os.path.join(pkgdir, os.path.basename(d))
            if os.path.exists(p):
                os.rename(p, p + ".aside")
        rc, out, t = sh("go build ./... && go test -vet=off -count=1 -timeout 25m ./...", os.path.join(wt, m), 2400)
        if rc != 0 and "FAIL" in out:
            # one retry: a few upstream tests are timing-sensitive under load
            fails = sorted({l.split()[1] for l in out.split("\n") if l.startswith("FAIL\t")})
            print("existing tests failed in", m, fails, "- retrying those packages once")
            rc, out, t = sh("go test -vet=off -count=1 -timeout 25m " + " ".join(fails), os.path.join(wt, m), 2400)
        if rc != 0 and "module lookup disabled by GOPROXY=off" in out:
            # a module whose own go.mod pins a version that is not in the offline module cache (exporter/otlpexporter):
            # run its package tests from internal/e2e, which resolves it (and its dependencies) through replace directives
            mp = subprocess.run("go list -m", cwd=os.path.join(wt, m), env=dict(env, GOFLAGS="-mod=mod"), shell=True, stdout=subprocess.PIPE, text=True).stdout.strip()
            rc, out, t = sh("go test -vet=off -count=1 -timeout 25m %s/..." % mp, os.path.join(wt, "internal/e2e"), 2400)
            print("module", m, "does not resolve offline on its own; ran its tests from internal/e2e: exit", rc)
        for d in demos:
            p = os.path.join(pkgdir, os.path.basename(d))
            if os.path.exists(p + ".aside"):
                os.rename(p + ".aside", p)
        rec["existing_tests"].append({"module": m, "cmd": "go build ./... && go test -vet=off -count=1 ./...", "exit": rc, "s": t})
        print("existing tests of module", m, ": exit", rc, t, "s")
        if rc != 0:
            print(out[-4000:]); raise SystemExit(1)
    rc2, out2, t2 = sh(demo_cmd, moddir, 900)
    rec["demo_with_patch"] = {"cmd": demo_cmd, "exit": rc2, "s": t2, "tail": out2[-1500:]}
    print("demo with patch: exit", rc2, t2, "s")
    if rc2 == 0:
        print("demo does not fail with the patch"); raise SystemExit(1)
    if "build failed" in out2 or "[build failed]" in out2:
        print("demo does not build with the patch", out2[-2000:]); raise SystemExit(1)
    ok = True
finally:
    subprocess.run(["git", "-C", "/repo", "worktree", "remove", "--force", wt], stdout=subprocess.DEVNULL, stderr=subprocess.DEVNULL)
    subprocess.run(["git", "-C", "/repo", "worktree", "prune"], stdout=subprocess.DEVNULL, stderr=subprocess.DEVNULL)
if ok:
    dst = "/verif/seeded/%s" % sid
    shutil.rmtree(dst, ignore_errors=True)
    os.makedirs(dst)
    shutil.copy(os.path.join(src, "patch.diff"), dst)
    for d in demos:
        shutil.copy(d, dst)
    meta.pop("_wt", None)
    meta["confirmed_by_integrator"] = rec
    meta["breaks_property"] = meta.get("property")
    json.dump(meta, open(os.path.join(dst, "meta.json"), "w"), indent=1)
    print("CONFIRMED ->", dst)
else:
    print("NOT CONFIRMED")
    sys.exit(1)
