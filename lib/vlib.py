"""vlib — shared machinery of the /verif check driver.

One check run (see DESIGN.md 2.5):
  1. translate   : regenerate coq/Generated/*.v from /repo's working tree (property-specific)
  2. prove       : make the property's .vo closure (full .vo build), grep gate, Print Assumptions
  3. correspond  : run the Go harness(es) injected by `go test -overlay`, collect CASE / ORACLE
                   / STAT lines, evaluate the cases inside Coq (vm_compute) against the model
  4. verdict     : known findings, violations (with replay), evidence file
"""
import concurrent.futures
import fcntl
import hashlib
import json
import os
import re
import shutil
import subprocess
import sys
import time

VERIF = "/verif"
REPO = "/repo"
COQ = os.path.join(VERIF, "coq")
NPROC = os.cpu_count() or 4

FORBIDDEN = re.compile(
    r"\b(Admitted|admit|Axiom|Axioms|Parameter|Parameters|Conjecture|Conjectures|Hypothesis|Hypotheses|Variable|Variables)\b"
    r"|Unset\s+Guard|Unset\s+Positivity|Unset\s+Universe|bypass_check|type-in-type|impredicative-set|Admit\s+Obligations|native_compute")


def goenv(extra=None):
    e = dict(os.environ)
    e.update({"GOFLAGS": "-mod=mod", "GOPROXY": "off", "GOSUMDB": "off", "GOTOOLCHAIN": "local",
              "GONOSUMDB": "*", "GONOSUMCHECK": "1", "GOFLAGS_VERIF": "1"})
    if extra:
        e.update(extra)
    return e


def run(cmd, cwd=None, timeout=600, env=None, shell=False):
    """Run a command, return (rc, combined output).  rc = 124 on timeout."""
    try:
        p = subprocess.run(cmd, cwd=cwd, env=env, shell=shell, stdout=subprocess.PIPE,
                           stderr=subprocess.STDOUT, timeout=timeout)
        return p.returncode, p.stdout.decode("utf-8", "replace")
    except subprocess.TimeoutExpired as ex:
        out = ex.stdout.decode("utf-8", "replace") if ex.stdout else ""
        return 124, out + "\n[timeout after %ss]" % timeout


def killed_by_system(rc, out):
    """True when a child was killed by a signal it did not raise itself (SIGKILL from the kernel's OOM killer) and Coq
    printed no error of its own: such a run carries no verdict and is repeated once."""
    if re.search(r"\bError\b", out) and not re.search(r"Out of memory|Killed|signal 9|Error 137", out):
        return False
    return rc in (-9, 137, -15) or bool(re.search(r"\bKilled\b|signal 9|Error 137|Out of memory|Cannot allocate memory", out))


class Broken(Exception):
    """A proof obligation, translator or correspondence that no longer checks."""

    def __init__(self, what, detail=""):
        super().__init__(what)
        self.what = what
        self.detail = detail


class Ctx:
    def __init__(self, pid, tier, seed):
        self.pid = pid
        self.tier = tier
        self.seed = seed
        self.t0 = time.time()
        self.work = os.path.join(VERIF, "work", pid)
        os.makedirs(self.work, exist_ok=True)
        os.makedirs(os.path.join(VERIF, "replays"), exist_ok=True)
        os.makedirs(os.path.join(VERIF, "evidence"), exist_ok=True)
        self.broken = []          # list of (what, detail)
        self.cases = []           # list of dict(term, nontrivial, harness)
        self.oracle = []          # list of dict(kind, term, detail, harness)
        self.stats = {}           # harness stat histograms
        self.mismatches = []      # list of dict(term, model)
        self.translator_manifests = []
        self.assumptions = {}     # theorem -> Print Assumptions text
        self.theorems = []
        self.instance_obligations = []
        self.notes = []
        self.harness_runs = []
        self.known_lines = []
        self.violations = []
        self.coq_eval_s = 0.0
        self.extra_coverage = {}

    def log(self, *a):
        print("[%s %6.1fs]" % (self.pid, time.time() - self.t0), *a, flush=True)


# ------------------------------------------------------------------------------------------------
# Coq
# ------------------------------------------------------------------------------------------------
class CoqLock:
    def __enter__(self):
        self.f = open(os.path.join(VERIF, "work", ".coq.lock"), "w")
        fcntl.flock(self.f, fcntl.LOCK_EX)
        return self

    def __exit__(self, *a):
        fcntl.flock(self.f, fcntl.LOCK_UN)
        self.f.close()


def coq_project():
    rc, out = run([os.path.join(VERIF, "lib", "mkcoqproject.sh")], timeout=120)
    if rc != 0:
        raise Broken("coq_makefile", out)


def grep_gate(dirs):
    """Reject forbidden vernacular anywhere in the development (comments are stripped first)."""
    bad = []
    for d in dirs:
        for root, _, files in os.walk(os.path.join(COQ, d)):
            for fn in sorted(files):
                if not fn.endswith(".v"):
                    continue
                p = os.path.join(root, fn)
                src = open(p, encoding="utf-8").read()
                src = strip_coq_comments(src)
                for i, line in enumerate(src.split("\n"), 1):
                    m = FORBIDDEN.search(line)
                    if m:
                        # Section-local Variable/Hypothesis are allowed inside sections only
                        if m.group(1) in ("Variable", "Variables", "Hypothesis", "Hypotheses") and in_section(src, i):
                            continue
                        bad.append("%s:%d: %s" % (p, i, line.strip()))
    return bad


def strip_coq_comments(src):
    out = []
    depth = 0
    i = 0
    n = len(src)
    instr = False
    while i < n:
        c = src[i]
        if depth == 0 and c == '"':
            instr = not instr
            out.append(c)
            i += 1
            continue
        if not instr and src.startswith("(*", i):
            depth += 1
            i += 2
            continue
        if not instr and depth > 0 and src.startswith("*)", i):
            depth -= 1
            i += 2
            continue
        if depth == 0:
            out.append(c)
        elif c == "\n":
            out.append(c)
        i += 1
    return "".join(out)


def in_section(src, lineno):
    depth = 0
    for i, line in enumerate(src.split("\n"), 1):
        if i >= lineno:
            break
        if re.match(r"\s*Section\s+\w+", line):
            depth += 1
        m = re.match(r"\s*End\s+(\w+)\s*\.", line)
        if m and depth > 0:
            # could be a Module end; only count if a Section with that name was opened
            if re.search(r"Section\s+%s\b" % re.escape(m.group(1)), src):
                depth -= 1
    return depth > 0


class PropLock:
    """Per-property build lock (builders of different properties do not block each other)."""
    def __init__(self, pid):
        self.pid = pid

    def __enter__(self):
        self.f = open(os.path.join(VERIF, "work", ".coq.%s.lock" % self.pid), "w")
        fcntl.flock(self.f, fcntl.LOCK_EX)
        return self

    def __exit__(self, *a):
        fcntl.flock(self.f, fcntl.LOCK_UN)
        self.f.close()


def prop_makefile(pid, dirs):
    """Write coq/_CoqProject.<pid> + Makefile.<pid> covering Common/, Generated/ and the given
    directories only, so that a property's build neither scans nor depends on another property's
    (possibly unfinished) files.  Regenerated only when the file list changes."""
    files = []
    for d in sorted(set(["Common", "Generated"] + list(dirs))):
        dd = os.path.join(COQ, d)
        if not os.path.isdir(dd):
            continue
        for root, _, fns in os.walk(dd):
            for fn in fns:
                if fn.endswith(".v"):
                    files.append(os.path.relpath(os.path.join(root, fn), COQ))
    files.sort()
    text = "-Q . Verif\n-arg -w -arg -notation-overridden,-deprecated-hint-without-locality,-deprecated-instance-without-locality\n" + "\n".join(files) + "\n"
    cp = os.path.join(COQ, "_CoqProject.%s" % pid)
    mf = os.path.join(COQ, "Makefile.%s" % pid)
    if not (os.path.exists(cp) and os.path.exists(mf) and open(cp).read() == text):
        open(cp, "w").write(text)
        rc, out = run(["coq_makefile", "-f", "_CoqProject.%s" % pid, "-o", "Makefile.%s" % pid], cwd=COQ, timeout=120)
        if rc != 0:
            raise Broken("coq_makefile", out)
    return "Makefile.%s" % pid


def coq_make(ctx, targets, timeout=1500):
    """Full .vo build of the given targets (relative to coq/), e.g. ['C11/Properties.vo'].
    Common/ is built under the global lock (shared by every property); the property's own files
    under its own lock with its own Makefile."""
    dirs = sorted({t.split("/")[0] for t in targets if "/" in t} | {ctx.pid})
    common = sorted("Common/" + f[:-2] + ".vo" for f in os.listdir(os.path.join(COQ, "Common")) if f.endswith(".v"))
    with CoqLock():
        mfc = prop_makefile("Common", [])
        rc, out = run(["make", "-f", mfc, "-j%d" % NPROC] + common, cwd=COQ, timeout=timeout)
    if rc == 0:
        with PropLock(ctx.pid):
            mf = prop_makefile(ctx.pid, dirs)
            rc, out = run(["make", "-f", mf, "-j%d" % NPROC] + targets, cwd=COQ, timeout=timeout)
            if rc != 0 and killed_by_system(rc, out):
                # a coqc taken out by the kernel (memory pressure from other jobs) is not a broken proof: once more, gently
                time.sleep(5)
                rc, out = run(["make", "-f", mf, "-j4"] + targets, cwd=COQ, timeout=timeout)
    open(os.path.join(ctx.work, "make.log"), "w").write(out)
    if rc != 0:
        m = re.search(r'File "\./([^"]+)", line (\d+)', out)
        where = "%s:%s" % (m.group(1), m.group(2)) if m else "?"
        tail = "\n".join(out.strip().split("\n")[-25:])
        raise Broken("coq proof obligation fails at %s" % where, tail)
    return out


def coqchk(ctx, module, timeout=1500):
    with CoqLock():
        rc, out = run(["coqchk", "-silent", "-o", "-Q", COQ, "Verif", "Verif." + module], cwd=COQ, timeout=timeout)
    open(os.path.join(ctx.work, "coqchk.log"), "w").write(out)
    if rc != 0:
        raise Broken("coqchk rejects the compiled closure of %s" % module, out[-3000:])
    m = re.search(r"\* Axioms:(.*?)\n\s*\n\* Constants/Inductives relying on type-in-type:(.*?)\n", out, re.S)
    ax = " ".join(m.group(1).split()) if m else "?"
    ctx.extra_coverage["coqchk"] = {"cmd": "coqchk -silent -o -Q /verif/coq Verif Verif.%s" % module,
                                    "axioms": ax, "ok": True}
    if ax not in ("<none>",):
        ctx.notes.append("coqchk reports axioms in the loaded closure: " + ax)


def theorem_names(vfile):
    src = strip_coq_comments(open(os.path.join(COQ, vfile)).read())
    return re.findall(r"^\s*(?:Theorem|Lemma|Corollary)\s+([A-Za-z0-9_']+)", src, re.M)


def print_assumptions(ctx, module, names):
    """Load the compiled module and print the assumptions of each theorem (fast: only loads .vo)."""
    vf = os.path.join(ctx.work, "Assumptions.v")
    with open(vf, "w") as f:
        f.write("From Verif Require Import %s.\n" % module)
        for n in names:
            f.write('Goal True. idtac "@@ %s". Abort.\nPrint Assumptions %s.\n' % (n, n))
    rc, out = run(["coqc", "-Q", COQ, "Verif", "-o", os.path.join(ctx.work, "Assumptions.vo"), vf],
                  cwd=ctx.work, timeout=300)
    if rc != 0:
        raise Broken("Print Assumptions failed for %s" % module, out[-2000:])
    res = {}
    cur = None
    for line in out.split("\n"):
        if line.startswith("@@ "):
            cur = line[3:].strip()
            res[cur] = ""
        elif cur is not None and line.strip():
            res[cur] += line.strip() + " "
    return {k: v.strip() for k, v in res.items()}


def coq_eval_cases(ctx, harness_module, check_fn, case_type, terms, shard=400, timeout=900,
                   model_out_fn=None):
    """Evaluate `check_fn term` for every term inside Coq (vm_compute), return indices that fail.

    harness_module e.g. 'C11.Harness'; case_type the Coq type of one case term.
    """
    t0 = time.time()
    if not terms:
        return []
    shards = [list(range(i, min(i + shard, len(terms)))) for i in range(0, len(terms), shard)]

    def one(k):
        idxs = shards[k]
        vf = os.path.join(ctx.work, "Cases_%d.v" % k)
        with open(vf, "w") as f:
            f.write("From Verif Require Import Common.Base %s.\nFrom Coq Require Import String.\n" % harness_module)
            f.write("Definition cases : list (nat * (%s)) := [\n" % case_type)
            f.write(";\n".join("(%d, %s)" % (i, terms[i]) for i in idxs))
            f.write("\n].\nDefinition M := Eval vm_compute in (bad %s cases).\n" % check_fn)
            f.write('Goal True. idtac "@@BEGIN". Abort.\nPrint M.\nGoal True. idtac "@@END". Abort.\n')
        cmd = ["coqc", "-Q", COQ, "Verif", "-w", "-all", "-o", os.path.join(ctx.work, "Cases_%d.vo" % k), vf]
        rc, out = run(cmd, cwd=ctx.work, timeout=timeout)
        if rc != 0 and killed_by_system(rc, out):
            # killed from outside (kernel OOM killer under memory pressure): the shard says nothing yet — evaluate it again
            time.sleep(5 + k % 7)
            rc, out = run(cmd, cwd=ctx.work, timeout=timeout)
        return k, rc, out

    failed = []
    with concurrent.futures.ThreadPoolExecutor(max_workers=NPROC) as ex:
        for k, rc, out in ex.map(one, range(len(shards))):
            if rc != 0:
                raise Broken("correspondence cases do not evaluate in Coq (shard %d)" % k, out[-3000:])
            m = re.search(r"@@BEGIN\s*(.*?)@@END", out, re.S)
            if not m:
                raise Broken("cannot parse Coq output (shard %d)" % k, out[-2000:])
            body = m.group(1)
            body = body.split("=", 1)[1] if "=" in body else body
            body = body.split(": list nat")[0]
            failed += [int(x) for x in re.findall(r"\d+", body)]
    ctx.coq_eval_s += time.time() - t0
    return sorted(failed)


def coq_eval_term(ctx, harness_module, expr, timeout=300):
    """Evaluate one closed Coq expression with vm_compute and return its printed form."""
    vf = os.path.join(ctx.work, "Eval_%d.v" % (abs(hash(expr)) % 10**8))
    with open(vf, "w") as f:
        f.write("From Verif Require Import Common.Base %s.\nFrom Coq Require Import String.\n" % harness_module)
        f.write("Definition R := Eval vm_compute in (%s).\n" % expr)
        f.write('Goal True. idtac "@@BEGIN". Abort.\nPrint R.\nGoal True. idtac "@@END". Abort.\n')
    rc, out = run(["coqc", "-Q", COQ, "Verif", "-w", "-all", "-o", vf + "o", vf], cwd=ctx.work, timeout=timeout)
    m = re.search(r"@@BEGIN\s*(.*?)@@END", out, re.S)
    if rc != 0 or not m:
        return "<coq evaluation failed: %s>" % out[-500:]
    return " ".join(m.group(1).split())


# ------------------------------------------------------------------------------------------------
# Translator T1
# ------------------------------------------------------------------------------------------------
def build_tool(name):
    """Build a Go tool under /verif/tools/<name> (offline)."""
    d = os.path.join(VERIF, "tools", name)
    binp = os.path.join(VERIF, "tools", "bin", name)
    os.makedirs(os.path.dirname(binp), exist_ok=True)
    srcs = [os.path.join(d, f) for f in os.listdir(d) if f.endswith(".go") or f in ("go.mod", "go.sum")]
    if os.path.exists(binp) and all(os.path.getmtime(s) <= os.path.getmtime(binp) for s in srcs):
        return binp
    rc, out = run(["go", "build", "-o", binp, "."], cwd=d, env=goenv(), timeout=600)
    if rc != 0:
        raise Broken("tool %s does not build" % name, out[-3000:])
    return binp


def go2coq(ctx, module_dir, spec_path, out_name):
    """Run translator T1 with cwd = /repo/<module_dir>; writes coq/Generated/<out_name>.v."""
    tool = build_tool("go2coq")
    outv = os.path.join(COQ, "Generated", out_name + ".v")
    man = os.path.join(ctx.work, out_name + ".manifest.json")
    rc, out = run([tool, "-spec", spec_path, "-out", outv, "-manifest", man],
                  cwd=os.path.join(REPO, module_dir), env=goenv(), timeout=600)
    if rc != 0:
        raise Broken("translator T1 (go2coq) cannot translate %s" % out_name, out[-3000:])
    try:
        ctx.translator_manifests += json.load(open(man))
    except Exception:
        pass
    return outv


# ------------------------------------------------------------------------------------------------
# Go harness through `go test -overlay`
# ------------------------------------------------------------------------------------------------
class Harness:
    def __init__(self, name, module, pkg, files, run, gopkg, timeout=600, race=False, extra_env=None,
                 extra_args=None, tags="verif"):
        self.name = name          # label
        self.module = module      # module dir relative to /repo ('' = root)
        self.pkg = pkg            # package path relative to module, e.g. './internal/status/'
        self.files = files        # {virtual file name in pkg dir: path under /verif/harness}
        self.run = run            # -run regex
        self.gopkg = gopkg        # Go package name (for the util template)
        self.timeout = timeout
        self.race = race
        self.extra_env = extra_env or {}
        self.extra_args = extra_args or []
        self.tags = tags


def run_harness(ctx, h, tier=None, replay=None, n_mult=None):
    tier = tier or ctx.tier
    pkgdir = os.path.normpath(os.path.join(REPO, h.module, h.pkg))
    ov = {}
    util_src = open(os.path.join(VERIF, "harness", "common", "util.go.tmpl")).read().replace("@PKG@", h.gopkg)
    util_path = os.path.join(ctx.work, "zz_verif_util_%s_test.go" % h.name)
    open(util_path, "w").write(util_src)
    ov[os.path.join(pkgdir, "zz_verif_util_test.go")] = util_path
    for vname, src in h.files.items():
        key = vname if vname.startswith("/") else os.path.join(pkgdir, vname)
        ov[key] = src if src.startswith("/") else os.path.join(VERIF, "harness", src)
    # builders' aid: try a breaking edit without touching /repo (BUILDING.md section 5)
    xo = os.environ.get("VERIF_EXTRA_OVERLAY")
    if xo and os.path.exists(xo):
        ov.update(json.load(open(xo)).get("Replace", {}))
    ovp = os.path.join(ctx.work, "overlay_%s.json" % h.name)
    json.dump({"Replace": ov}, open(ovp, "w"))
    outp = os.path.join(ctx.work, "out_%s_%s.txt" % (h.name, tier))
    if os.path.exists(outp):
        os.remove(outp)
    env = goenv({"VERIF_SEED": str(ctx.seed), "VERIF_TIER": tier, "VERIF_OUT": outp})
    if replay:
        env["VERIF_REPLAY"] = replay
    if n_mult:
        env["VERIF_N"] = str(n_mult)
    env.update(h.extra_env)
    # never let `go test -mod=mod` rewrite /repo/<module>/go.mod or go.sum (it moves "// indirect" requirements when a
    # harness imports such a module directly): work on a private copy handed over with -modfile
    modfile = os.path.join(ctx.work, "gomod_%s.mod" % h.name)
    moddir = os.path.join(REPO, h.module)
    shutil.copyfile(os.path.join(moddir, "go.mod"), modfile)
    if os.path.exists(os.path.join(moddir, "go.sum")):
        shutil.copyfile(os.path.join(moddir, "go.sum"), modfile[:-4] + ".sum")
    cmd = ["go", "test", "-modfile=" + modfile, "-overlay=" + ovp, "-count=1", "-vet=off", "-tags=" + h.tags,
           "-run", h.run, "-timeout", "%ds" % h.timeout] + (["-race"] if h.race else []) + h.extra_args + [h.pkg]
    t0 = time.time()
    rc, out = run(cmd, cwd=os.path.join(REPO, h.module), env=env, timeout=h.timeout + 120)
    dt = time.time() - t0
    open(os.path.join(ctx.work, "gotest_%s_%s.log" % (h.name, tier)), "w").write(out)
    cases, oracle, stats, done = [], [], {}, False
    if os.path.exists(outp):
        for line in open(outp, encoding="utf-8", errors="replace"):
            line = line.rstrip("\n")
            p = line.split("\t")
            if p[0] == "CASE" and len(p) >= 3:
                cases.append({"term": p[2], "nontrivial": p[1] == "1", "harness": h.name})
            elif p[0] == "ORACLE" and len(p) >= 4:
                oracle.append({"kind": p[1], "term": p[2], "detail": p[3], "harness": h.name})
            elif p[0] == "STAT" and len(p) >= 3:
                stats[p[1]] = stats.get(p[1], 0) + int(p[2])
            elif p[0] == "DONE":
                done = True
    ctx.harness_runs.append({"harness": h.name, "tier": tier, "rc": rc, "wall_s": round(dt, 2),
                             "cases": len(cases), "oracle_failures": len(oracle), "cmd": " ".join(cmd)})
    if rc != 0 or not done:
        build_fail = "[build failed]" in out or "[setup failed]" in out
        what = ("harness %s does not build against the current tree" if build_fail
                else "harness %s did not complete (panic, deadline or test failure)") % h.name
        # keep whatever was collected: oracle failures found before the crash are still real
        return cases, oracle, stats, Broken(what, "\n".join(out.strip().split("\n")[-40:]))
    return cases, oracle, stats, None


# ------------------------------------------------------------------------------------------------
# Known findings, violations, evidence
# ------------------------------------------------------------------------------------------------
def known_findings(pid):
    p = os.path.join(VERIF, "known_findings.json")
    if not os.path.exists(p):
        return []
    data = json.load(open(p))
    return [f for f in data.get("findings", []) if f.get("property") == pid and f.get("status", "open") == "open"]


def write_replay(ctx, name, payload):
    h = hashlib.sha256(json.dumps(payload, sort_keys=True).encode()).hexdigest()[:12]
    path = os.path.join(VERIF, "replays", "%s-%s-%s.json" % (ctx.pid, name, h))
    payload = dict(payload)
    payload.setdefault("property", ctx.pid)
    payload.setdefault("seed", ctx.seed)
    payload.setdefault("tier", ctx.tier)
    json.dump(payload, open(path, "w"), indent=1)
    return path


def violation(ctx, replay_path, suffix=""):
    line = "VIOLATION property=%s replay=%s%s" % (ctx.pid, replay_path, (" " + suffix) if suffix else "")
    ctx.violations.append(line)
    print(line, flush=True)


def validate_evidence(path):
    schema = "/root/.vp/EVIDENCE.schema.json"
    if not os.path.exists(schema) or not shutil.which("python3-vt"):
        return None
    code = ("import json,jsonschema,sys;"
            "jsonschema.validate(json.load(open(sys.argv[1])), json.load(open(sys.argv[2])))")
    rc, out = run(["python3-vt", "-c", code, path, schema], timeout=60)
    return None if rc == 0 else out[-1500:]


def write_evidence(ctx, level, rule, trusted_base, assumptions, checker_cmd, samples=None, extra=None):
    terms = [c["term"] for c in ctx.cases]
    distinct_nt = len({c["term"] for c in ctx.cases if c["nontrivial"]})
    obligations = len(ctx.theorems) + len(ctx.instance_obligations)
    broken_proof = any(("coq proof" in w or "translator" in w or "Print Assumptions" in w or "forbidden" in w) for w, _ in ctx.broken)
    discharged = 0 if broken_proof else obligations
    if samples is None:
        samples = []
        step = max(1, len(terms) // 3)
        for t in terms[::step][:3]:
            samples.append(t if len(t) < 600 else t[:600] + " …")
        for t in ctx.theorems[:3]:
            samples.append("theorem " + t)
    cov = {
        "obligations": obligations,
        "discharged": discharged,
        "checker_cmd": checker_cmd,
        "trusted_base": trusted_base,
        "evaluations": len(terms),
        "distinct_nontrivial": distinct_nt,
        "rule": rule,
        "samples": samples or ["(no cases)"],
        "traces_validated_against_impl": len(terms),
        "theorems": ctx.theorems,
        "instance_obligations": ctx.instance_obligations,
        "print_assumptions": ctx.assumptions,
        "translator_manifest": [{"file": m.get("file"), "lines": m.get("lines"), "sha256": m.get("sha256"),
                                 "defines": m.get("defines"), "params": m.get("params")} for m in ctx.translator_manifests],
        "harness_runs": ctx.harness_runs,
        "generator_histograms": ctx.stats,
        "model_mismatches": len(ctx.mismatches),
        "oracle_failures": len(ctx.oracle),
        "known_findings_reproduced": ctx.known_lines,
        "broken": [w for w, _ in ctx.broken],
        "coq_case_evaluation_s": round(ctx.coq_eval_s, 2),
        "notes": ctx.notes,
    }
    if extra:
        cov.update(extra)
    cov.update(ctx.extra_coverage)
    ev = {
        "property_id": ctx.pid,
        "tier": "thorough" if ctx.tier == "thorough" else "quick",
        "seed": ctx.seed,
        "level": level,
        "coverage": cov,
        "assumptions": assumptions,
        "wall_s": round(time.time() - ctx.t0, 2),
        "violations": len(ctx.violations),
    }
    path = os.path.join(VERIF, "evidence", "%s.json" % ctx.pid)
    if os.environ.get("VERIF_EXTRA_OVERLAY"):
        # a run against an edited copy of the sources (lib/try_patch.py) is not evidence about /repo
        path = os.path.join(ctx.work, "evidence_extra_overlay.json")
    tmp = path + ".tmp"
    json.dump(ev, open(tmp, "w"), indent=1)
    os.replace(tmp, path)
    err = validate_evidence(path)
    if err:
        ctx.log("WARNING evidence does not validate:", err)
    return path


# ------------------------------------------------------------------------------------------------
# The standard pipeline
# ------------------------------------------------------------------------------------------------
class Prop:
    """Declarative description of one property's check; see props/Cxx/check.py."""
    pid = None
    coq_dirs = []               # directories under coq/ scanned by the grep gate
    coq_targets = []            # .vo targets to build
    properties_module = None    # e.g. 'C11.Properties'
    properties_file = None      # e.g. 'C11/Properties.v'
    instance_obligations = []   # names of generated-instance obligations (subset of theorems or extra)
    harness_module = None       # e.g. 'C11.Harness'
    check_fn = "check_case"
    model_out_fn = "model_out"
    case_type = None
    harnesses = []
    rule = ""
    trusted_base = []
    assumptions = []
    level = "proof"
    shard = 400

    def translate(self, ctx):
        pass

    def match_known(self, finding, failure):
        """Does an oracle failure {kind, term, detail} match a known finding's signature?"""
        sig = finding.get("signature", {})
        if sig.get("kind") != failure["kind"]:
            return False
        rx = sig.get("detail_regex")
        if rx and not re.search(rx, failure["detail"]):
            return False
        return True

    def extra_checks(self, ctx):
        """Property-specific additional steps (may append to ctx.oracle / ctx.broken)."""
        pass

    def thorough_extra(self, ctx):
        """Thorough tier: re-check the compiled closure of the property theorems with the
        independent checker coqchk and record the axioms it reports."""
        coqchk(ctx, self.properties_module)


def standard_check(P, ctx, replay=None):
    # 1. translate
    try:
        P.translate(ctx)
    except Broken as b:
        ctx.broken.append((b.what, b.detail))
        ctx.log("BROKEN:", b.what)
    # 2. prove
    bad = grep_gate(P.coq_dirs)
    if bad:
        ctx.broken.append(("forbidden vernacular in the development", "\n".join(bad)))
    model_ok = True
    try:
        coq_make(ctx, P.coq_targets)
        ctx.theorems = theorem_names(P.properties_file)
        ctx.instance_obligations = list(P.instance_obligations)
        ctx.assumptions = print_assumptions(ctx, P.properties_module, ctx.theorems)
        for n, a in ctx.assumptions.items():
            if "Closed under the global context" not in a:
                ctx.notes.append("theorem %s depends on: %s" % (n, a))
    except Broken as b:
        ctx.broken.append((b.what, b.detail))
        ctx.log("BROKEN:", b.what)
        try:
            ctx.theorems = theorem_names(P.properties_file)
        except Exception:
            pass
        # can the model (without the proofs) still be built?  then correspondence still runs.
        try:
            coq_make(ctx, [P.harness_module.replace(".", "/") + ".vo"])
        except Broken:
            model_ok = False
    ctx.log("proofs: %d theorems, broken=%d" % (len(ctx.theorems), len(ctx.broken)))
    # 3. correspondence
    for h in P.harnesses:
        cases, oracle, stats, err = run_harness(ctx, h, replay=replay)
        ctx.cases += cases
        ctx.oracle += oracle
        for k, v in stats.items():
            ctx.stats[h.name + "." + k] = v
        if err:
            ctx.broken.append((err.what, err.detail))
            ctx.log("BROKEN:", err.what)
        ctx.log("harness %s: %d cases, %d oracle failures" % (h.name, len(cases), len(oracle)))
    if model_ok and ctx.cases:
        try:
            terms = [c["term"] for c in ctx.cases]
            failed = coq_eval_cases(ctx, P.harness_module, P.check_fn, P.case_type, terms, shard=P.shard)
            for i in failed[:50]:
                ctx.mismatches.append({"term": terms[i], "harness": ctx.cases[i]["harness"]})
            if failed:
                ctx.log("model/implementation disagreements: %d" % len(failed))
        except Broken as b:
            ctx.broken.append((b.what, b.detail))
            ctx.log("BROKEN:", b.what)
    try:
        P.extra_checks(ctx)
    except Broken as b:
        ctx.broken.append((b.what, b.detail))
    if ctx.tier == "thorough":
        try:
            P.thorough_extra(ctx)
        except Broken as b:
            ctx.broken.append((b.what, b.detail))
    return verdict(P, ctx)


def verdict(P, ctx):
    known = known_findings(P.pid)
    unlisted = []
    reproduced = {}
    for f in ctx.oracle:
        hit = None
        for k in known:
            if P.match_known(k, f):
                hit = k
                break
        if hit:
            reproduced.setdefault(hit["id"], (hit, f))
        else:
            unlisted.append(f)
    for kid, (k, f) in sorted(reproduced.items()):
        line = "KNOWN-FINDING: property=%s %s [%s]" % (P.pid, k["what"], kid)
        ctx.known_lines.append(line)
        print(line, flush=True)
    # a) direct oracle failures on the implementation that no known finding explains
    seen = set()
    for f in unlisted:
        if f["kind"] in seen:
            continue
        seen.add(f["kind"])
        mo = None
        if P.model_out_fn and P.harness_module:
            mo = coq_eval_term(ctx, P.harness_module, "%s %s" % (P.model_out_fn, f["term"])) if len(f["term"]) < 20000 else None
        rp = write_replay(ctx, f["kind"], {
            "kind": "property oracle fails on the implementation", "oracle": f["kind"], "case": f["term"],
            "detail": f["detail"], "model_says": mo, "harness": f["harness"],
            "replay_cmd": "cd /verif && VERIF_SEED=%d ./check %s --tier %s" % (ctx.seed, P.pid, ctx.tier)})
        violation(ctx, rp)
    # b) something no longer checks (proof, translator, harness, model/impl disagreement)
    if not unlisted and (ctx.broken or ctx.mismatches):
        found = search_failing_input(P, ctx, known)
        if found:
            rp = write_replay(ctx, found["kind"], {
                "kind": "failing input found by search after a broken obligation/correspondence",
                "broken": [w for w, _ in ctx.broken], "oracle": found["kind"], "case": found["term"],
                "detail": found["detail"], "harness": found["harness"],
                "model_disagreements": ctx.mismatches[:3]})
            violation(ctx, rp)
        else:
            payload = {"kind": "obligation or correspondence no longer checks; no failing input found",
                       "broken": [{"what": w, "detail": d[-4000:]} for w, d in ctx.broken],
                       "model_disagreements": []}
            for m in ctx.mismatches[:5]:
                mo = coq_eval_term(ctx, P.harness_module, "%s %s" % (P.model_out_fn, m["term"])) if (P.model_out_fn and len(m["term"]) < 20000) else None
                payload["model_disagreements"].append({"case": m["term"], "model_says": mo, "harness": m["harness"]})
            if ctx.mismatches:
                payload["broken"].append({"what": "correspondence %s.%s: model and implementation disagree on %d case(s)"
                                          % (P.harness_module, P.check_fn, len(ctx.mismatches)), "detail": ""})
            rp = write_replay(ctx, "broken", payload)
            violation(ctx, rp, "no-failing-input-found")
    write_evidence(ctx, P.level, P.rule, P.trusted_base, P.assumptions,
                   "cd /verif/coq && make -j16 %s  (coqc 8.16.1, full .vo build) + Print Assumptions per theorem" % " ".join(P.coq_targets))
    if ctx.violations:
        return 1
    ctx.log("OK: %d theorems, %d cases (%d distinct non-trivial), %d known finding(s) reproduced"
            % (len(ctx.theorems), len(ctx.cases), len({c['term'] for c in ctx.cases if c['nontrivial']}), len(ctx.known_lines)))
    return 0


def search_failing_input(P, ctx, known):
    """Re-run the harnesses with a 10x budget looking only at the direct oracle."""
    ctx.log("searching for a concrete failing input (10x budget, direct oracle)")
    for h in P.harnesses:
        cases, oracle, stats, err = run_harness(ctx, h, tier="search")
        for f in oracle:
            if not any(P.match_known(k, f) for k in known):
                return f
    return None


def main(P, argv=None):
    import argparse
    ap = argparse.ArgumentParser()
    ap.add_argument("--tier", default=os.environ.get("VERIF_TIER", "quick"))
    ap.add_argument("--replay", default=None)
    a = ap.parse_args(argv)
    seed = int(os.environ.get("VERIF_SEED", "20260926"))
    # one run per property at a time: runs of the same property share work/<pid>/ (case files, generated models)
    os.makedirs(os.path.join(VERIF, "work"), exist_ok=True)
    runlock = open(os.path.join(VERIF, "work", ".run.%s.lock" % P.pid), "w")
    fcntl.flock(runlock, fcntl.LOCK_EX)
    ctx = Ctx(P.pid, a.tier, seed)
    try:
        rc = standard_check(P, ctx, replay=a.replay)
    except Exception as ex:  # an internal error of the machinery is reported, never hidden
        import traceback
        traceback.print_exc()
        rp = write_replay(ctx, "internal", {"kind": "check machinery error", "error": repr(ex)})
        violation(ctx, rp, "no-failing-input-found")
        rc = 1
    return rc
