#!/bin/sh
# lib/integrate.sh Cxx — integrator's acceptance run: quick check with three seeds on the unchanged tree, wall time,
# theorem list, forbidden-vernacular grep.  Nothing is claimed by this script; add the id to props/INTEGRATED afterwards.
pid=$1
cd /verif || exit 1
for f in check.py manifest.json NOTES.md; do [ -f props/$pid/$f ] || echo "MISSING props/$pid/$f"; done
grep -rnE 'Admitted|admit\.|^\s*(Axiom|Parameter|Conjecture)\b|Unset Guard|bypass_check|native_compute' coq/$pid/ && echo "FORBIDDEN VERNACULAR"
echo "--- theorems in Properties.v:"; grep -cE '^\s*(Theorem|Lemma|Corollary)' coq/$pid/Properties.v
rc_all=0
for seed in 1 20260926 777; do
  s=$(date +%s)
  VERIF_SEED=$seed timeout 600 ./check $pid --tier quick > work/$pid/integrate_$seed.log 2>&1; rc=$?
  e=$(date +%s)
  echo "seed=$seed exit=$rc wall=$((e-s))s  $(grep -c '^KNOWN-FINDING' work/$pid/integrate_$seed.log) known, $(grep -c '^VIOLATION' work/$pid/integrate_$seed.log) violations; $(tail -1 work/$pid/integrate_$seed.log | cut -c1-160)"
  [ $rc -ne 0 ] && rc_all=1
done
python3 - <<EOF
import json
e=json.load(open('/verif/evidence/$pid.json'))
c=e.get('coverage',{})
print('evidence: level',e.get('level'),'obligations',c.get('obligations'),'discharged',c.get('discharged'),'evaluations',c.get('evaluations'),'distinct_nontrivial',c.get('distinct_nontrivial'))
EOF
exit $rc_all
