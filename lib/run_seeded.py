#!/usr/bin/env python3
"""lib/run_seeded.py <seeded-id> [--apply] [--tier quick] — run the property's check against a kept breaking change.

default : through lib/try_patch.py (edited copies handed to the harnesses/translators by overlay; /repo untouched)
--apply : `git -C /repo apply` the patch, run ./check, and undo it straight afterwards (`git -C /repo checkout -- .`);
          only when nothing else is building against /repo.
The outcome (exit code, VIOLATION lines, wall time) is recorded in seeded/<id>/meta.json under "check_result"."""
import json
import os
import re
import subprocess
import sys
import time

sid = sys.argv[1]
apply = "--apply" in sys.argv
tier = "quick"
if "--tier" in sys.argv:
    tier = sys.argv[sys.argv.index("--tier") + 1]
d = "/verif/seeded/%s" % sid
meta = json.load(open(os.path.join(d, "meta.json")))
pid = meta["property"]
other = None
if "--check" in sys.argv:   # run ANOTHER property's check against this change (recorded under check_result_other)
    other = sys.argv[sys.argv.index("--check") + 1]
    pid = other
patch = os.path.join(d, "patch.diff")
t0 = time.time()
if apply:
    st = subprocess.run(["git", "-C", "/repo", "status", "--porcelain", "--untracked-files=no"], stdout=subprocess.PIPE, text=True).stdout.strip()
    if st:
        print("refusing: /repo has uncommitted changes:\n" + st); sys.exit(3)
    subprocess.check_call(["git", "-C", "/repo", "apply", patch])
    try:
        # evidence of a run on a changed tree must not replace the clean-tree evidence
        ev = "/verif/evidence/%s.json" % pid
        keep = open(ev).read() if os.path.exists(ev) else None
        r = subprocess.run(["./check", pid, "--tier", tier], cwd="/verif", stdout=subprocess.PIPE, stderr=subprocess.STDOUT, text=True)
        if keep is not None:
            open(ev, "w").write(keep)
    finally:
        subprocess.check_call(["git", "-C", "/repo", "checkout", "--", "."])
else:
    r = subprocess.run(["python3", "/verif/lib/try_patch.py", patch, pid, "--tier", tier], cwd="/verif", stdout=subprocess.PIPE, stderr=subprocess.STDOUT, text=True)
out = r.stdout
viol = [l for l in out.split("\n") if l.startswith("VIOLATION")]
res = {"mode": "git apply on /repo" if apply else "overlay (lib/try_patch.py)", "tier": tier, "exit": r.returncode,
       "violation_lines": viol, "wall_s": round(time.time() - t0, 1),
       "caught": r.returncode == 1 and bool(viol),
       "failing_input_found": bool(viol) and not all("no-failing-input-found" in v for v in viol)}
if viol:
    m = re.search(r"replay=(\S+)", viol[0])
    if m and os.path.exists(os.path.join("/verif", m.group(1))):
        try:
            rp = json.load(open(os.path.join("/verif", m.group(1))))
            res["replay_summary"] = {k: (v if len(str(v)) < 600 else str(v)[:600] + "…") for k, v in rp.items() if k in ("kind", "oracle", "case", "detail", "broken")}
        except Exception:
            pass
if other:
    meta.setdefault("check_result_other", {})[other] = res
else:
    meta["check_result"] = res
json.dump(meta, open(os.path.join(d, "meta.json"), "w"), indent=1)
print(out[-2500:])
print("run_seeded:", sid, "caught" if res["caught"] else "MISSED", res)
